// Package space is the explicit-state (SPACE) driver: breadth-first search over
// event sequences, every event executed atomically on the real handlers inside a
// controlled execution, successors obtained by replaying the path on reset
// instances plus one event, in-event data choices (map orders, select
// alternatives) enumerated exhaustively, states de-duplicated by canonical key.
package space

import (
	"bufio"
	"encoding/json"
	"fmt"
	"os"
	"os/exec"
	"sort"
	"strings"
	"sync"
	"time"

	"verif.local/harness/common"
	"verif.local/vsched"
)

// Model is a closed system explored by the driver. One Model value lives per worker process.
type Model interface {
	// Setup runs once per worker process, outside any execution.
	Setup()
	// Init builds the initial world; it runs at the start of every execution.
	Init()
	// Enabled lists the events enabled in the current state (called after the path was replayed).
	Enabled() []string
	// BeforeLast is called right before the last event of a path is applied (pre-state capture).
	BeforeLast(ev string)
	// Apply performs one event on the real code and returns its result class.
	Apply(ev string) string
	// Key returns the canonical key of the current state.
	Key() string
	// Check evaluates the oracles for the transition just made (ev applied with result res).
	Check(ev, res string) []common.Violation
	// Counters returns model-specific non-vacuity counters accumulated since the last call.
	Counters() map[string]int
}

// Job asks a worker to expand one state.
type Job struct {
	Path     []string
	Choices  []int
	Replay   bool   // only replay Path/Choices and check the last transition
	ListOnly bool   // only report the enabled events
	Only     string // expand only this event
	Tag      string // selects the model inside a multi-model worker
	// Deadline (unix nanoseconds, 0 = none): past it, no further alternative of an in-event data choice is started;
	// the default execution of every enabled event still runs, and the result says that it was capped
	Deadline int64
}

// Succ is one successor found.
type Succ struct {
	Event   string
	Result  string
	Key     string
	Choices []int
	Tag     string // optional model tag of the transition (see Tagger)
	Proj    string // optional projection of the target state that twin states must share
}

// Tagger is an optional interface of a Model: a transition tagged "twin" declares that its source and target
// states must answer every later event identically (differential oracle evaluated by the coordinator).
type Tagger interface {
	Tag(ev, res string) string
	// Projection renders the part of the current state that two twin states must have in common.
	Projection() string
}

var lastTag, lastProj string

// TwinSpec configures the coordinator's differential oracle over "twin" transitions.
type TwinSpec struct {
	Property, Predicate, Key string
	// Compare reports whether the results of this event are to be compared in the two states.
	Compare func(ev string) bool
}

// Twin, when set, makes the search compare the result sets of every common event of the two end states of a
// transition tagged "twin".
var Twin *TwinSpec

// JobResult is the worker's answer.
type JobResult struct {
	Job        Job
	Enabled    []string
	Succs      []Succ
	Violations []common.Violation
	Executions int
	Events     int
	Counters   map[string]int
	Diverged   int
	Blocked    int
	Panics     int
	Err        string
	Trace      []string
	Capped     bool // the enumeration of in-event data choices was cut by the job's deadline
}

// Opt is the vsched configuration used for every execution.
var Opt = vsched.Options{BranchData: true}

// maxDataPerEvent bounds the data deviations explored inside one event (-1 = all).
var MaxDataPerEvent = -1

func runPath(m Model, path []string, choices []int, res *JobResult, check bool) (*vsched.Result, string, string, []common.Violation) {
	var key, last string
	var viol []common.Violation
	opt := Opt
	opt.Choices = choices
	r := vsched.Run(opt, func() {
		vsched.Quiet(true)
		m.Init()
		vsched.Quiet(false)
		for i, ev := range path {
			if i == len(path)-1 {
				m.BeforeLast(ev)
			}
			last = m.Apply(ev)
			vsched.Settle()
		}
		vsched.Quiet(true)
		key = m.Key()
		lastTag, lastProj = "", ""
		if check && len(path) > 0 {
			viol = m.Check(path[len(path)-1], last)
			if tg, ok := m.(Tagger); ok {
				lastTag = tg.Tag(path[len(path)-1], last)
				lastProj = tg.Projection()
			}
		}
	})
	res.Executions++
	res.Events += len(path)
	if r.Diverged != "" {
		res.Diverged++
	}
	if !r.RootDone {
		res.Blocked++
		what := "deadlock"
		if len(r.Panics) > 0 {
			what = "panic: " + r.Panics[0].Value + " in " + r.Panics[0].Where
			res.Panics++
		}
		var bl []string
		for _, b := range r.Blocked {
			if b.Class != vsched.Daemon {
				bl = append(bl, fmt.Sprintf("%s %s %s @ %s", b.Task, b.Op, b.Obj, b.Where))
			}
		}
		ev := ""
		if len(path) > 0 {
			ev = path[len(path)-1]
		}
		viol = append(viol, common.Violation{Predicate: "space.completes", Key: "SPACE.incomplete/" + evKind(ev) + "/" + classify(what),
			What: fmt.Sprintf("event %s did not complete: %s; blocked: %s", ev, what, strings.Join(bl, "; "))})
	}
	return r, key, last, viol
}

func classify(s string) string {
	if i := strings.Index(s, "\n"); i >= 0 {
		s = s[:i]
	}
	if len(s) > 60 {
		s = s[:60]
	}
	return strings.ReplaceAll(s, " ", "-")
}

func evKind(ev string) string {
	if i := strings.Index(ev, ":"); i >= 0 {
		return ev[:i]
	}
	return ev
}

// Expand computes all successors of the state reached by job.Path/job.Choices.
func Expand(m Model, job Job) *JobResult {
	res := &JobResult{Job: job, Counters: map[string]int{}}
	if job.Replay {
		r, key, last, viol := runPath(m, job.Path, job.Choices, res, true)
		res.Violations = viol
		res.Succs = []Succ{{Event: "replay", Result: last, Key: key, Choices: r.Choices, Tag: lastTag, Proj: lastProj}}
		return res
	}
	// 1. replay the path to learn the enabled events
	var enabled []string
	opt := Opt
	opt.Choices = job.Choices
	r0 := vsched.Run(opt, func() {
		vsched.Quiet(true)
		m.Init()
		vsched.Quiet(false)
		for _, ev := range job.Path {
			m.Apply(ev)
			vsched.Settle()
		}
		vsched.Quiet(true)
		enabled = m.Enabled()
	})
	res.Executions++
	if r0.Diverged != "" || !r0.RootDone {
		res.Err = fmt.Sprintf("replay of an explored path failed (diverged=%q rootDone=%v)", r0.Diverged, r0.RootDone)
		return res
	}
	base := len(r0.Choices)
	seenV := map[string]bool{}
	if job.ListOnly {
		res.Enabled = enabled
		return res
	}
	for _, ev := range enabled {
		if job.Only != "" && ev != job.Only {
			continue
		}
		path := append(append([]string(nil), job.Path...), ev)
		// depth-first over the data choices made inside the new event
		var dfs func(prefix []int)
		dfs = func(prefix []int) {
			r, key, last, viol := runPath(m, path, prefix, res, true)
			for _, v := range viol {
				if !seenV[v.Key] {
					seenV[v.Key] = true
					v.Witness = map[string]any{"path": path, "choices": append([]int(nil), r.Choices...), "result": last, "detail": v.Witness}
					res.Violations = append(res.Violations, v)
				}
			}
			res.Succs = append(res.Succs, Succ{Event: ev, Result: last, Key: key, Choices: append([]int(nil), r.Choices...), Tag: lastTag, Proj: lastProj})
			for i := len(prefix); i < len(r.Points); i++ {
				if i < base {
					continue
				}
				if MaxDataPerEvent >= 0 {
					dev := 0
					for j := base; j < i; j++ {
						if r.Choices[j] != 0 {
							dev++
						}
					}
					if dev+1 > MaxDataPerEvent {
						continue
					}
				}
				for alt := 1; alt < r.Points[i].N; alt++ {
					if job.Deadline != 0 && time.Now().UnixNano() > job.Deadline {
						res.Capped = true
						return
					}
					np := make([]int, i+1)
					copy(np, r.Choices[:i])
					np[i] = alt
					dfs(np)
				}
			}
		}
		dfs(append([]int(nil), job.Choices...))
	}
	for k, v := range m.Counters() {
		res.Counters[k] += v
	}
	return res
}

// WorkerMain serves expansion jobs over stdin/stdout.
func WorkerMain(m Model) { WorkerMainMulti(func(string) Model { return m }) }

// WorkerMainMulti serves jobs for several models, selected by Job.Tag (models are created and set up on first use).
func WorkerMainMulti(mk func(tag string) Model) {
	models := map[string]Model{}
	in := bufio.NewScanner(os.Stdin)
	in.Buffer(make([]byte, 1<<20), 1<<26)
	out := bufio.NewWriter(os.Stdout)
	defer out.Flush()
	for in.Scan() {
		var job Job
		if err := json.Unmarshal(in.Bytes(), &job); err != nil {
			continue
		}
		m := models[job.Tag]
		if m == nil {
			m = mk(job.Tag)
			if m == nil {
				b, _ := json.Marshal(&JobResult{Job: job, Err: "unknown model tag " + job.Tag})
				out.Write(b)
				out.WriteByte('\n')
				out.Flush()
				continue
			}
			m.Setup()
			models[job.Tag] = m
		}
		res := Expand(m, job)
		b, _ := json.Marshal(res)
		out.Write(b)
		out.WriteByte('\n')
		out.Flush()
	}
}

// Stats of a search.
type Stats struct {
	Unconfirmed []string // keys of violations whose witness did not reproduce on a fresh worker
	States       int
	Transitions  int
	Executions   int
	Events       int
	MaxDepth     int
	DepthDone    int
	FrontierLeft int
	Exhaustive   bool
	CapHit       string
	Counters     map[string]int
	PerKind      map[string]int
	Results      map[string]int
	LevelSizes   []int
	Blocked      int
	Diverged     int
}

type node struct {
	path    []string
	choices []int
	key     string
}

type twinEdge struct {
	from, to string
	path     []string
	ev       string
}

type worker struct {
	cmd    *exec.Cmd
	stdin  *bufio.Writer
	stdout *bufio.Scanner
	closer func()
	n      int
}

func startWorker(args []string) (*worker, error) {
	self, _ := os.Executable()
	cmd := exec.Command(self, args...)
	cmd.Stderr = &lineFilter{w: os.Stderr}
	cmd.Env = append(os.Environ(), "GOMAXPROCS=1")
	ip, err := cmd.StdinPipe()
	if err != nil {
		return nil, err
	}
	op, err := cmd.StdoutPipe()
	if err != nil {
		return nil, err
	}
	if err := cmd.Start(); err != nil {
		return nil, err
	}
	w := &worker{cmd: cmd, stdin: bufio.NewWriter(ip), stdout: bufio.NewScanner(op)}
	w.stdout.Buffer(make([]byte, 1<<20), 1<<28)
	w.closer = func() { ip.Close(); cmd.Wait() }
	return w, nil
}

// Pool is a set of persistent worker processes shared by all levels and runs of a check.
type Pool struct {
	args    []string
	procs   int
	mu      sync.Mutex
	idle    []*worker
	started int
}

// NewPool creates a pool; workers are started lazily.
func NewPool(workerArgs []string, procs int) *Pool { return &Pool{args: workerArgs, procs: procs} }

func (p *Pool) get() (*worker, error) {
	p.mu.Lock()
	if n := len(p.idle); n > 0 {
		w := p.idle[n-1]
		p.idle = p.idle[:n-1]
		p.mu.Unlock()
		return w, nil
	}
	p.started++
	p.mu.Unlock()
	return startWorker(p.args)
}

func (p *Pool) put(w *worker) {
	if w.n >= 4000 {
		w.closer()
		return
	}
	p.mu.Lock()
	p.idle = append(p.idle, w)
	p.mu.Unlock()
}

// Close terminates all idle workers.
func (p *Pool) Close() {
	p.mu.Lock()
	defer p.mu.Unlock()
	for _, w := range p.idle {
		w.closer()
	}
	p.idle = nil
}

// Search runs the level-synchronous BFS up to maxDepth, using procs worker processes.
func Search(rep *common.Report, workerArgs []string, maxDepth, procs int, deadline time.Time, sampleEvery int) *Stats {
	return SearchF(rep.Add, rep.Sample, workerArgs, maxDepth, procs, deadline, sampleEvery)
}

// SearchF is Search with explicit violation and sample sinks.
func SearchF(addViol func(common.Violation), addSample func(any), workerArgs []string, maxDepth, procs int, deadline time.Time, sampleEvery int) *Stats {
	pool := NewPool(workerArgs, procs)
	defer pool.Close()
	return SearchP(pool, "", addViol, addSample, maxDepth, deadline, sampleEvery)
}

// SearchP is SearchF on a shared worker pool; tag selects the model in multi-model workers.
func SearchP(pool *Pool, tag string, addViol func(common.Violation), addSample func(any), maxDepth int, deadline time.Time, sampleEvery int) *Stats {
	procs := pool.procs
	st := &Stats{Exhaustive: true, Counters: map[string]int{}, PerKind: map[string]int{}, Results: map[string]int{}}
	seen := map[string]bool{}
	frontier := []node{{}}
	// differential oracle: results per (state key, event) and the tagged transitions
	// a violation is reported only if its witness reproduces on a fresh worker process (decided once per key): a
	// violation that does not is the trace of nondeterminism the harness does not own, never an alarm
	verdictOf := map[string]bool{}
	confirmed := func(v common.Violation) bool {
		if ok, done := verdictOf[v.Key]; done {
			return ok
		}
		w, isMap := v.Witness.(map[string]any)
		if !isMap || w["path"] == nil {
			verdictOf[v.Key] = true
			return true
		}
		var path []string
		var choices []int
		pb, _ := json.Marshal(w["path"])
		cb, _ := json.Marshal(w["choices"])
		json.Unmarshal(pb, &path)
		json.Unmarshal(cb, &choices)
		ok := true
		if fw, err := startWorker(pool.args); err == nil {
			jb := Job{Path: path, Choices: choices, Replay: true, Tag: tag}
			b, _ := json.Marshal(jb)
			fw.stdin.Write(b)
			fw.stdin.WriteByte('\n')
			fw.stdin.Flush()
			if fw.stdout.Scan() {
				var r JobResult
				if json.Unmarshal(fw.stdout.Bytes(), &r) == nil && r.Err == "" {
					ok = false
					for _, rv := range r.Violations {
						if rv.Key == v.Key {
							ok = true
						}
					}
				}
			}
			fw.closer()
		}
		verdictOf[v.Key] = ok
		if !ok {
			st.Unconfirmed = append(st.Unconfirmed, v.Key)
			fmt.Fprintf(os.Stderr, "space: violation %s did not reproduce on a fresh worker (path %v): not reported; recorded as unconfirmed\n", v.Key, path)
		}
		return ok
	}
	results := map[string]map[string]map[string]bool{}
	succOf := map[string]map[string]map[string]bool{} // state key -> event -> successor keys
	proj := map[string]string{}
	keyPath := map[string]node{}
	var twins []twinEdge
	nodeID := func(path []string, choices []int) string { return strings.Join(path, ",") + "#" + fmt.Sprint(choices) }
	pathKey := map[string]string{nodeID(nil, nil): "<init>"}
	// the initial state's key is learnt from the first expansion; count it as a state
	st.States = 1
	for depth := 0; depth < maxDepth && len(frontier) > 0; depth++ {
		st.LevelSizes = append(st.LevelSizes, len(frontier))
		var stopMu sync.Mutex
		stopped := false
		runJobs := func(jobs []Job, handle func(*JobResult)) {
			jobCh := make(chan Job)
			resCh := make(chan *JobResult)
			var wg sync.WaitGroup
			np := procs
			if np > len(jobs) {
				np = len(jobs)
			}
			for i := 0; i < np; i++ {
				wg.Add(1)
				go func() {
					defer wg.Done()
					var w *worker
					for jb := range jobCh {
						if !deadline.IsZero() && time.Now().After(deadline) {
							stopMu.Lock()
							stopped = true
							stopMu.Unlock()
							continue
						}
						if w == nil {
							var err error
							w, err = pool.get()
							if err != nil {
								resCh <- &JobResult{Job: jb, Err: err.Error()}
								w = nil
								continue
							}
						}
						jb.Tag = tag
						if !deadline.IsZero() {
							jb.Deadline = deadline.UnixNano()
						}
						w.n++
						b, _ := json.Marshal(jb)
						w.stdin.Write(b)
						w.stdin.WriteByte('\n')
						w.stdin.Flush()
						if !w.stdout.Scan() {
							resCh <- &JobResult{Job: jb, Err: "worker died"}
							w.closer()
							w = nil
							continue
						}
						var r JobResult
						if err := json.Unmarshal(w.stdout.Bytes(), &r); err != nil {
							resCh <- &JobResult{Job: jb, Err: "bad worker output: " + err.Error()}
							continue
						}
						resCh <- &r
					}
					if w != nil {
						pool.put(w)
					}
				}()
			}
			go func() {
				for _, jb := range jobs {
					jobCh <- jb
				}
				close(jobCh)
				wg.Wait()
				close(resCh)
			}()
			for r := range resCh {
				if r.Err != "" {
					fmt.Fprintf(os.Stderr, "space: job on %v failed: %s\n", r.Job.Path, r.Err)
					st.Exhaustive = false
					st.CapHit = "worker error: " + r.Err
					continue
				}
				handle(r)
			}
		}
		// phase A: enabled events of every frontier state; phase B: one job per (state, event)
		var listJobs []Job
		for _, nd := range frontier {
			listJobs = append(listJobs, Job{Path: nd.path, Choices: nd.choices, ListOnly: true})
		}
		var evJobs []Job
		runJobs(listJobs, func(r *JobResult) {
			st.Executions += r.Executions
			for _, e := range r.Enabled {
				evJobs = append(evJobs, Job{Path: r.Job.Path, Choices: r.Job.Choices, Only: e})
			}
		})
		sort.Slice(evJobs, func(i, j int) bool {
			a, b := strings.Join(evJobs[i].Path, ",")+"/"+evJobs[i].Only, strings.Join(evJobs[j].Path, ",")+"/"+evJobs[j].Only
			return a < b
		})
		var next []node
		runJobs(evJobs, func(r *JobResult) {
			if r.Capped {
				stopMu.Lock()
				stopped = true
				stopMu.Unlock()
			}
			st.Executions += r.Executions
			st.Events += r.Events
			st.Blocked += r.Blocked
			st.Diverged += r.Diverged
			for k, v := range r.Counters {
				st.Counters[k] += v
			}
			for _, v := range r.Violations {
				if !confirmed(v) {
					continue
				}
				addViol(v)
			}
			from, known := pathKey[nodeID(r.Job.Path, r.Job.Choices)]
			if !known && Twin != nil {
				panic("space: expansion of an unregistered node " + nodeID(r.Job.Path, r.Job.Choices))
			}
			for _, s := range r.Succs {
				if Twin != nil {
					if results[from] == nil {
						results[from] = map[string]map[string]bool{}
					}
					if results[from][s.Event] == nil {
						results[from][s.Event] = map[string]bool{}
					}
					results[from][s.Event][s.Result] = true
					if succOf[from] == nil {
						succOf[from] = map[string]map[string]bool{}
					}
					if succOf[from][s.Event] == nil {
						succOf[from][s.Event] = map[string]bool{}
					}
					succOf[from][s.Event][s.Key] = true
					proj[s.Key] = s.Proj
					if _, ok := keyPath[s.Key]; !ok {
						keyPath[s.Key] = node{path: append(append([]string(nil), r.Job.Path...), s.Event), choices: s.Choices}
					}
					if s.Tag == "twin" {
						twins = append(twins, twinEdge{from: from, to: s.Key, path: append([]string(nil), r.Job.Path...), ev: s.Event})
					}
				}
				st.Transitions++
				st.PerKind[evKind(s.Event)]++
				st.Results[evKind(s.Event)+"="+s.Result]++
				if !seen[s.Key] {
					seen[s.Key] = true
					st.States++
					p := append(append([]string(nil), r.Job.Path...), s.Event)
					next = append(next, node{path: p, choices: s.Choices, key: s.Key})
					pathKey[nodeID(p, s.Choices)] = s.Key
					if sampleEvery > 0 && st.States%sampleEvery == 1 {
						addSample(map[string]any{"path": p, "choices": fmt.Sprint(s.Choices), "last_result": s.Result})
					}
				}
			}
		})
		stopMu.Lock()
		if stopped {
			st.Exhaustive = false
			st.CapHit = fmt.Sprintf("deadline during depth %d", depth+1)
		}
		stopMu.Unlock()
		if !st.Exhaustive {
			st.FrontierLeft = len(next)
			st.MaxDepth = depth + 1
			twinCheck(st, addViol, results, succOf, proj, keyPath, twins)
			return st
		}
		st.DepthDone = depth + 1
		st.MaxDepth = depth + 1
		// deterministic order of the next level
		sort.Slice(next, func(i, j int) bool { return strings.Join(next[i].path, ",") < strings.Join(next[j].path, ",") })
		frontier = next
	}
	st.FrontierLeft = len(frontier)
	if st.DepthDone < maxDepth {
		st.FrontierLeft = 0
	}
	twinCheck(st, addViol, results, succOf, proj, keyPath, twins)
	return st
}

// twinCheck runs the differential oracle: for every transition tagged "twin" its two end states are a twin pair;
// twin states must share their projection and answer every compared event with the same result set, and the
// successors of a twin pair under the same (deterministic) event are a twin pair again.
func twinCheck(st *Stats, addViol func(common.Violation), results map[string]map[string]map[string]bool, succOf map[string]map[string]map[string]bool,
	proj map[string]string, keyPath map[string]node, twins []twinEdge) {
	if Twin == nil {
		return
	}
	set := func(m map[string]bool) string {
		var l []string
		for k := range m {
			l = append(l, k)
		}
		sort.Strings(l)
		return strings.Join(l, "|")
	}
	type pair struct {
		a, b   string
		pa, pb []string // event paths reaching the two states
	}
	var work []pair
	for _, tw := range twins {
		work = append(work, pair{tw.from, tw.to, tw.path, append(append([]string(nil), tw.path...), tw.ev)})
	}
	// witness: stored representative path and data choices of the two states (plus the compared event)
	wit := func(p pair, ev string) map[string]any {
		na, nb := keyPath[p.a], keyPath[p.b]
		w := map[string]any{"twin": true, "path": nb.path, "choices": nb.choices, "twin_path": na.path, "twin_choices": na.choices}
		if ev != "" {
			w["path"] = append(append([]string(nil), nb.path...), ev)
			w["twin_path"] = append(append([]string(nil), na.path...), ev)
		}
		return w
	}
	done := map[string]bool{}
	for len(work) > 0 {
		p := work[0]
		work = work[1:]
		if done[p.a+"\x00"+p.b] {
			continue
		}
		done[p.a+"\x00"+p.b] = true
		st.Counters["twin.pairs"]++
		if pa, ok := proj[p.a]; ok {
			if pb, ok := proj[p.b]; ok && pa != pb {
				addViol(common.Violation{Property: Twin.Property, Predicate: Twin.Predicate, Key: Twin.Key + "/state-differs",
					What:    fmt.Sprintf("the histories %v and %v (the same events, with and without the truncation) end in different ledgers: %s versus %s", p.pa, p.pb, pa, pb),
					Witness: wit(p, "")})
				continue
			}
		}
		a, b := results[p.a], results[p.b]
		if a == nil || b == nil {
			continue // one of the two states was not expanded (depth bound)
		}
		var evs []string
		for ev := range a {
			if _, ok := b[ev]; ok && Twin.Compare(ev) {
				evs = append(evs, ev)
			}
		}
		sort.Strings(evs)
		for _, ev := range evs {
			st.Counters["twin.events-compared"]++
			ra, rb := set(a[ev]), set(b[ev])
			if ra != rb {
				addViol(common.Violation{Property: Twin.Property, Predicate: Twin.Predicate, Key: Twin.Key + "/" + evKind(ev) + "/" + ra + "-became-" + rb,
					What:    fmt.Sprintf("after %v, event %s results in {%s}; after %v it results in {%s}", p.pa, ev, ra, p.pb, rb),
					Witness: wit(p, ev)})
				continue
			}
			sa, sb := succOf[p.a][ev], succOf[p.b][ev]
			if len(sa) == 1 && len(sb) == 1 {
				work = append(work, pair{set(sa), set(sb), append(append([]string(nil), p.pa...), ev), append(append([]string(nil), p.pb...), ev)})
			}
		}
	}
}

// FillEvidence stores the standard SPACE coverage keys.
func FillEvidence(rep *common.Report, st *Stats) {
	rep.Set("states", st.States)
	rep.Set("transitions", st.Transitions)
	rep.Set("traces_validated_against_impl", st.Transitions)
	rep.Set("executions", st.Executions)
	rep.Set("events_executed_incl_replay", st.Events)
	rep.Set("max_depth_completed", st.DepthDone)
	rep.Set("frontier_left", st.FrontierLeft)
	rep.Set("exhaustive", st.Exhaustive)
	rep.Set("cap_hit", st.CapHit)
	rep.Set("level_sizes", st.LevelSizes)
	rep.Set("per_event_kind", st.PerKind)
	rep.Set("event_results", st.Results)
	rep.Set("counters", st.Counters)
	rep.Set("incomplete_events", st.Blocked)
	rep.Set("unconfirmed_violations", st.Unconfirmed)
}

type lineFilter struct {
	w   *os.File
	buf []byte
	mu  sync.Mutex
}

func (f *lineFilter) Write(p []byte) (int, error) {
	f.mu.Lock()
	defer f.mu.Unlock()
	f.buf = append(f.buf, p...)
	for {
		i := strings.IndexByte(string(f.buf), '\n')
		if i < 0 {
			break
		}
		line := string(f.buf[:i+1])
		f.buf = f.buf[i+1:]
		if strings.HasPrefix(line, "badger ") {
			continue
		}
		f.w.WriteString(line)
	}
	return len(p), nil
}
