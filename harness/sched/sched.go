// Package sched runs SCHED-style scenarios: stateless depth-first exploration of
// all schedules / data choices of a small multi-task scenario on the real code,
// sharded over worker processes.
package sched

import (
	"bufio"
	"context"
	"crypto/sha256"
	"encoding/hex"
	"encoding/json"
	"fmt"
	"os"
	"os/exec"
	"runtime/pprof"
	"sort"
	"strings"
	"sync"
	"time"

	"verif.local/harness/common"
	"verif.local/vsched"
)

// X is the per-execution context handed to a scenario body.
type X struct {
	Obs    []string           // observations made by the body (op results); part of the outcome digest
	Vars   map[string]any     // scratch shared between body and oracle
	Viol   []common.Violation // violations detected by the body itself
	Param  int                // scenario parameter (e.g. cancel index)
	Param2 int
}

// Obsf appends an observation.
func (x *X) Obsf(format string, a ...any) { x.Obs = append(x.Obs, fmt.Sprintf(format, a...)) }

// Scenario is one closed system to explore.
type Scenario struct {
	Name   string
	Params []int // explored for every parameter value (nil = one run with Param 0)
	Bounds vsched.Bounds
	Opt    vsched.Options
	Setup  func() // run once per worker process before the first execution (outside any execution)
	Body   func(x *X)
	// Oracle inspects the finished execution; it returns violations.
	Oracle func(x *X, r *vsched.Result) []common.Violation
	// Interesting counts executions for non-vacuity (e.g. "walk was really cancelled").
	Interesting func(x *X, r *vsched.Result) bool
}

// Job is the unit of work given to a worker process.
type Job struct {
	Scenario string
	Param    int
	ShardI   int
	ShardN   int
	Preempt  int
	Data     int
	Sched    int
	BudgetS  float64
	Choices  []int // replay mode when non-nil
	Replay   bool
}

// JobResult is what a worker reports.
type JobResult struct {
	Job            Job
	Executions     int
	Points         int64
	Steps          int64
	MaxPoints      int
	Exhaustive     bool
	CapHit         string
	Outcomes       map[string]int
	Interesting    int
	Deadlocks      int
	Leaks          int
	Panics         int
	Violations     []common.Violation
	ViolCount      map[string]int
	Samples        []map[string]any
	Diverged       int
	Err            string
	BoundCompleted int
}

var setupDone = map[string]bool{}

func digest(parts ...string) string {
	h := sha256.New()
	for _, p := range parts {
		h.Write([]byte(p))
		h.Write([]byte{0})
	}
	return hex.EncodeToString(h.Sum(nil)[:8])
}

// BlockedSummary renders the unfinished non-daemon tasks of a result.
func BlockedSummary(r *vsched.Result) string {
	var ps []string
	for _, b := range r.Blocked {
		if b.Class == vsched.Daemon {
			continue
		}
		ps = append(ps, fmt.Sprintf("%s[%s %s %s]", b.Class, b.Op, b.Obj, firstFrame(b.Where)))
	}
	sort.Strings(ps)
	return strings.Join(ps, ";")
}

func firstFrame(w string) string {
	if i := strings.Index(w, " < "); i >= 0 {
		return w[:i]
	}
	return w
}

// RunJob executes one job in this process.
func RunJob(sc *Scenario, job Job) *JobResult {
	res := &JobResult{Job: job, Outcomes: map[string]int{}, ViolCount: map[string]int{}}
	seenV := map[string]bool{}
	var cur *X
	body := func() {
		cur = &X{Vars: map[string]any{}, Param: job.Param}
		sc.Body(cur)
	}
	opt := sc.Opt
	if sc.Setup != nil && !setupDone[sc.Name] {
		sc.Setup()
		setupDone[sc.Name] = true
	}
	check := func(r *vsched.Result) bool {
		x := cur
		if r.Diverged != "" {
			res.Diverged++
		}
		dl := !r.RootDone
		if dl {
			res.Deadlocks++
		}
		leak := false
		for _, b := range r.Blocked {
			if b.Class == vsched.Child && r.RootDone {
				leak = true
			}
		}
		if leak {
			res.Leaks++
		}
		if len(r.Panics) > 0 {
			res.Panics++
		}
		od := digest(strings.Join(x.Obs, "|"), BlockedSummary(r), fmt.Sprint(len(r.Panics)))
		res.Outcomes[od]++
		if os.Getenv("VERIF_DEBUG_OUTCOMES") != "" && res.Outcomes[od] == 1 {
			fmt.Fprintf(os.Stderr, "outcome %s: %v choices=%v\n", od, x.Obs, r.Choices)
		}
		if sc.Interesting != nil && sc.Interesting(x, r) {
			res.Interesting++
		}
		vs := append([]common.Violation(nil), x.Viol...)
		if sc.Oracle != nil {
			vs = append(vs, sc.Oracle(x, r)...)
		}
		for _, v := range vs {
			res.ViolCount[v.Key]++
			if !seenV[v.Key] {
				seenV[v.Key] = true
				v.Scenario = fmt.Sprintf("%s/param=%d", sc.Name, job.Param)
				v.Witness = map[string]any{"scenario": sc.Name, "param": job.Param, "choices": append([]int(nil), r.Choices...),
					"observations": x.Obs, "blocked": r.Blocked, "panics": r.Panics, "detail": v.Witness}
				res.Violations = append(res.Violations, v)
			}
		}
		if len(res.Samples) < 2 {
			res.Samples = append(res.Samples, map[string]any{"scenario": sc.Name, "param": job.Param,
				"choices": fmt.Sprint(r.Choices), "observations": x.Obs, "blocked": BlockedSummary(r)})
		}
		return true
	}
	if job.Replay {
		opt.Choices = job.Choices
		opt.Trace = true
		r := vsched.Run(opt, body)
		check(r)
		res.Executions = 1
		res.Samples = append(res.Samples, map[string]any{"trace": r.Trace})
		return res
	}
	// iterative deviation bounding: explore everything with 1 schedule deviation, then 2, ... up to the job's bound,
	// so that when the time cap is hit the smaller bounds have been completed and the first counterexample is minimal
	var deadline time.Time
	if job.BudgetS > 0 {
		deadline = time.Now().Add(time.Duration(job.BudgetS * float64(time.Second)))
	}
	lo := job.Sched
	if job.Sched > 1 {
		lo = 1
	}
	res.Exhaustive = true
	for b := lo; ; b++ {
		pre := job.Preempt
		if job.Sched > 0 && pre > b {
			pre = b
		}
		ex := &vsched.Explorer{Opt: opt, Bounds: vsched.Bounds{Preempt: pre, Data: job.Data, Sched: b}, ShardI: job.ShardI, ShardN: job.ShardN, Check: check, Deadline: deadline}
		ex.Run(body)
		st := ex.Stats
		res.Executions += st.Executions
		res.Points += st.Points
		res.Steps += st.Steps
		if st.MaxPoints > res.MaxPoints {
			res.MaxPoints = st.MaxPoints
		}
		if !st.Exhaustive {
			res.Exhaustive, res.CapHit = false, fmt.Sprintf("%s while exploring schedule-deviation bound %d (bound %d completed)", st.CapHit, b, b-1)
			break
		}
		res.BoundCompleted = b
		if b >= job.Sched || job.Sched <= 0 {
			break
		}
	}
	return res
}

// WorkerMain runs jobs read as JSON lines from stdin and writes JSON results to stdout.
func WorkerMain(scenarios map[string]*Scenario) {
	in := bufio.NewScanner(os.Stdin)
	in.Buffer(make([]byte, 1<<20), 1<<26)
	out := bufio.NewWriter(os.Stdout)
	defer out.Flush()
	for in.Scan() {
		var job Job
		if err := json.Unmarshal(in.Bytes(), &job); err != nil {
			continue
		}
		sc := scenarios[job.Scenario]
		var res *JobResult
		if sc == nil {
			res = &JobResult{Job: job, Err: "unknown scenario " + job.Scenario}
		} else {
			res = RunJob(sc, job)
		}
		if pf := os.Getenv("VERIF_HEAPPROF"); pf != "" {
			if f, err := os.Create(pf); err == nil {
				pprof.Lookup("heap").WriteTo(f, 0)
				f.Close()
			}
		}
		b, _ := json.Marshal(res)
		out.Write(b)
		out.WriteByte('\n')
		out.Flush()
	}
}

// Totals aggregates job results.
type Totals struct {
	Executions, Deadlocks, Leaks, Panics, Interesting, Diverged int
	Points, Steps                                               int64
	Outcomes                                                    map[string]int
	Exhaustive                                                  bool
	Caps                                                        []string
	PerScenario                                                 map[string]map[string]any
}

// RunAll distributes jobs over worker subprocesses (re-executions of this binary
// with `workerArgs`) and merges the results into the report.
func RunAll(rep *common.Report, jobs []Job, workerArgs []string, procs int) *Totals {
	tot := &Totals{Outcomes: map[string]int{}, Exhaustive: true, PerScenario: map[string]map[string]any{}}
	if procs < 1 {
		procs = 1
	}
	if procs > len(jobs) {
		procs = len(jobs)
	}
	jobCh := make(chan Job)
	resCh := make(chan *JobResult)
	var wg sync.WaitGroup
	self, _ := os.Executable()
	for i := 0; i < procs; i++ {
		wg.Add(1)
		go func() {
			defer wg.Done()
			var cmd *exec.Cmd
			var stdin *bufio.Writer
			var stdout *bufio.Scanner
			var closer func()
			start := func() error {
				cmd = exec.CommandContext(context.Background(), self, workerArgs...)
				cmd.Stderr = &lineFilter{w: os.Stderr}
				cmd.Env = append(os.Environ(), "GOMAXPROCS=1")
				ip, err := cmd.StdinPipe()
				if err != nil {
					return err
				}
				op, err := cmd.StdoutPipe()
				if err != nil {
					return err
				}
				if err := cmd.Start(); err != nil {
					return err
				}
				stdin = bufio.NewWriter(ip)
				stdout = bufio.NewScanner(op)
				stdout.Buffer(make([]byte, 1<<20), 1<<28)
				closer = func() { ip.Close(); cmd.Wait() }
				return nil
			}
			n := 0
			for job := range jobCh {
				if cmd == nil || n >= 40 {
					if closer != nil {
						closer()
					}
					if err := start(); err != nil {
						resCh <- &JobResult{Job: job, Err: err.Error()}
						cmd = nil
						continue
					}
					n = 0
				}
				n++
				b, _ := json.Marshal(job)
				stdin.Write(b)
				stdin.WriteByte('\n')
				stdin.Flush()
				if !stdout.Scan() {
					resCh <- &JobResult{Job: job, Err: "worker died"}
					closer()
					closer = nil
					cmd = nil
					continue
				}
				var r JobResult
				if err := json.Unmarshal(stdout.Bytes(), &r); err != nil {
					resCh <- &JobResult{Job: job, Err: "bad worker output: " + err.Error()}
					continue
				}
				resCh <- &r
			}
			if closer != nil {
				closer()
			}
		}()
	}
	go func() {
		for _, j := range jobs {
			jobCh <- j
		}
		close(jobCh)
		wg.Wait()
		close(resCh)
	}()
	// a violation is reported only if its recorded schedule reproduces it on a fresh worker process (decided once
	// per key); one that does not is the trace of nondeterminism the harness does not own, never an alarm
	verdictOf := map[string]bool{}
	var unconfirmed []string
	confirm := func(v common.Violation) bool {
		if ok, done := verdictOf[v.Key]; done {
			return ok
		}
		ok := true
		w, isMap := v.Witness.(map[string]any)
		if isMap && w["scenario"] != nil {
			var choices []int
			cb, _ := json.Marshal(w["choices"])
			json.Unmarshal(cb, &choices)
			param := 0
			if f, isF := w["param"].(float64); isF {
				param = int(f)
			}
			cmd := exec.Command(self, workerArgs...)
			cmd.Stderr = &lineFilter{w: os.Stderr}
			cmd.Env = append(os.Environ(), "GOMAXPROCS=1")
			ip, e1 := cmd.StdinPipe()
			op, e2 := cmd.StdoutPipe()
			if e1 == nil && e2 == nil && cmd.Start() == nil {
				jb := Job{Scenario: fmt.Sprint(w["scenario"]), Param: param, Choices: choices, Replay: true}
				b, _ := json.Marshal(jb)
				ip.Write(append(b, '\n'))
				sc := bufio.NewScanner(op)
				sc.Buffer(make([]byte, 1<<20), 1<<28)
				if sc.Scan() {
					var rr JobResult
					if json.Unmarshal(sc.Bytes(), &rr) == nil && rr.Err == "" {
						ok = false
						for _, rv := range rr.Violations {
							if rv.Key == v.Key {
								ok = true
							}
						}
					}
				}
				ip.Close()
				cmd.Wait()
			}
		}
		verdictOf[v.Key] = ok
		if !ok {
			unconfirmed = append(unconfirmed, v.Key)
			fmt.Fprintf(os.Stderr, "sched: violation %s did not reproduce on a fresh worker: not reported; recorded as unconfirmed\n", v.Key)
		}
		return ok
	}
	defer func() { rep.Set("unconfirmed_violations", unconfirmed) }()
	for r := range resCh {
		if r.Err != "" {
			fmt.Fprintf(os.Stderr, "job %+v failed: %s\n", r.Job, r.Err)
			tot.Exhaustive = false
			tot.Caps = append(tot.Caps, "worker error: "+r.Err)
			continue
		}
		tot.Executions += r.Executions
		tot.Points += r.Points
		tot.Steps += r.Steps
		tot.Deadlocks += r.Deadlocks
		tot.Leaks += r.Leaks
		tot.Panics += r.Panics
		tot.Interesting += r.Interesting
		tot.Diverged += r.Diverged
		for k, v := range r.Outcomes {
			tot.Outcomes[r.Job.Scenario+":"+k] += v
		}
		if !r.Exhaustive {
			tot.Exhaustive = false
			tot.Caps = append(tot.Caps, fmt.Sprintf("%s/param=%d shard %d/%d: %s", r.Job.Scenario, r.Job.Param, r.Job.ShardI, r.Job.ShardN, r.CapHit))
		}
		ps := tot.PerScenario[r.Job.Scenario]
		if ps == nil {
			ps = map[string]any{"executions": 0, "interesting": 0, "outcomes": map[string]bool{}}
			tot.PerScenario[r.Job.Scenario] = ps
		}
		ps["executions"] = ps["executions"].(int) + r.Executions
		ps["interesting"] = ps["interesting"].(int) + r.Interesting
		for k := range r.Outcomes {
			ps["outcomes"].(map[string]bool)[k] = true
		}
		for _, v := range r.Violations {
			if !confirm(v) {
				continue
			}
			for i := 0; i < r.ViolCount[v.Key]; i++ {
				rep.Add(v)
			}
		}
		for _, s := range r.Samples {
			if r.Job.ShardI == 0 {
				rep.Sample(s)
			}
		}
	}
	for _, ps := range tot.PerScenario {
		ps["distinct_outcomes"] = len(ps["outcomes"].(map[string]bool))
		delete(ps, "outcomes")
	}
	return tot
}

// lineFilter drops badger's informational log lines from worker stderr.
type lineFilter struct {
	w   *os.File
	buf []byte
	mu  sync.Mutex
}

func (f *lineFilter) Write(p []byte) (int, error) {
	f.mu.Lock()
	defer f.mu.Unlock()
	f.buf = append(f.buf, p...)
	for {
		i := strings.IndexByte(string(f.buf), '\n')
		if i < 0 {
			break
		}
		line := string(f.buf[:i+1])
		f.buf = f.buf[i+1:]
		if strings.HasPrefix(line, "badger ") {
			continue
		}
		f.w.WriteString(line)
	}
	return len(p), nil
}

// ReplayFile re-executes the schedule stored in a violation artefact twice on the current tree,
// checks that both runs agree, and reports whether the violation reproduces (exit code semantics of a check).
func ReplayFile(property string, scenarios map[string]*Scenario, path string) int {
	b, err := os.ReadFile(path)
	if err != nil {
		fmt.Fprintln(os.Stderr, err)
		return 2
	}
	var v struct {
		Key     string
		Witness struct {
			Scenario string `json:"scenario"`
			Param    int    `json:"param"`
			Choices  []int  `json:"choices"`
		}
	}
	if err := json.Unmarshal(b, &v); err != nil {
		fmt.Fprintln(os.Stderr, err)
		return 2
	}
	sc := scenarios[v.Witness.Scenario]
	if sc == nil {
		fmt.Fprintln(os.Stderr, "unknown scenario", v.Witness.Scenario)
		return 2
	}
	var digests []string
	found := false
	for k := 0; k < 2; k++ {
		r := RunJob(sc, Job{Scenario: sc.Name, Param: v.Witness.Param, Choices: v.Witness.Choices, Replay: true})
		var ds []string
		for d := range r.Outcomes {
			ds = append(ds, d)
		}
		sort.Strings(ds)
		digests = append(digests, strings.Join(ds, ","))
		if r.Diverged > 0 {
			fmt.Println("replay diverged: the recorded schedule does not fit the current tree")
			return 0
		}
		for _, vv := range r.Violations {
			fmt.Printf("replay %d: %s: %s\n", k, vv.Key, vv.What)
			if vv.Key == v.Key {
				found = true
			}
		}
		if k == 0 && len(r.Samples) > 0 {
			if tr, ok := r.Samples[len(r.Samples)-1]["trace"]; ok {
				fmt.Printf("schedule: %v\n", tr)
			}
		}
	}
	if digests[0] != digests[1] {
		fmt.Println("replay is not deterministic (nondeterminism not owned)")
		return 2
	}
	if found {
		fmt.Printf("VIOLATION property=%s replay=%s\n", property, path)
		return 1
	}
	fmt.Println("violation did not reproduce on the current tree")
	return 0
}

// SpreadBudget sets every job's time budget so that all jobs together fit the tier's wall-clock allowance
// (total seconds) when run on procs workers; no job gets less than min seconds.
func SpreadBudget(jobs []Job, totalS float64, procs int, minS float64) {
	if len(jobs) == 0 {
		return
	}
	rounds := float64((len(jobs) + procs - 1) / procs)
	b := totalS / rounds
	if b < minS {
		b = minS
	}
	for i := range jobs {
		jobs[i].BudgetS = b
	}
}
