// Package world builds small closed systems of real Computantis nodes for the
// explorers: a fixed seeded cast of wallets, deterministic pre-signed
// transactions, reusable AccountingBook instances, a reference ledger and
// canonical (hash-independent) state names.
package world

import (
	"context"
	"crypto/ed25519"
	"crypto/sha256"
	"encoding/hex"
	"fmt"
	"github.com/bartossh/Computantis/src/protobufcompiled"
	"github.com/bartossh/Computantis/src/transformers"
	"math/big"
	"reflect"
	"sort"
	"strconv"
	"strings"
	"sync"
	"time"

	"github.com/bartossh/Computantis/src/accountant"
	"github.com/bartossh/Computantis/src/serializer"
	"github.com/bartossh/Computantis/src/spice"
	"github.com/bartossh/Computantis/src/transaction"
	"github.com/bartossh/Computantis/src/wallet"
	"verif.local/vsched"
)

// Actor is a member of the cast.
type Actor struct {
	Name string
	W    wallet.Wallet
	Addr string
}

// Sign implements accountant.Signer / transaction.Signer.
func (a *Actor) Sign(m []byte) ([32]byte, []byte) { return a.W.Sign(m) }

// Address implements accountant.Signer.
func (a *Actor) Address() string { return a.Addr }

var (
	castMu sync.Mutex
	cast   = map[string]*Actor{}
	byAddr = map[string]*Actor{}
)

// Cast returns the deterministic actor with the given name.
func Cast(name string) *Actor {
	castMu.Lock()
	defer castMu.Unlock()
	if a, ok := cast[name]; ok {
		return a
	}
	seed := sha256.Sum256([]byte("verif-cast-" + name))
	priv := ed25519.NewKeyFromSeed(seed[:])
	w := wallet.Wallet{Private: priv, Public: priv.Public().(ed25519.PublicKey)}
	a := &Actor{Name: name, W: w, Addr: w.Address()}
	cast[name] = a
	byAddr[a.Addr] = a
	return a
}

// Alias returns an actor with the SAME key pair as name under another address string. The address format is
// base58(version | public key | checksum(version | public key)); kind selects how the string differs:
// "vK" another version byte K (checksum recomputed), "c1" the last checksum byte altered, "t1" one byte appended
// after the checksum. Only the genuine address is valid; the aliases probe rules that compare address strings.
func Alias(name string, kind string) *Actor {
	base := Cast(name)
	aname := name + "~" + kind
	castMu.Lock()
	defer castMu.Unlock()
	if a, ok := cast[aname]; ok {
		return a
	}
	build := func(version byte) []byte {
		payload := append([]byte{version}, base.W.Public...)
		h1 := sha256.Sum256(payload)
		h2 := sha256.Sum256(h1[:])
		return append(payload, h2[:4]...)
	}
	var full []byte
	switch {
	case kind == "c1":
		full = build(0)
		full[len(full)-1] ^= 0x01
	case kind == "t1":
		full = append(build(0), 0x00)
	case strings.HasPrefix(kind, "v"):
		k, _ := strconv.Atoi(kind[1:])
		full = build(byte(k))
	default:
		panic("world: alias kind " + kind)
	}
	a := &Actor{Name: aname, W: base.W, Addr: string(serializer.Base58Encode(full))}
	cast[aname] = a
	byAddr[a.Addr] = a
	return a
}

// KeyOf extracts the public-key bytes from an address string (no checksum verification); "" if undecodable.
func KeyOf(addr string) string {
	b, err := serializer.Base58Decode([]byte(addr))
	if err != nil || len(b) < 6 {
		return ""
	}
	if len(b) >= 37 {
		return string(b[1:33]) // version | 32-byte key | checksum [| trailing bytes]
	}
	return string(b[1 : len(b)-4])
}

// AddrName maps an address back to a cast name.
func AddrName(addr string) string {
	castMu.Lock()
	defer castMu.Unlock()
	if a, ok := byAddr[addr]; ok {
		return a.Name
	}
	if addr == "" {
		return "<empty>"
	}
	if len(addr) > 8 {
		return "addr:" + addr[:8]
	}
	return "addr:" + addr
}

// BaseTime is the fixed creation time of pre-signed transactions (just before the logical clock's origin).
var BaseTime = time.Unix(0, 1_700_000_000_000_000_000-3_600_000_000_000)

// MakeTx builds and signs a transaction deterministically (no clock, no randomness).
func MakeTx(from *Actor, to string, subject string, data []byte, amount spice.Melange, seq int) transaction.Transaction {
	t := transaction.Transaction{
		CreatedAt:         BaseTime.Add(time.Duration(seq) * time.Millisecond),
		IssuerAddress:     from.Addr,
		ReceiverAddress:   to,
		Subject:           subject,
		Data:              data,
		ReceiverSignature: []byte{},
		Spice:             amount,
	}
	t.Hash, t.IssuerSignature = from.Sign(t.GetMessage())
	return t
}

// CounterSign adds the receiver's signature (deterministically).
func CounterSign(t transaction.Transaction, receiver *Actor) transaction.Transaction {
	_, sig := receiver.Sign(t.GetMessage())
	t.ReceiverSignature = sig
	return t
}

// MemoVerifier memoises the (pure) signature verification.
type MemoVerifier struct {
	inner wallet.Helper
	mu    sync.Mutex
	memo  map[[32]byte]error
	Calls int
	Hits  int
}

// NewVerifier returns a memoising verifier around the real wallet.Helper.
func NewVerifier() *MemoVerifier {
	return &MemoVerifier{inner: wallet.NewVerifier(), memo: map[[32]byte]error{}}
}

// Verify implements the verifier interfaces of the repository.
func (m *MemoVerifier) Verify(message, signature []byte, hash [32]byte, address string) error {
	h := sha256.New()
	var l [8]byte
	for _, p := range [][]byte{message, signature, hash[:], []byte(address)} {
		l[0], l[1], l[2], l[3] = byte(len(p)), byte(len(p)>>8), byte(len(p)>>16), byte(len(p)>>24)
		h.Write(l[:4])
		h.Write(p)
	}
	var k [32]byte
	h.Sum(k[:0])
	m.mu.Lock()
	m.Calls++
	if e, ok := m.memo[k]; ok {
		m.Hits++
		m.mu.Unlock()
		return e
	}
	m.mu.Unlock()
	e := m.inner.Verify(message, signature, hash, address)
	m.mu.Lock()
	if len(m.memo) > 200_000 {
		m.memo = map[[32]byte]error{}
	}
	m.memo[k] = e
	m.mu.Unlock()
	return e
}

// RecLogger records what the node logs.
type RecLogger struct {
	mu     sync.Mutex
	Fatals []string
	Errors []string
	Keep   bool
}

func (l *RecLogger) Debug(string) {}
func (l *RecLogger) Info(string)  {}
func (l *RecLogger) Warn(string)  {}
func (l *RecLogger) Error(m string) {
	if l.Keep {
		l.mu.Lock()
		if len(l.Errors) < 50 {
			l.Errors = append(l.Errors, m)
		}
		l.mu.Unlock()
	}
}
func (l *RecLogger) Fatal(m string) {
	l.mu.Lock()
	l.Fatals = append(l.Fatals, m)
	l.mu.Unlock()
}

// ResetLog clears the recorded messages.
func (l *RecLogger) ResetLog() {
	l.mu.Lock()
	l.Fatals, l.Errors = nil, nil
	l.mu.Unlock()
}

// Node is one real accounting book with its wallet.
type Node struct {
	Name  string
	Actor *Actor
	Book  *accountant.AccountingBook
	Log   *RecLogger
	Ver   *MemoVerifier
	// RetryTicker is the orphan buffer's ticker of this node in the running execution (set by Reset).
	RetryTicker *vsched.Ticker
}

// SharedVerifier is used by all nodes of a process.
var SharedVerifier = NewVerifier()

// NewNode constructs a node. It must run inside a controlled execution (Boot)
// so that the constructor's goroutines are controlled tasks.
func NewNode(name string) (*Node, error) {
	a := Cast(name)
	lg := &RecLogger{}
	ab, err := accountant.NewAccountingBook(context.Background(), accountant.Config{}, SharedVerifier, a, lg)
	if err != nil {
		return nil, err
	}
	return &Node{Name: name, Actor: a, Book: ab, Log: lg, Ver: SharedVerifier}, nil
}

// Boot creates the named nodes inside a throw-away controlled execution.
func Boot(names ...string) ([]*Node, error) {
	var nodes []*Node
	var err error
	vsched.Run(vsched.Options{}, func() {
		old := vsched.SpawnClass(vsched.Daemon)
		defer vsched.SpawnClass(old)
		for _, n := range names {
			var nd *Node
			nd, err = NewNode(n)
			if err != nil {
				return
			}
			nodes = append(nodes, nd)
		}
	})
	return nodes, err
}

// Reset returns the node to the freshly constructed state; its background loops
// are started as daemon tasks of the running execution.
func (n *Node) Reset(ctx context.Context, truncateAt uint64) {
	old := vsched.SpawnClass(vsched.Daemon)
	defer vsched.SpawnClass(old)
	n.Log.ResetLog()
	before := len(vsched.Tickers())
	if err := n.Book.VerifReset(ctx, truncateAt); err != nil {
		panic("world: reset failed: " + err.Error())
	}
	// let the node's background loops start, so that the retry ticker they create can be told apart from other
	// nodes' (the order in which daemons of different nodes first run depends on the default schedule)
	vsched.Settle()
	n.RetryTicker = nil
	for _, tk := range vsched.Tickers()[before:] {
		if tk.D.Seconds() == 2 {
			if n.RetryTicker != nil {
				panic("world: node " + n.Name + " created two retry tickers")
			}
			n.RetryTicker = tk
		}
	}
	if n.RetryTicker == nil && vsched.Active() {
		panic("world: node " + n.Name + " created no retry ticker")
	}
}

// Genesis creates the genesis vertex on this node paying `supply` to receiver.
func (n *Node) Genesis(receiver *Actor, supply spice.Melange) (accountant.Vertex, error) {
	return n.Book.CreateGenesis("genesis", supply, []byte{}, receiver.Addr)
}

// ---- amounts ----

var e18 = new(big.Int).SetUint64(spice.MaxAmountPerSupplementaryCurrency)

// Big converts a Melange to cur*10^18+supp.
func Big(m spice.Melange) *big.Int {
	x := new(big.Int).SetUint64(m.Currency)
	x.Mul(x, e18)
	return x.Add(x, new(big.Int).SetUint64(m.SupplementaryCurrency))
}

// ---- reference ledger ----

// RefVertex is the harness's own record of a vertex.
type RefVertex struct {
	V       accountant.Vertex
	Name    string
	TxLabel string
}

// Ref is the append-only reference ledger of a world.
type Ref struct {
	ByHash   map[[32]byte]*RefVertex
	TxLabels map[[32]byte]string
	order    [][32]byte
}

// NewRef creates an empty reference ledger.
func NewRef() *Ref {
	return &Ref{ByHash: map[[32]byte]*RefVertex{}, TxLabels: map[[32]byte]string{}}
}

// LabelTx registers a human label for a transaction hash.
func (r *Ref) LabelTx(label string, t transaction.Transaction) { r.TxLabels[t.Hash] = label }

func short(h [32]byte) string { return hex.EncodeToString(h[:4]) }

// Learn records a vertex (idempotent) and returns its record with canonical name.
func (r *Ref) Learn(v accountant.Vertex) *RefVertex {
	if rv, ok := r.ByHash[v.Hash]; ok {
		return rv
	}
	lbl, ok := r.TxLabels[v.Transaction.Hash]
	if !ok {
		lbl = "tx:" + short(v.Transaction.Hash)
	}
	var ps []string
	for _, p := range [][32]byte{v.LeftParentHash, v.RightParentHash} {
		if p == ([32]byte{}) {
			continue
		}
		if pv, ok := r.ByHash[p]; ok {
			ps = append(ps, pv.Name)
		} else {
			ps = append(ps, "?"+short(p))
		}
	}
	sort.Strings(ps)
	if len(ps) == 2 && ps[0] == ps[1] {
		ps = ps[:1]
	}
	name := fmt.Sprintf("%s@%s", lbl, AddrName(v.SignerPublicAddress))
	if len(ps) > 0 {
		name += "(" + strings.Join(ps, ",") + ")"
	}
	rv := &RefVertex{V: v, Name: name, TxLabel: lbl}
	r.ByHash[v.Hash] = rv
	r.order = append(r.order, v.Hash)
	return rv
}

// Name returns the canonical name of a vertex hash (or a hash-based placeholder).
func (r *Ref) Name(h [32]byte) string {
	if rv, ok := r.ByHash[h]; ok {
		return rv.Name
	}
	if h == ([32]byte{}) {
		return "0"
	}
	return "?" + short(h)
}

// Ancestors returns the set of proper ancestors of h following declared parents within the reference ledger.
func (r *Ref) Ancestors(h [32]byte) map[[32]byte]bool {
	out := map[[32]byte]bool{}
	var stack [][32]byte
	push := func(p [32]byte) {
		if p != ([32]byte{}) && !out[p] {
			if _, ok := r.ByHash[p]; ok {
				out[p] = true
				stack = append(stack, p)
			}
		}
	}
	if rv, ok := r.ByHash[h]; ok {
		push(rv.V.LeftParentHash)
		push(rv.V.RightParentHash)
	}
	for len(stack) > 0 {
		x := stack[len(stack)-1]
		stack = stack[:len(stack)-1]
		rv := r.ByHash[x]
		push(rv.V.LeftParentHash)
		push(rv.V.RightParentHash)
	}
	return out
}

// Flow sums inflow and outflow of addr over the given vertex set (spice transfers only).
func (r *Ref) Flow(addr string, set map[[32]byte]bool) (in, out *big.Int) {
	in, out = new(big.Int), new(big.Int)
	for h := range set {
		rv, ok := r.ByHash[h]
		if !ok {
			continue
		}
		t := rv.V.Transaction
		if !IsTransfer(t) {
			continue
		}
		if t.IssuerAddress == addr {
			out.Add(out, Big(t.Spice))
		}
		if t.ReceiverAddress == addr {
			in.Add(in, Big(t.Spice))
		}
	}
	return
}

// KeyFunc orders map keys of the code under test canonically: vertices by reference name.
func (r *Ref) KeyFunc(k any) (string, bool) {
	switch x := k.(type) {
	case *accountant.Vertex:
		if x == nil {
			return "", true
		}
		return r.Name(x.Hash) + "|" + hex.EncodeToString(x.Hash[:]), true
	case string:
		if len(x) == 32 {
			var h [32]byte
			copy(h[:], x)
			if rv, ok := r.ByHash[h]; ok {
				return rv.Name + "|" + hex.EncodeToString(h[:]), true
			}
		}
		return x, true
	}
	return "", false
}

// TrxToProto calls transformers.TrxToProtoTrx whether it takes the transaction by value or by pointer (looked up by
// reflection, so that the harness still builds after a refactoring of that signature).
func TrxToProto(t transaction.Transaction) (*protobufcompiled.Transaction, error) {
	f := reflect.ValueOf(transformers.TrxToProtoTrx)
	var arg reflect.Value
	if f.Type().NumIn() == 1 && f.Type().In(0).Kind() == reflect.Ptr {
		arg = reflect.ValueOf(&t)
	} else {
		arg = reflect.ValueOf(t)
	}
	out := f.Call([]reflect.Value{arg})
	var err error
	if len(out) > 1 && !out[1].IsNil() {
		err = out[1].Interface().(error)
	}
	pt, _ := out[0].Interface().(*protobufcompiled.Transaction)
	return pt, err
}

// IsTransfer is the harness's own reading of "the transaction moves spice" (the oracles must not borrow the
// predicates of the code they judge).
func IsTransfer(t transaction.Transaction) bool {
	return t.Spice.Currency != 0 || t.Spice.SupplementaryCurrency != 0
}

// IsEmptyTx is the harness's own reading of "neither data nor spice".
func IsEmptyTx(t transaction.Transaction) bool { return len(t.Data) == 0 && !IsTransfer(t) }
