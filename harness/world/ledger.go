package world

import (
	"context"
	"errors"
	"fmt"
	"strings"

	"github.com/bartossh/Computantis/src/accountant"
	"github.com/bartossh/Computantis/src/spice"
	"github.com/bartossh/Computantis/src/transaction"
	"verif.local/vsched"
)

// LW is a ledger world: a few real accounting books and the reference ledger.
type LW struct {
	Nodes   []*Node
	Ref     *Ref
	Ctx     context.Context
	Genesis accountant.Vertex
	Supply  spice.Melange
	seq     int
}

var procNodes = map[string]*Node{}

// GetNodes returns (booting on first use) the process-wide node instances.
func GetNodes(names ...string) []*Node {
	var missing []string
	for _, n := range names {
		if procNodes[n] == nil {
			missing = append(missing, n)
		}
	}
	if len(missing) > 0 {
		nodes, err := Boot(missing...)
		if err != nil {
			panic("world: boot failed: " + err.Error())
		}
		for _, nd := range nodes {
			procNodes[nd.Name] = nd
		}
	}
	out := make([]*Node, len(names))
	for i, n := range names {
		out[i] = procNodes[n]
	}
	return out
}

// CurRef is the reference ledger of the running execution (used by the map-order key function).
var CurRef *Ref

// KeyFunc is the map-order key function to put into vsched.Options.
func KeyFunc(k any) (string, bool) {
	if CurRef == nil {
		return "", false
	}
	return CurRef.KeyFunc(k)
}

// NewLW resets the given nodes and creates genesis on the first one (paying supply to R);
// the other nodes load the genesis vertex through LoadDag.
func NewLW(nodes []*Node, supply spice.Melange, truncateAt uint64) *LW {
	w := &LW{Nodes: nodes, Ref: NewRef(), Ctx: context.Background(), Supply: supply}
	CurRef = w.Ref
	for _, n := range nodes {
		n.Reset(w.Ctx, truncateAt)
	}
	g, err := nodes[0].Genesis(Cast("R"), supply)
	if err != nil {
		panic("world: genesis: " + err.Error())
	}
	w.Ref.TxLabels[g.Transaction.Hash] = "gen"
	w.Ref.Learn(g)
	w.Genesis = g
	for _, n := range nodes[1:] {
		if err := w.Load(n, []accountant.Vertex{g}); err != nil {
			panic("world: load genesis: " + err.Error())
		}
	}
	return w
}

// Load feeds vertices to n.LoadDag and reports the cancel cause (nil = loaded).
func (w *LW) Load(n *Node, vs []accountant.Vertex) error {
	ch := vsched.MakeChan[*accountant.Vertex](len(vs) + 1)
	for i := range vs {
		v := vs[i]
		vsched.Send(ch, &v)
	}
	vsched.Close(ch)
	var cause error
	n.Book.LoadDag(func(e error) {
		if cause == nil {
			cause = e
		}
	}, ch)
	return cause
}

// Tx builds a deterministic spice transfer.
func (w *LW) Tx(label string, from *Actor, to *Actor, cur, supp uint64) transaction.Transaction {
	w.seq++
	t := MakeTx(from, to.Addr, label, nil, spice.Melange{Currency: cur, SupplementaryCurrency: supp}, hashSeq(label))
	w.Ref.LabelTx(label, t)
	return t
}

// Contract builds a deterministic data-only transaction.
func (w *LW) Contract(label string, from *Actor, to *Actor, data []byte) transaction.Transaction {
	t := MakeTx(from, to.Addr, label, data, spice.Melange{}, hashSeq(label))
	w.Ref.LabelTx(label, t)
	return t
}

func hashSeq(label string) int {
	n := 0
	for _, c := range label {
		n = n*131 + int(c)
	}
	if n < 0 {
		n = -n
	}
	return n % 1_000_000
}

// Propose calls CreateLeaf on node i and learns the resulting vertex.
func (w *LW) Propose(ctx context.Context, i int, t transaction.Transaction) (accountant.Vertex, error) {
	v, err := w.Nodes[i].Book.CreateLeaf(ctx, &t)
	if err == nil {
		w.Ref.Learn(v)
	}
	return v, err
}

// Deliver calls AddLeaf on node i with a copy of v.
func (w *LW) Deliver(ctx context.Context, i int, v accountant.Vertex) error {
	w.Ref.Learn(v)
	c := v
	return w.Nodes[i].Book.AddLeaf(ctx, &c)
}

// Craft seals a vertex with an arbitrary sealer and parents (correctly signed).
func (w *LW) Craft(sealer *Actor, t transaction.Transaction, left, right [32]byte, weight uint64) accountant.Vertex {
	v, err := accountant.NewVertex(t, left, right, weight, sealer)
	if err != nil {
		panic(err)
	}
	w.Ref.Learn(v)
	return v
}

// ErrClass maps an error to a short stable class name.
func ErrClass(err error) string {
	if err == nil {
		return "ok"
	}
	if strings.Contains(err.Error(), "receiver cannot be the genesis node") {
		return "genesis-receiver"
	}
	if strings.Contains(err.Error(), "spice is not canonical") {
		return "noncanonical-spice"
	}
	for _, c := range []struct {
		e error
		n string
	}{
		{accountant.ErrParentDoesNotExists, "parent-missing"},
		{accountant.ErrLeafAlreadyExists, "leaf-exists"},
		{accountant.ErrTrxInVertexAlreadyExists, "trx-exists"},
		{accountant.ErrVertexAlreadyExists, "vertex-exists"},
		{accountant.ErrCannotTransferFoundsViaOwnedNode, "own-node"},
		{accountant.ErrCannotTransferFoundsFromGenesisWallet, "genesis-issuer"},
		{accountant.ErrTrxIsEmpty, "empty-trx"},
		{accountant.ErrDagIsNotLoaded, "not-loaded"},
		{accountant.ErrDagIsLoaded, "already-loaded"},
		{accountant.ErrLeafValidationProcessStopped, "stopped"},
		{accountant.ErrLeafBallanceCalculationProcessStopped, "stopped"},
		{accountant.ErrDoubleSpending, "insufficient"},
		{accountant.ErrTransferringFoundsFailure, "transfer-failure"},
		{accountant.ErrLeafRejected, "leaf-rejected"},
		{accountant.ErrNewLeafRejected, "new-leaf-rejected"},
		{accountant.ErrVertexHashNotfound, "vertex-not-found"},
		{accountant.ErrBalanceCalculationUnexpectedFailure, "balance-failure"},
		{accountant.ErrUnexpected, "unexpected"},
		{spice.ErrValueOverflow, "overflow"},
		{spice.ErrNoSufficientFounds, "insufficient"},
	} {
		if errors.Is(err, c.e) {
			return c.n
		}
	}
	return fmt.Sprintf("other(%.40s)", err.Error())
}

// CountCtx is a context whose Done channel reports closed from the (At+1)-th poll on.
type CountCtx struct {
	context.Context
	N      int
	At     int
	closed chan struct{}
	open   chan struct{}
}

// NewCountCtx cancels at the (at+1)-th poll of Done(); at < 0 never cancels.
func NewCountCtx(at int) *CountCtx {
	c := &CountCtx{Context: context.Background(), At: at, closed: make(chan struct{}), open: make(chan struct{})}
	close(c.closed)
	return c
}

// Done implements context.Context.
func (c *CountCtx) Done() <-chan struct{} {
	c.N++
	if c.At >= 0 && c.N > c.At {
		return c.closed
	}
	return c.open
}

// Err implements context.Context.
func (c *CountCtx) Err() error {
	if c.At >= 0 && c.N > c.At {
		return context.Canceled
	}
	return nil
}

// Cancelled reports whether the context has reported Done at least once.
func (c *CountCtx) Cancelled() bool { return c.At >= 0 && c.N > c.At }
