package world

import (
	"context"
	"fmt"
	"sort"
	"time"

	"google.golang.org/grpc"
	"google.golang.org/protobuf/proto"
	"google.golang.org/protobuf/types/known/emptypb"

	"github.com/bartossh/Computantis/src/accountant"
	"github.com/bartossh/Computantis/src/cache"
	"github.com/bartossh/Computantis/src/dataprovider"
	"github.com/bartossh/Computantis/src/gossip"
	"github.com/bartossh/Computantis/src/notaryserver"
	"github.com/bartossh/Computantis/src/pipe"
	"github.com/bartossh/Computantis/src/protobufcompiled"
	"verif.local/vsched"
)

// FullNode is a node wired as cmd/node/main.go does: ledger, awaiting cache, flashback,
// juggler pipe, challenge provider, notary service and gossip service (virtual network).
type FullNode struct {
	*Node
	Cache  *cache.Hippocampus
	Flash  *cache.Flashback
	Pipe   *pipe.Juggler
	Data   *dataprovider.Cache
	Notary protobufcompiled.NotaryAPIServer
	Gossip *gossip.VerifGossiper
	URL    string
}

type nopTele struct{}

func (nopTele) CreateUpdateObservableHistogram(string, string) {}
func (nopTele) RecordHistogramTime(string, time.Duration) bool { return true }
func (nopTele) RecordHistogramValue(string, float64) bool      { return true }

var procFull = map[string]*FullNode{}

// GetFullNodes returns (creating on first use, outside any execution) the process-wide full nodes.
func GetFullNodes(names ...string) []*FullNode {
	base := GetNodes(names...)
	out := make([]*FullNode, len(names))
	for i, n := range names {
		fn := procFull[n]
		if fn == nil {
			c, err := cache.New(1<<12, 64)
			if err != nil {
				panic(err)
			}
			f, err := cache.NewFlash()
			if err != nil {
				panic(err)
			}
			fn = &FullNode{Node: base[i], Cache: c, Flash: f, URL: "virtual://" + n}
			procFull[n] = fn
		}
		out[i] = fn
	}
	return out
}

// ResetServices re-creates the per-execution service objects (must run inside an execution, after Node.Reset).
func (fn *FullNode) ResetServices(ctx context.Context) {
	old := vsched.SpawnClass(vsched.Daemon)
	defer vsched.SpawnClass(old)
	fn.Cache.VerifReset()
	fn.Flash.VerifReset()
	fn.Pipe = pipe.New(100, 100)
	fn.Data = dataprovider.New(ctx, dataprovider.Config{Longevity: 60})
	fn.Notary = notaryserver.NewVerifServer(fn.Data, nopTele{}, fn.Log, fn.Ver, fn.Book, fn.Cache, fn.Flash, fn.Pipe, 1<<16)
	fn.Gossip = gossip.NewVerifGossiper(fn.Log, time.Second, fn.Actor, fn.Ver, fn.Book, fn.Cache, fn.Flash, fn.Pipe, fn.URL, nil)
	g := fn.Gossip
	vsched.GoNamed("gossip.vertex-process/"+fn.Name, func() { g.RunVertexGossipProcess(ctx) })
	vsched.GoNamed("gossip.trx-process/"+fn.Name, func() { g.RunTransactionGossipProcess(ctx) })
}

// Msg is one in-flight gossip message of the virtual network.
type Msg struct {
	ID   int
	From string // node name
	To   string
	Vrx  *protobufcompiled.VrxMsgGossip
	Trx  *protobufcompiled.TrxMsgGossip
	// Delivered counts deliveries of this message (duplicates re-deliver the same message).
	Delivered int
	// reply carries the handler's answer back to the sender's (blocked) RPC call when the network is synchronous.
	reply chan error
}

// Item returns the hash of the gossiped item.
func (m *Msg) Item() [32]byte {
	var h [32]byte
	if m.Vrx != nil && m.Vrx.Vertex != nil {
		copy(h[:], m.Vrx.Vertex.Hash)
	}
	if m.Trx != nil && m.Trx.Trx != nil {
		copy(h[:], m.Trx.Trx.Hash)
	}
	return h
}

// Gossipers returns the gossiper entries carried by the message.
func (m *Msg) Gossipers() []*protobufcompiled.Gossiper {
	if m.Vrx != nil {
		return m.Vrx.Gossipers
	}
	if m.Trx != nil {
		return m.Trx.Gossipers
	}
	return nil
}

// Net is the virtual gossip network: fire-and-forget gossip RPCs land in the bag,
// GetVertex is an atomic RPC against the peer's real handler.
type Net struct {
	Nodes  map[string]*FullNode
	Bag    []*Msg // every message ever sent, in send order
	nextID int
	// OnSend is called for every gossip message at the moment it is sent.
	OnSend func(m *Msg)
	// GetVertexCalls counts the atomic parent-fetch RPCs.
	GetVertexCalls int
	// Fetches records every parent-fetch request (GetVertex) the nodes sent, with sender and addressee: what a
	// malicious peer gets to see of a node's signatures.
	Fetches []Fetch
	// Sync makes the gossip RPCs synchronous, as gRPC is: the sender's call returns only when the model delivers the
	// message, with the error the receiving handler answered (otherwise calls return nil at once: fire-and-forget).
	Sync bool
}

// Fetch is one recorded GetVertex request.
type Fetch struct {
	From, To string
	Req      *protobufcompiled.SignedHash
}

// NewNet wires the given nodes according to the undirected edge list (pairs of node names).
func NewNet(nodes []*FullNode, edges [][2]string) *Net {
	n := &Net{Nodes: map[string]*FullNode{}}
	for _, fn := range nodes {
		n.Nodes[fn.Name] = fn
	}
	for _, e := range edges {
		a, b := n.Nodes[e[0]], n.Nodes[e[1]]
		a.Gossip.SetPeer(b.Actor.Addr, b.URL, &stubClient{net: n, from: a.Name, to: b.Name})
		b.Gossip.SetPeer(a.Actor.Addr, a.URL, &stubClient{net: n, from: b.Name, to: a.Name})
	}
	return n
}

// Pending lists messages not yet delivered.
func (n *Net) Pending() []*Msg {
	var out []*Msg
	for _, m := range n.Bag {
		if m.Delivered == 0 {
			out = append(out, m)
		}
	}
	return out
}

// Deliver hands message id to its target's real handler and returns the error class.
func (n *Net) Deliver(id int) string {
	m := n.Bag[id]
	m.Delivered++
	to := n.Nodes[m.To]
	var err error
	if m.Vrx != nil {
		_, err = to.Gossip.Server().GossipVrx(context.Background(), proto.Clone(m.Vrx).(*protobufcompiled.VrxMsgGossip))
	} else {
		_, err = to.Gossip.Server().GossipTrx(context.Background(), proto.Clone(m.Trx).(*protobufcompiled.TrxMsgGossip))
	}
	if m.reply != nil && m.Delivered == 1 {
		vsched.Send(m.reply, err) // capacity 1: never blocks; the sender's call returns with the handler's answer
	}
	if err != nil {
		return "error"
	}
	return "ok"
}

type stubClient struct {
	net      *Net
	from, to string
}

func (s *stubClient) send(m *Msg) {
	m.ID = len(s.net.Bag)
	m.From, m.To = s.from, s.to
	s.net.Bag = append(s.net.Bag, m)
	if s.net.OnSend != nil {
		s.net.OnSend(m)
	}
}

func (s *stubClient) GossipVrx(ctx context.Context, in *protobufcompiled.VrxMsgGossip, _ ...grpc.CallOption) (*emptypb.Empty, error) {
	return s.call(&Msg{Vrx: proto.Clone(in).(*protobufcompiled.VrxMsgGossip)})
}

func (s *stubClient) GossipTrx(ctx context.Context, in *protobufcompiled.TrxMsgGossip, _ ...grpc.CallOption) (*emptypb.Empty, error) {
	return s.call(&Msg{Trx: proto.Clone(in).(*protobufcompiled.TrxMsgGossip)})
}

// call puts the message into the bag; on a synchronous network the calling task then waits for its delivery.
func (s *stubClient) call(m *Msg) (*emptypb.Empty, error) {
	if s.net.Sync && vsched.Active() {
		m.reply = vsched.MakeChan[error](1)
	}
	s.send(m)
	if m.reply != nil {
		if err := vsched.Recv(m.reply); err != nil {
			return nil, err
		}
	}
	return &emptypb.Empty{}, nil
}

func (s *stubClient) GetVertex(ctx context.Context, in *protobufcompiled.SignedHash, _ ...grpc.CallOption) (*protobufcompiled.Vertex, error) {
	s.net.GetVertexCalls++
	s.net.Fetches = append(s.net.Fetches, Fetch{From: s.from, To: s.to, Req: proto.Clone(in).(*protobufcompiled.SignedHash)})
	return s.net.Nodes[s.to].Gossip.Server().GetVertex(ctx, proto.Clone(in).(*protobufcompiled.SignedHash))
}

func (s *stubClient) Alive(ctx context.Context, in *emptypb.Empty, _ ...grpc.CallOption) (*protobufcompiled.AliveData, error) {
	return s.net.Nodes[s.to].Gossip.Server().Alive(ctx, in)
}

func (s *stubClient) LoadDag(ctx context.Context, in *emptypb.Empty, _ ...grpc.CallOption) (protobufcompiled.GossipAPI_LoadDagClient, error) {
	return nil, fmt.Errorf("virtual network: LoadDag streaming is not provided")
}

func (s *stubClient) Announce(ctx context.Context, in *protobufcompiled.ConnectionData, _ ...grpc.CallOption) (*emptypb.Empty, error) {
	return nil, fmt.Errorf("virtual network: Announce is not provided")
}

func (s *stubClient) Discover(ctx context.Context, in *protobufcompiled.ConnectionData, _ ...grpc.CallOption) (*protobufcompiled.ConnectedNodes, error) {
	return nil, fmt.Errorf("virtual network: Discover is not provided")
}

// ValidGossipers returns the cast names of the entries of a gossiper list whose signature verifies
// for (address, item hash) — the harness's own judgement, made with wallet.Helper directly.
func ValidGossipers(item [32]byte, gs []*protobufcompiled.Gossiper) []string {
	var out []string
	seen := map[string]bool{}
	for _, g := range gs {
		if g == nil || len(g.Digest) != 32 {
			continue
		}
		msg := gossip.VerifGossiperMessage(g.Address, item)
		if SharedVerifier.Verify(msg, g.Signature, [32]byte(g.Digest), g.Address) == nil && !seen[g.Address] {
			seen[g.Address] = true
			out = append(out, AddrName(g.Address))
		}
	}
	sort.Strings(out)
	return out
}

// HasVertex reports whether the node's ledger (live or checkpointed) holds the vertex.
func (fn *FullNode) HasVertex(h [32]byte) bool {
	_, err := fn.Book.ReadVertex(context.Background(), h)
	return err == nil
}

var _ = accountant.ErrUnexpected
