package main

import (
	"context"
	"crypto/sha256"
	"encoding/hex"
	"errors"
	"fmt"
	"net"
	"runtime/debug"
	"sort"
	"strings"
	"time"

	"google.golang.org/grpc"
	"google.golang.org/grpc/credentials/insecure"

	"github.com/bartossh/Computantis/src/accountant"
	"github.com/bartossh/Computantis/src/dataprovider"
	"github.com/bartossh/Computantis/src/gossip"
	"github.com/bartossh/Computantis/src/notaryserver"
	"github.com/bartossh/Computantis/src/pipe"
	pb "github.com/bartossh/Computantis/src/protobufcompiled"
	"github.com/bartossh/Computantis/src/spice"
	"github.com/bartossh/Computantis/src/webhooks"
	"github.com/bartossh/Computantis/src/webhooksserver"
	"verif.local/harness/world"
	"verif.local/vsched"
)

// countVerifier counts the signature checks requested by the services and how many of them passed.
type countVerifier struct {
	inner *world.MemoVerifier
	calls int
	ok    int
}

func (c *countVerifier) Verify(m, s []byte, h [32]byte, a string) error {
	c.calls++
	err := c.inner.Verify(m, s, h, a)
	if err == nil {
		c.ok++
	}
	return err
}

type nopTele struct{}

func (nopTele) CreateUpdateObservableHistogram(string, string) {}
func (nopTele) RecordHistogramTime(string, time.Duration) bool { return true }
func (nopTele) RecordHistogramValue(string, float64) bool      { return true }

// hookTable wraps the real webhooks service and remembers what was registered.
type hookTable struct {
	inner *webhooks.Service
	reg   []string
}

func (h *hookTable) CreateWebhook(trigger byte, address string, hk webhooks.Hook) error {
	err := h.inner.CreateWebhook(trigger, address, hk)
	if err == nil {
		h.reg = append(h.reg, fmt.Sprintf("%d|%s|%s", trigger, address, hk.URL))
	}
	return err
}
func (h *hookTable) RemoveWebhook(trigger byte, address string, hk webhooks.Hook) error {
	h.reg = append(h.reg, fmt.Sprintf("remove %d|%s", trigger, address))
	return h.inner.RemoveWebhook(trigger, address, hk)
}
func (h *hookTable) PostWebhookNewTransaction(a []string, u string) {}

// wctx is one world (state S0 or S1) inside one controlled execution.
type wctx struct {
	state     string
	full      []*world.FullNode
	n0        *world.FullNode
	lw        *world.LW
	net       *world.Net
	ver       *countVerifier
	hooks     *hookTable
	wh        pb.WebhooksAPIServer
	tip       accountant.Vertex // newest vertex of the node under test
	sealedTrx [32]byte          // hash of a transaction that is in the ledger
	awaited   *pb.Transaction   // the awaiting contract (in the cache in S1; merely well-formed in S0)
	awaited2  *pb.Transaction   // a second awaiting contract that also moves 2^64-1 units: nobody can afford it
	challenge map[string][]byte
}

var noNetwork = errors.New("c15: no network")

func dialOpts() []grpc.DialOption {
	return []grpc.DialOption{
		grpc.WithTransportCredentials(insecure.NewCredentials()),
		grpc.WithContextDialer(func(context.Context, string) (net.Conn, error) { return nil, noNetwork }),
	}
}

// resetServices is world.FullNode.ResetServices with a counting verifier and dial options
// (insecure credentials + a dialer that always fails: no socket is ever opened).
func resetServices(fn *world.FullNode, ctx context.Context, ver *countVerifier, acc gossipAccounter, opts []grpc.DialOption) {
	old := vsched.SpawnClass(vsched.Daemon)
	defer vsched.SpawnClass(old)
	fn.Cache.VerifReset()
	fn.Flash.VerifReset()
	fn.Pipe = pipe.New(100, 100)
	fn.Data = dataprovider.New(ctx, dataprovider.Config{Longevity: 60})
	fn.Notary = notaryserver.NewVerifServer(fn.Data, nopTele{}, fn.Log, ver, fn.Book, fn.Cache, fn.Flash, fn.Pipe, 1<<16)
	if acc == nil {
		acc = fn.Book
	}
	fn.Gossip = gossip.NewVerifGossiper(fn.Log, time.Second, fn.Actor, ver, acc, fn.Cache, fn.Flash, fn.Pipe, fn.URL, opts)
	g := fn.Gossip
	if vsched.Active() {
		vsched.GoNamed("gossip.vertex-process/"+fn.Name, func() { g.RunVertexGossipProcess(ctx) })
		vsched.GoNamed("gossip.trx-process/"+fn.Name, func() { g.RunTransactionGossipProcess(ctx) })
	}
}

// gossipAccounter mirrors the (unexported) ledger interface of the gossip package.
type gossipAccounter interface {
	CreateGenesis(subject string, spc spice.Melange, data []byte, publicAddress string) (accountant.Vertex, error)
	AddLeaf(ctx context.Context, leaf *accountant.Vertex) error
	StreamDAG(ctx context.Context) <-chan *accountant.Vertex
	LoadDag(cancelF context.CancelCauseFunc, cVrx <-chan *accountant.Vertex)
	DagLoaded() bool
	ReadVertex(ctx context.Context, h [32]byte) (accountant.Vertex, error)
}

// baseTrx is the all-base token vector of a Transaction: the awaiting contract A -> B; over replaces tokens.
func baseTrx(cons bool, over ...string) *pb.Transaction {
	s := schemaTransaction(false)
	tok := s.baseTok()
	for i := 0; i+1 < len(over); i += 2 {
		tok[s.idx[over[i]]] = over[i+1]
	}
	return buildTrx(s.getter(s.shapeOf(tok)), "", cons)
}

// buildWorld resets the two process-wide nodes and constructs S0 or S1 (inside a controlled execution).
func buildWorld(full []*world.FullNode, state string) *wctx {
	ctx := context.Background()
	base := []*world.Node{full[0].Node, full[1].Node}
	w := &wctx{state: state, full: full, n0: full[0], challenge: map[string][]byte{}}
	w.lw = world.NewLW(base, spice.Melange{Currency: 10}, 0)
	w.ver = &countVerifier{inner: world.SharedVerifier}
	for _, f := range full {
		resetServices(f, ctx, w.ver, nil, dialOpts())
	}
	var edges [][2]string
	if state == "S1" {
		edges = [][2]string{{"G", "N1"}}
	}
	w.net = world.NewNet(full, edges)
	w.hooks = &hookTable{inner: webhooks.New(full[0].Log)}
	w.wh = webhooksserver.NewVerifApp(full[0].Log, w.ver, w.hooks)
	vsched.Settle()
	w.awaited = baseTrx(true)
	w.awaited2 = baseTrx(true, "Spice.Currency", "max")
	w.sealedTrx = w.lw.Genesis.Transaction.Hash
	if state == "S1" {
		R, A, B := world.Cast("R"), world.Cast("A"), world.Cast("B")
		propose := func(t *pb.Transaction) {
			if _, err := w.n0.Notary.Propose(ctx, t); err != nil {
				panic("c15: S1 setup: propose failed: " + err.Error())
			}
			vsched.Settle()
			for _, m := range w.net.Pending() {
				w.net.Deliver(m.ID)
				vsched.Settle()
			}
		}
		for i, tr := range []struct {
			to  *world.Actor
			amt uint64
		}{{A, 6}, {B, 3}} {
			t := world.MakeTx(R, tr.to.Addr, fmt.Sprintf("s1-%d", i), nil, spice.Melange{Currency: tr.amt}, 9501+i)
			w.lw.Ref.LabelTx(t.Subject, t)
			if i == 0 {
				w.sealedTrx = t.Hash
			}
			propose(&pb.Transaction{Subject: t.Subject, Data: t.Data, Hash: t.Hash[:], CreatedAt: uint64(t.CreatedAt.UnixNano()), ReceiverAddress: t.ReceiverAddress,
				IssuerAddress: t.IssuerAddress, ReceiverSignature: t.ReceiverSignature, IssuerSignature: t.IssuerSignature,
				Spice: &pb.Spice{Currency: t.Spice.Currency, SupplementaryCurrency: t.Spice.SupplementaryCurrency}})
		}
		propose(baseTrx(true))
		propose(baseTrx(true, "Spice.Currency", "max"))
		if n := len(w.n0.Cache.VerifDump()); n == 0 {
			panic("c15: S1 setup: the awaiting contract is not in the cache")
		}
	}
	s := w.n0.Book.VerifSnapshot()
	for _, v := range s.Vertices {
		w.lw.Ref.Learn(v)
	}
	for _, v := range s.Vertices {
		if v.Weight >= w.tip.Weight {
			w.tip = v
		}
	}
	if state == "S1" && len(s.Vertices) != 3 {
		panic(fmt.Sprintf("c15: S1 setup: %d live vertices, want 3", len(s.Vertices)))
	}
	// identity challenges (Data RPC) for the requesters used by Waiting / TransactionsInDAG
	for _, who := range []string{"A", "B"} {
		a := world.Cast(who).Addr
		blob, err := w.n0.Notary.Data(ctx, &pb.Address{Public: a})
		if err != nil {
			panic("c15: setup: Data: " + err.Error())
		}
		w.challenge[a] = blob.Blob
	}
	w.n0.Flash.VerifReset()
	vsched.Settle()
	return w
}

// ---------------------------------------------------------------- observable state

type snap struct {
	ledger, parked, cache, peers, hooks string
	nParked, flash                      int
	parkedV                             []accountant.VerifParked
}

func hx(b []byte) string { return hex.EncodeToString(b) }

func vkey(v *accountant.Vertex) string {
	t := &v.Transaction
	h := sha256.New()
	fmt.Fprintf(h, "%s|%d|%x|%x|%x|%x|%d|%d|%s|%s|%s|%x|%x|%x|%x|%d|%d", v.SignerPublicAddress, v.CreatedAt.UnixNano(), v.Signature, v.Hash, v.LeftParentHash, v.RightParentHash, v.Weight,
		t.CreatedAt.UnixNano(), t.IssuerAddress, t.ReceiverAddress, t.Subject, sha256.Sum256(t.Data), t.IssuerSignature, t.ReceiverSignature, t.Hash, t.Spice.Currency, t.Spice.SupplementaryCurrency)
	return hx(h.Sum(nil)[:16])
}

func (w *wctx) snap() snap {
	s := w.n0.Book.VerifSnapshot()
	var lines []string
	for i := range s.Vertices {
		lines = append(lines, "L:"+vkey(&s.Vertices[i]))
	}
	for id, h := range s.DagIDs {
		lines = append(lines, "D:"+hx(id[:8])+">"+hx(h[:8]))
	}
	for _, e := range s.Edges {
		lines = append(lines, "E:"+hx(e[0][:8])+">"+hx(e[1][:8]))
	}
	for i := range s.Stored {
		lines = append(lines, "S:"+hx(s.StoredKeys[i][:8])+":"+vkey(&s.Stored[i]))
	}
	for a, f := range s.Funds {
		lines = append(lines, fmt.Sprintf("F:%s=%d.%d", a, f.Currency, f.SupplementaryCurrency))
	}
	for k, v := range s.TrxIndex {
		lines = append(lines, "I:"+hx(k[:])+">"+hx(v))
	}
	for _, t := range s.Trusted {
		lines = append(lines, "T:"+t)
	}
	lines = append(lines, fmt.Sprintf("loaded=%v genesis=%s undecodable=%d", s.DagLoaded, s.Genesis, s.Undecodable))
	sort.Strings(lines)
	out := snap{ledger: strings.Join(lines, "\n"), nParked: len(s.Parked), parkedV: s.Parked}
	var pk []string
	for i := range s.Parked {
		pk = append(pk, fmt.Sprintf("P:%s#%d", vkey(&s.Parked[i].Vertex), s.Parked[i].Repeated))
	}
	sort.Strings(pk)
	out.parked = strings.Join(pk, "\n")
	var ck []string
	for k, v := range w.n0.Cache.VerifDump() {
		vh := sha256.Sum256([]byte(v))
		ck = append(ck, k+"="+hx(vh[:8]))
	}
	sort.Strings(ck)
	out.cache = strings.Join(ck, "\n")
	var ps []string
	for a, u := range w.n0.Gossip.Peers() {
		ps = append(ps, a+"@"+u)
	}
	sort.Strings(ps)
	out.peers = strings.Join(ps, "\n")
	out.hooks = strings.Join(w.hooks.reg, "\n")
	out.flash = len(w.n0.Flash.VerifDump())
	return out
}

// diff names the parts of the observable state that differ.
func (a snap) diff(b snap) []string {
	var d []string
	if a.ledger != b.ledger {
		d = append(d, "ledger")
	}
	if a.parked != b.parked {
		d = append(d, "parked")
	}
	if a.cache != b.cache {
		d = append(d, "awaiting-cache")
	}
	if a.peers != b.peers {
		d = append(d, "peer-table")
	}
	if a.hooks != b.hooks {
		d = append(d, "webhooks")
	}
	return d
}

// ---------------------------------------------------------------- panics

const repoPrefix = "github.com/bartossh/Computantis/src/"

func panicClass(p string) string {
	switch {
	case strings.Contains(p, "cannot convert slice with length"):
		return "slice-to-array-conversion"
	case strings.Contains(p, "nil pointer dereference"):
		return "nil-pointer"
	case strings.Contains(p, "index out of range"), strings.Contains(p, "slice bounds out of range"):
		return "out-of-range"
	case strings.Contains(p, "bad public key length"):
		return "bad-key-length"
	case strings.Contains(p, "send on closed channel"):
		return "send-on-closed-channel"
	case strings.Contains(p, "nil map"):
		return "nil-map-write"
	}
	var sb strings.Builder
	for _, c := range p {
		switch {
		case c >= 'a' && c <= 'z', c >= 'A' && c <= 'Z':
			sb.WriteRune(c)
		case c == ' ' || c == ':' || c == '-':
			if sb.Len() > 0 && sb.String()[sb.Len()-1] != '-' {
				sb.WriteByte('-')
			}
		}
		if sb.Len() >= 48 {
			break
		}
	}
	return strings.Trim(sb.String(), "-")
}

// repoFrame returns the innermost function of the repository on a debug.Stack dump (without the module path).
func repoFrame(stack string) string {
	for _, l := range strings.Split(stack, "\n") {
		if l == "" || l[0] == '\t' || strings.HasPrefix(l, "goroutine ") {
			continue
		}
		if i := strings.Index(l, repoPrefix); i >= 0 {
			l = l[i+len(repoPrefix):]
			if j := strings.LastIndex(l, "("); j > 0 && !strings.HasSuffix(l[:j], ".") {
				// strip the argument list (the last parenthesis group), keep receiver groups like (*gossiper)
				l = l[:j]
			}
			if j := strings.LastIndex(l, "/"); j >= 0 {
				l = l[j+1:]
			}
			return l
		}
	}
	return "unknown"
}

type panicRec struct {
	value, class, frame, frames string
}

func recPanic(r any, stack string) *panicRec {
	v := fmt.Sprint(r)
	return &panicRec{value: v, class: panicClass(v), frame: repoFrame(stack), frames: vsched.Frames(stack, 6)}
}

// safeCall runs one handler call in the current task and converts a panic into a record.
func safeCall(f func() (any, error)) (resp any, err error, pan *panicRec) {
	defer func() {
		if r := recover(); r != nil {
			if vsched.Aborting() {
				panic(r) // the execution is being torn down (the call never returned): not a handler panic
			}
			pan = recPanic(r, string(debug.Stack()))
		}
	}()
	resp, err = f()
	return
}
