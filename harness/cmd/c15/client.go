package main

import (
	"context"
	"fmt"
	"net"
	"regexp"
	"runtime"
	"runtime/debug"
	"strings"
	"time"

	"google.golang.org/grpc"
	"google.golang.org/grpc/credentials/insecure"
	"google.golang.org/grpc/test/bufconn"
	"google.golang.org/protobuf/proto"
	"google.golang.org/protobuf/types/known/emptypb"

	"github.com/bartossh/Computantis/src/accountant"
	"github.com/bartossh/Computantis/src/gossip"
	pb "github.com/bartossh/Computantis/src/protobufcompiled"
	"verif.local/harness/common"
	"verif.local/harness/world"
	"verif.local/vsched"
)

// Client path updateDag: the node dials a peer and consumes the peer's LoadDag stream.  The peer is a
// malicious GossipAPI served over an in-process bufconn listener (real gRPC, no network).  gRPC's
// goroutines are not controlled tasks, so this part runs OUTSIDE the controlled runtime (pass-through).

type evilServer struct {
	pb.UnimplementedGossipAPIServer
	script []*pb.Vertex
}

func (e *evilServer) LoadDag(_ *emptypb.Empty, st pb.GossipAPI_LoadDagServer) error {
	for _, v := range e.script {
		if err := st.Send(v); err != nil {
			return err
		}
	}
	return nil
}

// joinBook lets the harness wait for (and recover a panic of) the ledger's LoadDag goroutine.
type joinBook struct {
	*accountant.AccountingBook
	done chan *panicRec
}

func (j *joinBook) LoadDag(cancel context.CancelCauseFunc, ch <-chan *accountant.Vertex) {
	var pr *panicRec
	defer func() {
		if r := recover(); r != nil {
			pr = recPanic(r, string(debug.Stack()))
		}
		j.done <- pr
	}()
	j.AccountingBook.LoadDag(cancel, ch)
}

const updName = "Gossip.updateDag"

func bufconnMain(shard, n int) *wres {
	start := time.Now()
	res := &wres{Shard: shard, Stats: map[string]*rpcStat{}, Viol: map[string]*vrec{}}
	thorough := common.Tier() == "thorough"
	full := world.GetFullNodes("G", "N1")

	// valid prefix of the stream: the ledger of S1 as the genesis node would stream it
	var valid []*pb.Vertex
	var tipW *wctx
	r := vsched.Run(vsched.Options{KeyFunc: world.KeyFunc, MaxSteps: 1 << 40}, func() {
		w := buildWorld(full, "S1")
		s := w.n0.Book.VerifSnapshot()
		vs := append([]accountant.Vertex{}, s.Vertices...)
		for i := range vs { // parents first
			for j := i + 1; j < len(vs); j++ {
				if vs[j].Weight < vs[i].Weight {
					vs[i], vs[j] = vs[j], vs[i]
				}
			}
		}
		for i := range vs {
			valid = append(valid, gossip.VerifVertexToProto(&vs[i]))
		}
		tipW = &wctx{state: "S1", tip: w.tip}
	})
	if len(r.Panics) > 0 || !r.RootDone || len(valid) != 3 {
		res.Err = fmt.Sprintf("bufconn: cannot build the source ledger: %+v", r.Panics)
		return res
	}

	lis := bufconn.Listen(32 << 10) // per connection two pipes of this size are allocated
	srv := grpc.NewServer()
	es := &evilServer{}
	pb.RegisterGossipAPIServer(srv, es)
	go srv.Serve(lis)
	defer srv.Stop()
	opts := []grpc.DialOption{
		grpc.WithTransportCredentials(insecure.NewCredentials()),
		grpc.WithContextDialer(func(ctx context.Context, _ string) (net.Conn, error) { return lis.DialContext(ctx) }),
	}

	// quick: base + single sweeps + all pairs; thorough: + the two red3 blocks.  (The conversion of the peer's vertex is the same
	// code as in processLackingParent, which is explored with the larger blocks inside the controlled runtime; a real gRPC
	// stream costs milliseconds.)
	sch := schemaPeerVertex(false, false, thorough)
	if !thorough {
		sch.blocks = nil
	}
	shapes, rule := sch.enumerate(200_000)
	d := &rpcDef{name: updName, sch: sch}
	st := &rpcStat{Enumerated: len(shapes), Rule: rule + "; each vertex is streamed after the 3 correct vertices of S1 to a freshly reset node"}
	res.Stats[updName] = st
	fn := full[1] // N1 is the syncing node
	ver := &countVerifier{inner: world.SharedVerifier}

	dl := deadline()
	type outcome struct {
		err error
		pan *panicRec
	}
	for si, sh := range shapes {
		if si%n != shard {
			continue
		}
		if expired(dl) {
			res.Truncated = true
			break
		}
		g := sch.getter(sh)
		for _, cons := range []bool{false, true} {
			variant := "raw"
			msg := buildVertex(g, "Vertex.", cons, tipW)
			if cons {
				variant = "consistently-signed"
				if proto.Equal(msg, buildVertex(g, "Vertex.", false, tipW)) {
					st.SameAsRaw++
					continue
				}
			}
			ctx, cancel := context.WithCancel(context.Background())
			if err := fn.Book.VerifReset(ctx, 0); err != nil {
				res.Err = "bufconn: reset: " + err.Error()
				cancel()
				return res
			}
			jb := &joinBook{AccountingBook: fn.Book, done: make(chan *panicRec, 1)}
			resetServices(fn, ctx, ver, jb, opts)
			es.script = append(append([]*pb.Vertex{}, valid...), msg)
			ch := make(chan outcome, 1)
			go func() {
				var o outcome
				defer func() {
					if r := recover(); r != nil {
						o.pan = recPanic(r, string(debug.Stack()))
					}
					ch <- o
				}()
				o.err = fn.Gossip.UpdateDag(ctx, "passthrough:///bufnet")
			}()
			var o outcome
			hung := ""
			select {
			case o = <-ch:
			case <-time.After(10 * time.Second):
				// a loaded machine can stall a process for seconds: only a call that is still stuck after another 50 s counts
				res.Slow++
				select {
				case o = <-ch:
				case <-time.After(50 * time.Second):
					hung = "updateDag did not return within 60 s"
				}
			}
			var lp *panicRec
			if hung == "" {
				select {
				case lp = <-jb.done:
				case <-time.After(60 * time.Second):
					hung = "the ledger's LoadDag goroutine did not finish within 60 s after updateDag returned"
				}
			}
			cancel()
			st.Shapes++
			if st.Shapes%500 == 0 {
				runtime.GC()
			}
			ws := witnessOf(d, "fresh node syncing from a peer that streams S1 + this vertex", sh, variant, nil)
			switch {
			case hung != "":
				st.Panics++
				res.addViol(&vrec{Key: "C15.blocked/" + updName, Predicate: "C15.returns", Dev: int(sh.dev), Idx: si, Count: 1, What: hung, Witness: ws})
				res.WallS = time.Since(start).Seconds()
				return res // the node is wedged; nothing more can be decided in this process
			case o.pan != nil || lp != nil:
				p := o.pan
				if p == nil {
					p = lp
				}
				st.Panics++
				ws["panic"], ws["frames"] = p.value, p.frames
				res.addViol(&vrec{Key: fmt.Sprintf("C15.panic/%s/%s@%s", updName, p.class, p.frame), Predicate: "C15.no-panic", Dev: int(sh.dev), Idx: si, Count: 1,
					What: fmt.Sprintf("updateDag panicked (%s) in %s on a %s vertex streamed by the peer", p.value, p.frame, variant), Witness: ws})
				res.sample(d, "sync", sh, variant, "PANIC "+p.class+" in "+p.frame)
			case o.err != nil:
				st.Errors++
				res.sample(d, "sync", sh, variant, "error: "+o.err.Error())
			default:
				st.OK++
				st.Nontrivial++
				res.sample(d, "sync", sh, variant, "ok")
			}
			if o.pan != nil {
				// the deferred close(chVrx) ran during unwinding, the loader has finished; give its goroutines a moment
				time.Sleep(time.Millisecond)
			}
		}
	}
	res.WallS = time.Since(start).Seconds()
	return res
}

var panicLine = regexp.MustCompile(`(?m)^panic: (.*)$`)

// crashResult turns the death of the bufconn worker (an uncontrolled goroutine panicked) into a finding.
func crashResult(stderr string, runErr error) *wres {
	res := &wres{Stats: map[string]*rpcStat{updName: {Shapes: 1, Panics: 1, Rule: "worker crashed"}}, Viol: map[string]*vrec{}}
	m := panicLine.FindStringSubmatch(stderr)
	if m == nil {
		res.Err = fmt.Sprintf("bufconn worker: %v: %s", runErr, tail(stderr, 2000))
		return res
	}
	i := strings.Index(stderr, m[0])
	p := recPanic(m[1], stderr[i:])
	res.addViol(&vrec{Key: fmt.Sprintf("C15.panic/%s/%s@%s", updName, p.class, p.frame), Predicate: "C15.no-panic", Count: 1,
		What:    fmt.Sprintf("the process syncing from a malicious peer died: %s in %s", p.value, p.frame),
		Witness: map[string]any{"rpc": updName, "panic": p.value, "frames": p.frames, "stderr_tail": tail(stderr[i:], 1500)}})
	return res
}

func tail(s string, n int) string {
	if len(s) > n {
		return s[len(s)-n:]
	}
	return s
}
