package main

import (
	"context"
	"errors"

	"google.golang.org/grpc"
	"google.golang.org/protobuf/types/known/emptypb"

	pb "github.com/bartossh/Computantis/src/protobufcompiled"
	"verif.local/harness/world"
)

// rpcDef describes one entry point: its message schema, how a token vector becomes a request and how it is called.
type rpcDef struct {
	name   string // <Service>.<RPC>
	sch    *schema
	noCons bool // no consistently signed variant exists (no signed content in the request)
	build  func(g getter, cons bool, w *wctx) any
	call   func(w *wctx, m any) (any, error)
	prep   func(w *wctx) // once per world, before the first call
	client bool          // client-side path (a peer's answer is the input); a state change needs a consistent variant
}

var bg = context.Background()

func hookURL(n int) []byte {
	u := []byte("http://hooks.example/")
	for len(u) < n {
		u = append(u, byte('a'+len(u)%26))
	}
	return u
}

// loadDagStream is the server side stream handed to Gossip.LoadDag.
type loadDagStream struct {
	grpc.ServerStream
	mode string // ok | send-fails | send-fails-once
	sent int
	n    int
}

func (s *loadDagStream) Send(v *pb.Vertex) error {
	s.n++
	switch {
	case s.mode == "send-fails", s.mode == "send-fails-once" && s.n == 1:
		return errors.New("c15: stream broken")
	}
	s.sent++
	return nil
}
func (s *loadDagStream) Context() context.Context { return bg }

// evilPeer is a malicious GossipAPI client: GetVertex answers with an adversarial vertex (once).
type evilPeer struct {
	next  *pb.Vertex
	armed bool
	calls int
}

func (e *evilPeer) GetVertex(ctx context.Context, in *pb.SignedHash, _ ...grpc.CallOption) (*pb.Vertex, error) {
	e.calls++
	if !e.armed {
		return nil, errors.New("c15: evil peer has nothing more")
	}
	e.armed = false
	return e.next, nil
}
func (e *evilPeer) Alive(context.Context, *emptypb.Empty, ...grpc.CallOption) (*pb.AliveData, error) {
	return &pb.AliveData{}, nil
}
func (e *evilPeer) LoadDag(context.Context, *emptypb.Empty, ...grpc.CallOption) (pb.GossipAPI_LoadDagClient, error) {
	return nil, errors.New("c15: not provided")
}
func (e *evilPeer) Announce(context.Context, *pb.ConnectionData, ...grpc.CallOption) (*emptypb.Empty, error) {
	return &emptypb.Empty{}, nil
}
func (e *evilPeer) Discover(context.Context, *pb.ConnectionData, ...grpc.CallOption) (*pb.ConnectedNodes, error) {
	return nil, errors.New("c15: not provided")
}
func (e *evilPeer) GossipVrx(context.Context, *pb.VrxMsgGossip, ...grpc.CallOption) (*emptypb.Empty, error) {
	return &emptypb.Empty{}, nil
}
func (e *evilPeer) GossipTrx(context.Context, *pb.TrxMsgGossip, ...grpc.CallOption) (*emptypb.Empty, error) {
	return &emptypb.Empty{}, nil
}

var evil = &evilPeer{}

func rpcTable(thorough bool) []*rpcDef {
	A, B := world.Cast("A"), world.Cast("B")
	shRPC := func(name string, who *world.Actor, extra string, real func(w *wctx, n int) []byte, special func(w *wctx) map[string][]byte,
		call func(w *wctx, m *pb.SignedHash) (any, error)) *rpcDef {
		var ex []string
		if extra != "" {
			ex = []string{extra}
		}
		s := schemaSignedHash(ex...)
		return &rpcDef{name: name, sch: s,
			build: func(g getter, cons bool, w *wctx) any {
				var sp map[string][]byte
				if special != nil {
					sp = special(w)
				}
				var r []byte
				if real != nil {
					r = real(w, 65)
				}
				return buildSignedHash(g, cons, who, r, sp)
			},
			call: func(w *wctx, m any) (any, error) { return call(w, m.(*pb.SignedHash)) }}
	}
	trxS := schemaTransaction(thorough)
	alive := schemaOne("Empty", "nil", "present")
	emptyOf := func(g getter) *emptypb.Empty {
		if g("Empty") == "nil" {
			return nil
		}
		return &emptypb.Empty{}
	}
	gtS := schemaGossipTrx(thorough)
	gvS := schemaGossipVrx(thorough)
	pvS := schemaPeerVertex(thorough, true, true)
	cdS := schemaConnectionData()
	return []*rpcDef{
		{name: "Notary.Alive", sch: alive, noCons: true,
			build: func(g getter, _ bool, _ *wctx) any { return emptyOf(g) },
			call:  func(w *wctx, m any) (any, error) { return w.n0.Notary.Alive(bg, m.(*emptypb.Empty)) }},
		{name: "Notary.Propose", sch: trxS,
			build: func(g getter, cons bool, _ *wctx) any { return buildTrx(g, "", cons) },
			call:  func(w *wctx, m any) (any, error) { return w.n0.Notary.Propose(bg, m.(*pb.Transaction)) }},
		{name: "Notary.Confirm", sch: trxS,
			build: func(g getter, cons bool, _ *wctx) any { return buildTrx(g, "", cons) },
			call:  func(w *wctx, m any) (any, error) { return w.n0.Notary.Confirm(bg, m.(*pb.Transaction)) }},
		shRPC("Notary.Reject", B, "unaffordable", func(w *wctx, n int) []byte { return fit(w.awaited.Hash, "65", 0x31) },
			func(w *wctx) map[string][]byte { return map[string][]byte{"unaffordable": w.awaited2.Hash} },
			func(w *wctx, m *pb.SignedHash) (any, error) { return w.n0.Notary.Reject(bg, m) }),
		shRPC("Notary.Waiting", A, "challenge", nil, func(w *wctx) map[string][]byte { return map[string][]byte{"challenge": w.challenge[A.Addr]} },
			func(w *wctx, m *pb.SignedHash) (any, error) { return w.n0.Notary.Waiting(bg, m) }),
		shRPC("Notary.Saved", A, "", func(w *wctx, n int) []byte { return fit(w.sealedTrx[:], "65", 0x32) }, nil,
			func(w *wctx, m *pb.SignedHash) (any, error) { return w.n0.Notary.Saved(bg, m) }),
		{name: "Notary.Data", sch: schemaOne("Public", addrFull...), noCons: true,
			build: func(g getter, _ bool, _ *wctx) any { return &pb.Address{Public: addrOf(g("Public"), A)} },
			call:  func(w *wctx, m any) (any, error) { return w.n0.Notary.Data(bg, m.(*pb.Address)) }},
		shRPC("Notary.Balance", A, "addr", nil, func(w *wctx) map[string][]byte { return map[string][]byte{"addr": nil} },
			func(w *wctx, m *pb.SignedHash) (any, error) { return w.n0.Notary.Balance(bg, m) }),
		shRPC("Notary.TransactionsInDAG", A, "challenge", nil, func(w *wctx) map[string][]byte { return map[string][]byte{"challenge": w.challenge[A.Addr]} },
			func(w *wctx, m *pb.SignedHash) (any, error) { return w.n0.Notary.TransactionsInDAG(bg, m) }),

		{name: "Gossip.Alive", sch: alive, noCons: true,
			build: func(g getter, _ bool, _ *wctx) any { return emptyOf(g) },
			call:  func(w *wctx, m any) (any, error) { return w.n0.Gossip.Server().Alive(bg, m.(*emptypb.Empty)) }},
		{name: "Gossip.Announce", sch: cdS,
			build: func(g getter, cons bool, _ *wctx) any { return buildConnectionData(g, cons) },
			call:  func(w *wctx, m any) (any, error) { return w.n0.Gossip.Server().Announce(bg, m.(*pb.ConnectionData)) }},
		{name: "Gossip.Discover", sch: cdS,
			build: func(g getter, cons bool, _ *wctx) any { return buildConnectionData(g, cons) },
			call:  func(w *wctx, m any) (any, error) { return w.n0.Gossip.Server().Discover(bg, m.(*pb.ConnectionData)) }},
		{name: "Gossip.LoadDag", sch: schemaOne("Stream", "send-fails", "send-fails-once", "ok"), noCons: true,
			build: func(g getter, _ bool, _ *wctx) any { return &loadDagStream{mode: g("Stream")} },
			call: func(w *wctx, m any) (any, error) {
				err := w.n0.Gossip.Server().LoadDag(&emptypb.Empty{}, m.(*loadDagStream))
				return m.(*loadDagStream).sent, err
			}},
		{name: "Gossip.GossipVrx", sch: gvS,
			build: func(g getter, cons bool, w *wctx) any {
				m := &pb.VrxMsgGossip{}
				var item []byte
				if g("Vertex") == "present" {
					m.Vertex = buildVertex(g, "Vertex.", cons, w)
					item = m.Vertex.Hash
				}
				m.Gossipers = buildGossipers(g, cons, item)
				return m
			},
			call: func(w *wctx, m any) (any, error) {
				return w.n0.Gossip.Server().GossipVrx(bg, m.(*pb.VrxMsgGossip)) // the message is built for this one call
			}},
		{name: "Gossip.GossipTrx", sch: gtS,
			build: func(g getter, cons bool, w *wctx) any {
				m := &pb.TrxMsgGossip{}
				var item []byte
				if g("Trx") == "present" {
					m.Trx = buildTrx(g, "Trx.", cons)
					item = m.Trx.Hash
				}
				m.Gossipers = buildGossipers(g, cons, item)
				return m
			},
			call: func(w *wctx, m any) (any, error) {
				return w.n0.Gossip.Server().GossipTrx(bg, m.(*pb.TrxMsgGossip))
			}},
		shRPC("Gossip.GetVertex", A, "", func(w *wctx, n int) []byte { return fit(w.tip.Hash[:], "65", 0x33) }, nil,
			func(w *wctx, m *pb.SignedHash) (any, error) { return w.n0.Gossip.Server().GetVertex(bg, m) }),

		{name: "Webhooks.Alive", sch: alive, noCons: true,
			build: func(g getter, _ bool, _ *wctx) any { return emptyOf(g) },
			call:  func(w *wctx, m any) (any, error) { return w.wh.Alive(bg, m.(*emptypb.Empty)) }},
		shRPC("Webhooks.Webhooks", A, "", func(w *wctx, n int) []byte { return hookURL(65) }, nil,
			func(w *wctx, m *pb.SignedHash) (any, error) { return w.wh.Webhooks(bg, m) }),

		{name: "Gossip.processLackingParent", sch: pvS, client: true,
			build: func(g getter, cons bool, w *wctx) any {
				if g("Vertex") != "present" {
					return (*pb.Vertex)(nil)
				}
				return buildVertex(g, "Vertex.", cons, w)
			},
			prep: func(w *wctx) {
				w.n0.Gossip.SetPeer(world.Cast("M").Addr, "virtual://evil", evil)
			},
			call: func(w *wctx, m any) (any, error) {
				evil.next, evil.armed = m.(*pb.Vertex), true
				// the malicious peer answers with the hash it was asked for whenever its answer carries a 32-byte hash
				// (an answer for another hash may be dropped before any other field is looked at)
				req := pad32(filler(32, 0x41))
				if v := m.(*pb.Vertex); v != nil && len(v.Hash) == 32 {
					req = pad32(v.Hash)
				}
				w.n0.Gossip.ProcessLackingParent(bg, req)
				return nil, nil
			}},
	}
}
