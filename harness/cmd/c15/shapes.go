package main

import (
	"sort"
	"strings"
)

// ---------------------------------------------------------------- alphabets
//
// A shape is one token per field.  Tokens are symbolic ("nil", "31", "valid", ...);
// the builders (build.go) turn a token vector into a protobuf message, either
// RAW (filler bytes of the given length) or CONSISTENT (the same lengths, but the
// content is as meaningful as the lengths allow: real digests, real signatures
// of cast wallets, hashes of objects that exist in the world).

var (
	bytesFull = []string{"nil", "empty", "1", "31", "32", "33", "64", "65"}
	hashRed   = []string{"nil", "31", "32"}
	sigRed    = []string{"nil", "31", "64"}
	dataRed   = []string{"nil", "31", "32"}
	addrFull  = []string{"empty", "valid", "garbage", "key31", "dec1", "dec4", "dec5", "key0", "key33"}
	addrRed   = []string{"empty", "valid", "key31"}
	presFull  = []string{"nil", "present"}
	strFull   = []string{"empty", "normal"}
	intFull   = []string{"0", "1", "max"}
	timeFull  = []string{"0", "valid", "max"}
	listFull  = []string{"nil", "[nil]", "[g]", "[g,nil]", "[n1,g]"}
	listRed   = []string{"nil", "[nil]", "[g]"}
	gaddrFull = []string{"empty", "valid", "garbage", "key31", "self", "dec1", "dec4", "dec5", "key0", "key33"}
	gaddrRed  = []string{"valid", "key31", "self"}
)

type fld struct {
	name   string
	full   []string
	red    []string
	base   string
	parent string          // name of the field that must hold one of okPar for this field to exist
	okPar  map[string]bool // tokens of the parent under which this field exists
}

type block struct {
	name string
	alph map[string][]string // field name -> alphabet inside this block; other fields stay at base
}

type schema struct {
	fields []fld
	blocks []block // used only when the full product exceeds the limit
	idx    map[string]int
	alph   [][]string         // per field: every token met so far (index = compact code)
	code   []map[string]uint8 // per field: token -> compact code
}

func (s *schema) init() *schema {
	s.idx = map[string]int{}
	s.alph = make([][]string, len(s.fields))
	s.code = make([]map[string]uint8, len(s.fields))
	for i, f := range s.fields {
		s.idx[f.name] = i
		s.code[i] = map[string]uint8{}
	}
	return s
}

func (s *schema) encode(i int, tok string) uint8 {
	if c, ok := s.code[i][tok]; ok {
		return c
	}
	c := uint8(len(s.alph[i]))
	s.alph[i] = append(s.alph[i], tok)
	s.code[i][tok] = c
	return c
}

// shape is one token vector in compact form (one code per field).
type shape struct {
	ix     []uint8
	origin string // full | single | pair | block:<name>
	dev    uint8  // number of fields that differ from the base shape
}

func (s *schema) toks(sh shape) []string {
	t := make([]string, len(sh.ix))
	for i, c := range sh.ix {
		t[i] = s.alph[i][c]
	}
	return t
}

func (s *schema) tokAt(sh shape, i int) string { return s.alph[i][sh.ix[i]] }

func (s *schema) shapeOf(tok []string) shape {
	ix := make([]uint8, len(tok))
	for i, t := range tok {
		ix[i] = s.encode(i, t)
	}
	return shape{ix: ix}
}

func (s *schema) fullSize() int {
	n := 1
	for _, f := range s.fields {
		n *= len(f.full)
		if n > 1<<40 {
			return n
		}
	}
	return n
}

// canon blanks the fields whose parent is absent ("-"), so that equivalent vectors coincide.
func (s *schema) canon(t []string) {
	for i, f := range s.fields {
		if f.parent == "" {
			continue
		}
		p := t[s.idx[f.parent]]
		if p == "-" || !f.okPar[p] {
			t[i] = "-"
		}
	}
}

func (s *schema) baseTok() []string {
	t := make([]string, len(s.fields))
	for i, f := range s.fields {
		t[i] = f.base
	}
	return t
}

// enumerate lists the shapes of the schema: the full product when it has at most limit members,
// otherwise base + all single-field sweeps + all pairs (full alphabets) + the declared blocks.
// The list is deterministic and free of duplicates.
func (s *schema) enumerate(limit int) (out []shape, rule string) {
	seen := map[uint64]struct{}{}
	base := s.baseTok()
	c := make([]string, len(s.fields))
	add := func(t []string, origin string) {
		copy(c, t)
		s.canon(c)
		h := uint64(14695981039346656037)
		for _, x := range c {
			for k := 0; k < len(x); k++ {
				h = (h ^ uint64(x[k])) * 1099511628211
			}
			h = (h ^ '|') * 1099511628211
		}
		if _, ok := seen[h]; ok {
			return
		}
		seen[h] = struct{}{}
		dev := 0
		for i := range c {
			if c[i] != base[i] && c[i] != "-" {
				dev++
			}
		}
		sh := s.shapeOf(c)
		sh.origin, sh.dev = origin, uint8(dev)
		out = append(out, sh)
	}
	var product func(fields []int, alph [][]string, cur []string, k int, origin string)
	product = func(fields []int, alph [][]string, cur []string, k int, origin string) {
		if k == len(fields) {
			add(cur, origin)
			return
		}
		for _, a := range alph[k] {
			cur[fields[k]] = a
			product(fields, alph, cur, k+1, origin)
		}
		cur[fields[k]] = base[fields[k]]
	}
	if n := s.fullSize(); n <= limit {
		var fi []int
		var al [][]string
		for i, f := range s.fields {
			fi = append(fi, i)
			al = append(al, f.full)
		}
		product(fi, al, append([]string(nil), base...), 0, "full")
		return out, "full product"
	}
	add(base, "single")
	for i, f := range s.fields {
		product([]int{i}, [][]string{f.full}, append([]string(nil), base...), 0, "single")
	}
	for i := range s.fields {
		for j := i + 1; j < len(s.fields); j++ {
			product([]int{i, j}, [][]string{s.fields[i].full, s.fields[j].full}, append([]string(nil), base...), 0, "pair")
		}
	}
	var names []string
	for _, b := range s.blocks {
		var fi []int
		var al [][]string
		var fn []string
		for n := range b.alph {
			fn = append(fn, n)
		}
		sort.Slice(fn, func(a, c int) bool { return s.idx[fn[a]] < s.idx[fn[c]] })
		for _, n := range fn {
			fi = append(fi, s.idx[n])
			al = append(al, b.alph[n])
		}
		product(fi, al, append([]string(nil), base...), 0, "block:"+b.name)
		names = append(names, b.name)
	}
	return out, "single sweeps + all pairs + blocks{" + strings.Join(names, ",") + "}"
}

// ---------------------------------------------------------------- field groups

func signedHashFields(dataExtra ...string) []fld {
	data := append(append([]string{}, bytesFull...), dataExtra...)
	return []fld{
		{name: "Address", full: addrFull, red: addrRed, base: "valid"},
		{name: "Data", full: data, red: dataRed, base: "32"},
		{name: "Hash", full: bytesFull, red: hashRed, base: "32"},
		{name: "Signature", full: bytesFull, red: sigRed, base: "64"},
	}
}

func par(p string, ok ...string) (string, map[string]bool) {
	m := map[string]bool{}
	for _, o := range ok {
		m[o] = true
	}
	return p, m
}

// trxFields lists the fields of a Transaction message below prefix p; parent is the presence field (or "").
func trxFields(p, parent string) []fld {
	pp, ok := "", map[string]bool(nil)
	if parent != "" {
		pp, ok = par(parent, "present")
	}
	sp, sok := par(p+"Spice", "present")
	return []fld{
		{name: p + "Subject", full: strFull, red: strFull, base: "normal", parent: pp, okPar: ok},
		{name: p + "Data", full: bytesFull, red: dataRed, base: "32", parent: pp, okPar: ok},
		{name: p + "Hash", full: bytesFull, red: hashRed, base: "32", parent: pp, okPar: ok},
		{name: p + "CreatedAt", full: timeFull, red: timeFull, base: "valid", parent: pp, okPar: ok},
		{name: p + "ReceiverAddress", full: addrFull, red: addrRed, base: "valid", parent: pp, okPar: ok},
		{name: p + "IssuerAddress", full: addrFull, red: addrRed, base: "valid", parent: pp, okPar: ok},
		{name: p + "ReceiverSignature", full: bytesFull, red: sigRed, base: "64", parent: pp, okPar: ok},
		{name: p + "IssuerSignature", full: bytesFull, red: sigRed, base: "64", parent: pp, okPar: ok},
		{name: p + "Spice", full: presFull, red: presFull, base: "present", parent: pp, okPar: ok},
		{name: p + "Spice.Currency", full: intFull, red: intFull, base: "0", parent: sp, okPar: sok},
		{name: p + "Spice.SupplementaryCurrency", full: intFull, red: intFull, base: "0", parent: sp, okPar: sok},
	}
}

func vertexFields(p, parent string) []fld {
	pp, ok := "", map[string]bool(nil)
	if parent != "" {
		pp, ok = par(parent, "present")
	}
	fs := []fld{
		{name: p + "SignerPublicAddress", full: addrFull, red: addrRed, base: "valid", parent: pp, okPar: ok},
		{name: p + "CreatedAt", full: timeFull, red: timeFull, base: "valid", parent: pp, okPar: ok},
		{name: p + "Signature", full: bytesFull, red: sigRed, base: "64", parent: pp, okPar: ok},
		{name: p + "Hash", full: bytesFull, red: hashRed, base: "32", parent: pp, okPar: ok},
		{name: p + "LeftParentHash", full: bytesFull, red: hashRed, base: "32", parent: pp, okPar: ok},
		{name: p + "RightParentHash", full: bytesFull, red: hashRed, base: "32", parent: pp, okPar: ok},
		{name: p + "Weight", full: intFull, red: intFull, base: "1", parent: pp, okPar: ok},
		{name: p + "Transaction", full: presFull, red: presFull, base: "present", parent: pp, okPar: ok},
	}
	return append(fs, trxFields(p+"Transaction.", p+"Transaction")...)
}

func gossiperFields() []fld {
	gp, gok := par("Gossipers", "[g]", "[g,nil]", "[n1,g]")
	return []fld{
		{name: "Gossipers", full: listFull, red: listRed, base: "nil"},
		{name: "g.Address", full: gaddrFull, red: gaddrRed, base: "valid", parent: gp, okPar: gok},
		{name: "g.Digest", full: bytesFull, red: hashRed, base: "32", parent: gp, okPar: gok},
		{name: "g.Signature", full: bytesFull, red: sigRed, base: "64", parent: gp, okPar: gok},
	}
}

func redOf(fs []fld, names ...string) map[string][]string {
	m := map[string][]string{}
	want := map[string]bool{}
	for _, n := range names {
		want[n] = true
	}
	for _, f := range fs {
		if len(names) == 0 || want[f.name] {
			m[f.name] = f.red
		}
	}
	return m
}

func fullOf(fs []fld, names ...string) map[string][]string {
	m := map[string][]string{}
	want := map[string]bool{}
	for _, n := range names {
		want[n] = true
	}
	for _, f := range fs {
		if len(names) == 0 || want[f.name] {
			m[f.name] = f.full
		}
	}
	return m
}

func merge(ms ...map[string][]string) map[string][]string {
	out := map[string][]string{}
	for _, m := range ms {
		for k, v := range m {
			out[k] = v
		}
	}
	return out
}

// ---------------------------------------------------------------- schemas

func schemaSignedHash(extra ...string) *schema {
	return (&schema{fields: signedHashFields(extra...)}).init()
}

// schemaTransaction: 11 fields; the full product has 3 932 160 members (after removing the
// amount choices of an absent Spice: 3 932 160 -> 2x8x8x3x4x4x8x8x10), so quick uses singles + pairs +
// the full product over the 3-value reduction (78 732 vectors), thorough adds the full product over all
// byte/address/sub-message fields with the integers and Subject at their base value.
func schemaTransaction(thorough bool) *schema {
	fs := trxFields("", "")
	s := &schema{fields: fs}
	s.blocks = []block{{name: "red3(all fields)", alph: redOf(fs)}}
	if thorough {
		s.blocks = append(s.blocks, block{name: "full(Data,Hash,ReceiverAddress,IssuerAddress,ReceiverSignature,IssuerSignature,Spice)",
			alph: fullOf(fs, "Data", "Hash", "ReceiverAddress", "IssuerAddress", "ReceiverSignature", "IssuerSignature", "Spice")})
	}
	return s.init()
}

func schemaGossipTrx(thorough bool) *schema {
	fs := []fld{{name: "Trx", full: presFull, red: presFull, base: "present"}}
	tf := trxFields("Trx.", "Trx")
	fs = append(fs, tf...)
	gf := gossiperFields()
	fs = append(fs, gf...)
	s := &schema{fields: fs}
	s.blocks = []block{
		{name: "red3(Trx.*)", alph: merge(redOf(tf), map[string][]string{"Trx": presFull})},
		{name: "full(Gossipers,g.*)xfull(Trx.Hash)xTrx.Spice", alph: merge(fullOf(gf), fullOf(tf, "Trx.Hash", "Trx.Spice"))},
	}
	if thorough {
		s.blocks = append(s.blocks,
			block{name: "full(Trx bytes/address/Spice)", alph: fullOf(tf, "Trx.Data", "Trx.Hash", "Trx.ReceiverAddress", "Trx.IssuerAddress", "Trx.ReceiverSignature", "Trx.IssuerSignature", "Trx.Spice")})
	}
	return s.init()
}

// vertexOwn names the fields of the Vertex envelope (without the nested transaction's fields).
func vertexOwn(p string) []string {
	return []string{p + "SignerPublicAddress", p + "CreatedAt", p + "Signature", p + "Hash", p + "LeftParentHash", p + "RightParentHash", p + "Weight", p + "Transaction"}
}

func vertexBlocks(vf []fld, p string, thorough bool) []block {
	bs := []block{
		{name: "red3(" + p + "own)xred3(Transaction.Hash)xTransaction.Spice", alph: merge(redOf(vf, vertexOwn(p)...), redOf(vf, p+"Transaction.Hash", p+"Transaction.Spice"))},
		{name: "red3(" + p + "Transaction.*)", alph: redOf(vf, func() []string {
			var n []string
			for _, f := range trxFields(p+"Transaction.", p+"Transaction") {
				n = append(n, f.name)
			}
			return n
		}()...)},
	}
	if thorough {
		bs = append(bs, block{name: "full(" + p + "own)", alph: fullOf(vf, vertexOwn(p)...)})
	}
	return bs
}

func schemaGossipVrx(thorough bool) *schema {
	fs := []fld{{name: "Vertex", full: presFull, red: presFull, base: "present"}}
	vf := vertexFields("Vertex.", "Vertex")
	fs = append(fs, vf...)
	gf := gossiperFields()
	fs = append(fs, gf...)
	s := &schema{fields: fs}
	s.blocks = vertexBlocks(vf, "Vertex.", thorough)
	s.blocks = append(s.blocks, block{name: "full(Gossipers,g.*)xfull(Vertex.Hash)xVertex.Transaction",
		alph: merge(fullOf(gf), fullOf(vf, "Vertex.Hash", "Vertex.Transaction"))})
	return s.init()
}

// schemaPeerVertex: what a peer returns from GetVertex / streams in LoadDag.
func schemaPeerVertex(thorough, allowNil, trxBlock bool) *schema {
	var fs []fld
	parent := ""
	if allowNil {
		fs = append(fs, fld{name: "Vertex", full: presFull, red: presFull, base: "present"})
		parent = "Vertex"
	}
	vf := vertexFields("Vertex.", parent)
	fs = append(fs, vf...)
	s := &schema{fields: fs}
	s.blocks = vertexBlocks(vf, "Vertex.", thorough)
	if !trxBlock {
		s.blocks = append(s.blocks[:1], s.blocks[2:]...) // without red3(Vertex.Transaction.*)
	}
	return s.init()
}

func schemaConnectionData() *schema {
	return (&schema{fields: []fld{
		{name: "PublicAddress", full: addrFull, red: addrRed, base: "valid"},
		{name: "Url", full: strFull, red: strFull, base: "normal"},
		{name: "CreatedAt", full: intFull, red: intFull, base: "1"},
		{name: "Digest", full: bytesFull, red: hashRed, base: "32"},
		{name: "Signature", full: bytesFull, red: sigRed, base: "64"},
	}}).init()
}

func schemaOne(name string, alph ...string) *schema {
	return (&schema{fields: []fld{{name: name, full: alph, red: alph, base: alph[len(alph)-1]}}}).init()
}
