package main

import (
	"context"
	"fmt"
	"sort"

	"github.com/bartossh/Computantis/src/accountant"
	"github.com/bartossh/Computantis/src/gossip"
	pb "github.com/bartossh/Computantis/src/protobufcompiled"
	"github.com/bartossh/Computantis/src/spice"
	"verif.local/harness/common"
	"verif.local/harness/sched"
	"verif.local/harness/world"
	"verif.local/vsched"
)

// Concurrent part of C15 ("a rejected request leaves the ledger unchanged"): a server answers its RPCs
// concurrently, so the request that is refused may be refused because of a request admitted a moment earlier.
// Two or three requests that cannot all be admitted (two vertices of different sealers carrying the same
// transaction, the same vertex twice, a proposal racing a vertex that carries the proposed transaction) reach the
// real handlers of a fully wired node in every interleaving within the bound; at quiescence the ledger must be the
// one that the admitted request alone produces: the contested transaction is held by exactly one vertex, the index
// names that vertex, every held transaction is indexed, and nothing stays parked.

type c15Conc struct {
	w    *world.LW
	fn   *world.FullNode
	tx   [32]byte
	base int
}

func c15Entry(a *world.Actor, item [32]byte) *pb.Gossiper {
	d, sig := a.Sign(gossip.VerifGossiperMessage(a.Addr, item))
	return &pb.Gossiper{Address: a.Addr, Digest: d[:], Signature: sig}
}

func c15ConcBody(ops []string) func(x *sched.X) {
	return func(x *sched.X) {
		vsched.Quiet(true)
		full := world.GetFullNodes("G")
		fn := full[0]
		w := world.NewLW([]*world.Node{fn.Node}, spice.Melange{Currency: 10}, 0)
		ctx := context.Background()
		fn.ResetServices(ctx)
		vsched.Settle()
		R, A, M, T := world.Cast("R"), world.Cast("A"), world.Cast("M"), world.Cast("T")
		for i := 0; i < 2; i++ {
			if _, err := w.Propose(ctx, 0, w.Tx(fmt.Sprintf("c15b%d", i), R, A, 1, 0)); err != nil {
				panic(err)
			}
			vsched.Settle()
		}
		snap := fn.Book.VerifSnapshot()
		var tip accountant.Vertex
		for _, v := range snap.Vertices {
			if len(snap.Leaves) > 0 && v.Hash == snap.Leaves[0] {
				tip = v
			}
		}
		t := w.Tx("c15contested", R, A, 1, 0)
		v1 := w.Craft(M, t, tip.Hash, tip.Hash, tip.Weight+1)
		v2 := w.Craft(T, t, tip.Hash, tip.Hash, tip.Weight+1)
		msg := func(v accountant.Vertex, by *world.Actor) *pb.VrxMsgGossip {
			c := v
			return &pb.VrxMsgGossip{Vertex: gossip.VerifVertexToProto(&c), Gossipers: []*pb.Gossiper{c15Entry(by, v.Hash)}}
		}
		pt, err := world.TrxToProto(t)
		if err != nil {
			panic(err)
		}
		x.Vars["c"] = &c15Conc{w: w, fn: fn, tx: t.Hash, base: len(snap.Vertices)}
		vsched.Quiet(false)
		res := make([]string, len(ops))
		var hs []*vsched.Handle
		for i, op := range ops {
			i, op := i, op
			hs = append(hs, vsched.GoClient(fmt.Sprintf("T%d-%s", i, op), func() {
				var err error
				switch op {
				case "vrx1":
					_, err = fn.Gossip.Server().GossipVrx(ctx, msg(v1, M))
				case "vrx2":
					_, err = fn.Gossip.Server().GossipVrx(ctx, msg(v2, T))
				case "propose":
					_, err = fn.Notary.Propose(ctx, pt)
				}
				if err != nil {
					res[i] = op + "=refused"
				} else {
					res[i] = op + "=ok"
				}
			}))
		}
		vsched.Join(hs...)
		vsched.Settle()
		vsched.Quiet(true)
		x.Obs = append(x.Obs, res...)
	}
}

func c15ConcOracle(name string) func(x *sched.X, r *vsched.Result) []common.Violation {
	return func(x *sched.X, r *vsched.Result) []common.Violation {
		var out []common.Violation
		if len(r.Panics) > 0 {
			out = append(out, common.Violation{Predicate: "C15.nopanic", Key: "C15.panic/concurrent/" + name, What: name + ": " + r.Panics[0].Value + " in " + r.Panics[0].Where})
			return out
		}
		if !r.RootDone {
			out = append(out, common.Violation{Predicate: "C15.completes", Key: "C15.incomplete/concurrent/" + name, What: name + ": did not complete: " + sched.BlockedSummary(r)})
			return out
		}
		c := x.Vars["c"].(*c15Conc)
		s := c.fn.Book.VerifSnapshot()
		holders := 0
		var holder [32]byte
		for _, v := range append(append([]accountant.Vertex(nil), s.Vertices...), s.Stored...) {
			if v.Transaction.Hash == c.tx {
				holders++
				holder = v.Hash
			}
			if idx, ok := s.TrxIndex[v.Transaction.Hash]; !ok || string(idx) != string(v.Hash[:]) {
				out = append(out, common.Violation{Predicate: "C15.refused-leaves-ledger", Key: "C15.refused-request-changed-ledger/concurrent/index-entry-of-admitted-vertex-lost",
					What: fmt.Sprintf("%s: after all requests returned a vertex of the ledger holds a transaction whose index entry is missing or names another vertex (a refused request undid part of an admitted one)", name)})
			}
		}
		if holders > 1 {
			out = append(out, common.Violation{Predicate: "C15.refused-leaves-ledger", Key: "C15.refused-request-changed-ledger/concurrent/both-admitted",
				What: fmt.Sprintf("%s: %d vertices hold the contested transaction", name, holders)})
		}
		if holders == 1 {
			if idx := s.TrxIndex[c.tx]; string(idx) != string(holder[:]) {
				out = append(out, common.Violation{Predicate: "C15.refused-leaves-ledger", Key: "C15.refused-request-changed-ledger/concurrent/index-entry-of-admitted-vertex-lost",
					What: name + ": the contested transaction is held by one vertex but its index entry is missing or names another vertex"})
			}
		}
		if holders == 0 {
			if _, ok := s.TrxIndex[c.tx]; ok {
				out = append(out, common.Violation{Predicate: "C15.refused-leaves-ledger", Key: "C15.refused-request-changed-ledger/concurrent/ghost-index-entry",
					What: name + ": no vertex holds the contested transaction but an index entry for it stays behind"})
			}
		}
		if len(s.Parked) > 0 {
			out = append(out, common.Violation{Predicate: "C15.refused-leaves-ledger", Key: "C15.refused-request-changed-ledger/concurrent/left-parked",
				What: fmt.Sprintf("%s: %d vertices stay parked although every parent is present", name, len(s.Parked))})
		}
		return out
	}
}

func c15ConcScenarios() map[string]*sched.Scenario {
	m := map[string]*sched.Scenario{}
	opt := vsched.Options{BranchSched: true, BranchData: false, KeyFunc: world.KeyFunc}
	add := func(name string, ops ...string) {
		m[name] = &sched.Scenario{Name: name, Params: []int{0}, Opt: opt, Body: c15ConcBody(ops), Oracle: c15ConcOracle(name),
			Setup:       func() { world.GetFullNodes("G") },
			Interesting: func(x *sched.X, r *vsched.Result) bool { return true }}
	}
	add("GossipVrx||GossipVrx-same-transaction-two-sealers", "vrx1", "vrx2")
	add("GossipVrx||GossipVrx-same-vertex", "vrx1", "vrx1")
	add("Propose||GossipVrx-same-transaction", "propose", "vrx1")
	add("Propose||GossipVrx||GossipVrx", "propose", "vrx1", "vrx2")
	return m
}

// c15ConcPart runs the concurrent scenarios within the tier's bounds and records them in the evidence.
func c15ConcPart(rep *common.Report, procs int) (exhaustive bool, diverged int) {
	scs := c15ConcScenarios()
	pre, sd, shards := 1, 2, 4
	if common.Tier() == "thorough" {
		pre, sd, shards = 3, 4, 16
	}
	var names []string
	for n := range scs {
		names = append(names, n)
	}
	sort.Strings(names)
	var jobs []sched.Job
	for _, n := range names {
		for s := 0; s < shards; s++ {
			jobs = append(jobs, sched.Job{Scenario: n, Preempt: pre, Data: 0, Sched: sd, ShardI: s, ShardN: shards})
		}
	}
	total := 45.0
	if common.Tier() == "thorough" {
		total = 600
	}
	sched.SpreadBudget(jobs, total, procs, 20)
	tot := sched.RunAll(rep, jobs, []string{"C15", "schedworker"}, procs)
	rep.Set("concurrent_executions", tot.Executions)
	rep.Set("concurrent_distinct_outcomes", len(tot.Outcomes))
	rep.Set("concurrent_exhaustive_within_bound", tot.Exhaustive)
	rep.Set("concurrent_caps_hit", tot.Caps)
	rep.Set("concurrent_bound", map[string]any{"preemptions": pre, "schedule_deviations": sd})
	rep.Set("concurrent_per_scenario", tot.PerScenario)
	return tot.Exhaustive, tot.Diverged
}
