// c15 decides property C15: "No request can crash a node".
//
// Driver PRODUCT (DESIGN.md §2, §7 C15): for each of the 18 RPCs of the notary, gossip and webhooks
// services (and for the two client-side paths that consume vertices sent BY a peer) a declared finite
// alphabet of message shapes is enumerated completely and deterministically, each shape in a RAW
// variant (filler bytes) and - where the request carries signed content - a CONSISTENTLY SIGNED
// variant (same lengths, real digests / signatures of the cast wallets / hashes of existing objects,
// so that the code behind the signature check is reached).  Every request is handed to the real
// (instrumented) handler of a fully wired node inside a controlled execution, in two world states:
//
//	S0 = genesis only, no peer        S1 = 2 sealed transfers + 1 awaiting contract + peer N1
//
// Oracle per call: the handler returns (response or error) without panicking - in the calling task or
// in any goroutine it spawned; if it returned an error, the ledger, the orphan buffer, the awaiting
// cache, the peer table and the webhook table of the node are unchanged.
//
// usage: vcheck C15 [-procs N] [-rpc name]        (master)
//
//	vcheck C15 worker <shard> <nshards> [rpc]  (worker: one JSON line for the controlled part, then one for the
//	                                           updateDag client path - real gRPC over bufconn, pass-through mode)
//
// Resource notes: the process-wide nodes pin ~23 GB of untouched virtual memory (bigcache/badger arenas), which
// would keep Go's GC pacer asleep; the workers therefore collect explicitly (RSS stays below 500 MB each).
// The master hands an internal deadline to the workers (common.Deadline: 140 s quick / 21 min thorough); a worker
// that meets it stops and the run is reported with exhaustive=false.
package main

import (
	"bytes"
	"encoding/json"
	"flag"
	"fmt"
	"os"
	"os/exec"
	"runtime"
	"sort"
	"strconv"
	"strings"
	"sync"
	"time"
	"verif.local/harness/sched"

	"google.golang.org/protobuf/proto"

	"github.com/bartossh/Computantis/src/accountant"
	"verif.local/harness/common"
	"verif.local/harness/world"
	"verif.local/vsched"
)

const chunkSize = 1500

type vrec struct {
	Key, Predicate, What string
	Dev, Idx, Count      int
	Witness              map[string]any
}

type rpcStat struct {
	Shapes, Panics, Errors, OK int
	Nontrivial                 int // a signature check passed or the handler answered without error
	ReachedVerifier            int
	Accepted                   int // answered ok and changed the node's state
	Deferred                   int // answered with an error, a correctly signed vertex was parked (by design)
	SameAsRaw                  int // consistent variant identical to the raw one (not offered twice)
	Enumerated                 int // token vectors of the schema
	Rule                       string
}

type wres struct {
	Shard     int
	Err       string
	Stats     map[string]*rpcStat
	Viol      map[string]*vrec
	Samples   []map[string]any
	Runs      int
	Rebuilds  int
	FlashSeen int
	Slow      int // updateDag streams that needed more than 10 s (loaded machine)
	WallS     float64
	Truncated bool // the internal deadline ended this worker early
}

// deadline is handed down by the master (C15_DEADLINE, unix nanoseconds); zero = none.
func deadline() time.Time {
	n, _ := strconv.ParseInt(os.Getenv("C15_DEADLINE"), 10, 64)
	if n == 0 {
		return time.Time{}
	}
	return time.Unix(0, n)
}

func expired(dl time.Time) bool { return !dl.IsZero() && time.Now().After(dl) }

func (r *wres) addViol(v *vrec) {
	if o, ok := r.Viol[v.Key]; ok {
		n := o.Count + v.Count
		if v.Dev < o.Dev || v.Dev == o.Dev && v.Idx < o.Idx {
			r.Viol[v.Key] = v
		}
		r.Viol[v.Key].Count = n
		return
	}
	r.Viol[v.Key] = v
}

func witnessOf(d *rpcDef, st string, sh shape, variant string, extra map[string]any) map[string]any {
	f := map[string]any{}
	base := d.sch.baseTok()
	tok := d.sch.toks(sh)
	for i, fl := range d.sch.fields {
		if tok[i] == "-" {
			continue
		}
		if tok[i] != base[i] || len(d.sch.fields) <= 6 {
			f[fl.name] = tok[i]
		}
	}
	w := map[string]any{"rpc": d.name, "state": st, "variant": variant, "fields_differing_from_valid_base": f, "enumerated_by": sh.origin}
	if len(d.sch.fields) <= 6 {
		delete(w, "fields_differing_from_valid_base")
		w["fields"] = f
	}
	for k, v := range extra {
		w[k] = v
	}
	return w
}

type item struct {
	sh   int
	cons bool
}

// workerMain executes this shard's share of every (rpc, state, shape, variant).
func workerMain(shard, n int, only string) *wres {
	start := time.Now()
	res := &wres{Shard: shard, Stats: map[string]*rpcStat{}, Viol: map[string]*vrec{}}
	thorough := common.Tier() == "thorough"
	full := world.GetFullNodes("G", "N1")
	opt := vsched.Options{KeyFunc: world.KeyFunc, MaxSteps: 1 << 40}
	limit := 200_000
	if thorough {
		limit = 400_000
	}
	global := 0
	sinceGC := 0
	dl := deadline()
	for _, d := range rpcTable(thorough) {
		if only != "" && only != d.name {
			continue
		}
		if os.Getenv("C15_MEM") != "" {
			var ms runtime.MemStats
			runtime.ReadMemStats(&ms)
			fmt.Fprintf(os.Stderr, "MEM before %s: heap=%dMB sys=%dMB objects=%d goroutines=%d runs=%d\n", d.name, ms.HeapAlloc>>20, ms.Sys>>20, ms.HeapObjects, runtime.NumGoroutine(), res.Runs)
		}
		shapes, rule := d.sch.enumerate(limit)
		st := &rpcStat{Enumerated: len(shapes), Rule: rule}
		res.Stats[d.name] = st
		for _, state := range []string{"S0", "S1"} {
			var mine []item
			for i := range shapes {
				if (i+global)%n != shard {
					continue
				}
				mine = append(mine, item{i, false})
				if !d.noCons {
					mine = append(mine, item{i, true})
				}
			}
			global += 5
			i := 0
			single, singleUntil := false, 0 // after a goroutine panic the chunk is re-run one call per execution
			for i < len(mine) {
				if expired(dl) {
					res.Truncated = true
					res.WallS = time.Since(start).Seconds()
					return res
				}
				from := i
				tmp := &wres{Stats: map[string]*rpcStat{d.name: {}}, Viol: map[string]*vrec{}}
				var lastSh shape
				var lastVar string
				started := false
				r := vsched.Run(opt, func() {
					w := buildWorld(full, state)
					if d.prep != nil {
						d.prep(w)
					}
					pre := w.snap()
					ts := tmp.Stats[d.name]
					for k := 0; i < len(mine) && k < chunkSize; k++ {
						it := mine[i]
						i++
						sh := shapes[it.sh]
						g := d.sch.getter(sh)
						variant := "raw"
						msg := d.build(g, it.cons, w)
						if it.cons {
							variant = "consistently-signed"
							raw := d.build(g, false, w)
							if pm, ok := msg.(proto.Message); ok && proto.Equal(pm, raw.(proto.Message)) {
								ts.SameAsRaw++
								continue
							}
						}
						lastSh, lastVar, started = sh, variant, true
						w.n0.Flash.VerifReset()
						c0, ok0 := w.ver.calls, w.ver.ok
						resp, err, pan := safeCall(func() (any, error) { return d.call(w, msg) })
						_ = resp
						if pan == nil {
							vsched.Settle()
						}
						started = false
						ts.Shapes++
						if w.ver.calls > c0 {
							ts.ReachedVerifier++
						}
						passed := w.ver.ok > ok0
						if passed || (pan == nil && err == nil) {
							ts.Nontrivial++
						}
						tmp.FlashSeen += len(w.n0.Flash.VerifDump())
						if pan != nil {
							ts.Panics++
							key := fmt.Sprintf("C15.panic/%s/%s@%s", d.name, pan.class, pan.frame)
							if passed {
								key += "/behind-signature-check"
							}
							note := ""
							if l := tokOf(d, sh, "Gossipers"); (l == "[nil]" || l == "[g,nil]") && strings.HasSuffix(pan.frame, "verifyGossipers") && pan.class == "nil-pointer" {
								note = " (a nil list element: reachable for in-process callers only - protobuf decoding never yields nil elements of a repeated field)"
							}
							tmp.addViol(&vrec{Key: key, Predicate: "C15.no-panic", Dev: int(sh.dev), Idx: it.sh, Count: 1,
								What:    fmt.Sprintf("%s panicked (%s) in %s on a %s request; signature check passed before: %v%s", d.name, pan.value, pan.frame, variant, passed, note),
								Witness: witnessOf(d, state, sh, variant, map[string]any{"panic": pan.value, "frames": pan.frames, "signature_check_passed": passed})})
							tmp.sample(d, state, sh, variant, "PANIC "+pan.class+" in "+pan.frame)
							// A panic in front of the authentication guard (conversion of a request field, no lock held,
							// nothing touched) leaves the world usable: keep it if the observable state is unchanged.
							// (Should a lock have been left behind, the next call blocks, the chunk is re-run one call per
							// fresh world and nothing is mis-attributed.)
							vsched.Settle()
							post := w.snap()
							if passed || len(pre.diff(post)) > 0 || single {
								tmp.Rebuilds++
								return
							}
							continue
						}
						post := w.snap()
						df := pre.diff(post)
						if d.name == "Notary.Data" {
							df = nil // the challenge store is not part of the snapshot; Data has no other effect
						}
						rejected := err != nil || (d.client && !it.cons)
						// a correctly signed vertex whose parents are unknown is parked for later: deferred acceptance
						if rejected && len(df) == 1 && df[0] == "parked" && parkedAllVerify(post) {
							ts.Errors++
							ts.Deferred++
							tmp.Rebuilds++
							return
						}
						switch {
						case rejected && len(df) > 0:
							if err != nil {
								ts.Errors++
							} else {
								ts.OK++
							}
							what := strings.Join(df, "+")
							tmp.addViol(&vrec{Key: fmt.Sprintf("C15.state-changed/%s/%s", d.name, what), Predicate: "C15.rejected-leaves-state", Dev: int(sh.dev), Idx: it.sh, Count: 1,
								What:    fmt.Sprintf("%s refused a %s request (%v) but changed the node's %s", d.name, variant, err, what),
								Witness: witnessOf(d, state, sh, variant, map[string]any{"error": fmt.Sprint(err), "changed": df})})
							tmp.sample(d, state, sh, variant, "refused but changed "+what)
							tmp.Rebuilds++
							return
						case err != nil:
							ts.Errors++
							tmp.sample(d, state, sh, variant, "error: "+err.Error())
						default:
							ts.OK++
							if len(df) > 0 {
								ts.Accepted++
								tmp.sample(d, state, sh, variant, "accepted, changed "+strings.Join(df, "+"))
								tmp.Rebuilds++
								return
							}
							tmp.sample(d, state, sh, variant, "ok")
						}
						if single {
							return
						}
					}
				})
				res.Runs++
				// The process-wide nodes pin ~23 GB of (mostly untouched) cache and badger arenas, so the pacer would let
				// garbage grow by another 23 GB before collecting: collect explicitly every few thousand calls.
				sinceGC += i - from
				if sinceGC >= 6000 {
					t0 := time.Now()
					runtime.GC()
					if os.Getenv("C15_MEM") != "" {
						fmt.Fprintln(os.Stderr, "MEM gc took", time.Since(t0))
					}
					sinceGC = 0
				}
				bad := ""
				switch {
				case r.HorizonHit:
					bad = "step horizon hit"
				case len(r.Fatal) > 0:
					bad = "runtime fatal: " + r.Fatal[0]
				case r.Diverged != "":
					bad = "diverged: " + r.Diverged
				}
				if bad != "" {
					res.Err = fmt.Sprintf("%s/%s: %s", d.name, state, bad)
					return res
				}
				if len(r.Panics) > 0 || !r.RootDone {
					// a goroutine spawned by a handler panicked (or a call never returned): attribute it to one call
					if !single {
						if i > singleUntil {
							singleUntil = i
						}
						i, single = from, true
						continue
					}
					ts := tmp.Stats[d.name]
					if len(r.Panics) > 0 {
						p := r.Panics[0]
						pr := &panicRec{value: p.Value, class: panicClass(p.Value), frame: repoFrame(p.Stack), frames: p.Where}
						if pr.frame == "unknown" || lastVar == "" {
							res.Err = fmt.Sprintf("%s/%s: harness task %s panicked: %s\n%s", d.name, state, p.Task, p.Value, p.Stack)
							return res
						}
						if started { // the call itself never returned to the harness
							ts.Shapes++
							ts.Panics++
						} else { // the call returned and was counted as error/ok: re-classify it as a panic
							ts.Panics++
							if ts.Errors > 0 {
								ts.Errors--
							} else if ts.OK > 0 {
								ts.OK--
							}
						}
						key := fmt.Sprintf("C15.panic/%s/%s@%s", d.name, pr.class, pr.frame)
						tmp.addViol(&vrec{Key: key, Predicate: "C15.no-panic", Dev: int(lastSh.dev), Idx: mine[from].sh, Count: 1,
							What:    fmt.Sprintf("a goroutine spawned by %s (task %s) panicked (%s) in %s on a %s request", d.name, p.Task, pr.value, pr.frame, lastVar),
							Witness: witnessOf(d, state, lastSh, lastVar, map[string]any{"panic": pr.value, "frames": pr.frames, "task": p.Task})})
					} else {
						if !started {
							res.Err = fmt.Sprintf("%s/%s: controlled execution did not finish outside a call: %+v", d.name, state, r.Blocked)
							return res
						}
						ts.Shapes++
						ts.Panics++
						var where []string
						for _, b := range r.Blocked {
							if b.Class != vsched.Daemon {
								where = append(where, b.Task+" blocked in "+b.Op+" "+b.Obj+" at "+b.Where)
							}
						}
						tmp.addViol(&vrec{Key: fmt.Sprintf("C15.blocked/%s", d.name), Predicate: "C15.returns", Dev: int(lastSh.dev), Idx: mine[from].sh, Count: 1,
							What:    fmt.Sprintf("%s never returned on a %s request: %s", d.name, lastVar, strings.Join(where, "; ")),
							Witness: witnessOf(d, state, lastSh, lastVar, map[string]any{"blocked": where})})
					}
					tmp.Rebuilds++
				}
				// commit the chunk
				ts := tmp.Stats[d.name]
				st.Shapes += ts.Shapes
				st.Panics += ts.Panics
				st.Errors += ts.Errors
				st.OK += ts.OK
				st.Nontrivial += ts.Nontrivial
				st.ReachedVerifier += ts.ReachedVerifier
				st.Accepted += ts.Accepted
				st.Deferred += ts.Deferred
				st.SameAsRaw += ts.SameAsRaw
				res.Rebuilds += tmp.Rebuilds
				res.FlashSeen += tmp.FlashSeen
				for _, v := range tmp.Viol {
					res.addViol(v)
				}
				for _, s := range tmp.Samples {
					res.keepSample(s)
				}
				if single && i >= singleUntil {
					single = false
				}
			}
		}
	}
	res.WallS = time.Since(start).Seconds()
	return res
}

func tokOf(d *rpcDef, sh shape, name string) string {
	if i, ok := d.sch.idx[name]; ok {
		return d.sch.tokAt(sh, i)
	}
	return ""
}

func parkedAllVerify(s snap) bool {
	for i := range s.parkedV {
		v := s.parkedV[i].Vertex
		if (&v).VerifVerify(world.SharedVerifier) != nil {
			return false
		}
	}
	return len(s.parkedV) > 0
}

var _ = accountant.ErrUnexpected

// sample keeps one explored case per (rpc, outcome class).
func (r *wres) sample(d *rpcDef, state string, sh shape, variant, outcome string) {
	cls := "ok"
	for _, c := range []string{"PANIC", "error", "accepted", "refused"} {
		if strings.HasPrefix(outcome, c) {
			cls = c
		}
	}
	k := d.name + "|" + cls
	for _, s := range r.Samples {
		if s["_k"] == k {
			return
		}
	}
	w := witnessOf(d, state, sh, variant, map[string]any{"outcome": outcome})
	w["_k"] = k
	r.Samples = append(r.Samples, w)
}

func (r *wres) keepSample(s map[string]any) {
	for _, o := range r.Samples {
		if o["_k"] == s["_k"] {
			return
		}
	}
	r.Samples = append(r.Samples, s)
}

// ---------------------------------------------------------------- master

// runWorker runs one worker process and returns the result lines it printed (controlled part, updateDag part).
func runWorker(self string, args []string, want int, dl time.Time) []*wres {
	cmd := exec.Command(self, args...)
	cmd.Env = append(os.Environ(), "GOMAXPROCS=1", "C15_DEADLINE="+strconv.FormatInt(dl.UnixNano(), 10))
	var stderr bytes.Buffer
	cmd.Stderr = &stderr
	var out bytes.Buffer
	cmd.Stdout = &out
	runErr := cmd.Run()
	var rs []*wres
	for _, line := range bytes.Split(out.Bytes(), []byte{'\n'}) {
		if len(line) > 0 && line[0] == '{' {
			var x wres
			if json.Unmarshal(line, &x) == nil {
				rs = append(rs, &x)
			}
		}
	}
	var keep []string
	for _, l := range strings.Split(stderr.String(), "\n") {
		if l != "" && !strings.HasPrefix(l, "badger ") {
			keep = append(keep, l)
		}
	}
	errText := strings.Join(keep, "\n")
	switch {
	case len(rs) == 0 || rs[len(rs)-1].Err != "":
		if len(rs) == 0 {
			rs = append(rs, &wres{Err: fmt.Sprintf("no result (%v): %s", runErr, tail(errText, 3000))})
		}
	case len(rs) < want:
		// the controlled part finished, the process died in the pass-through part: an uncontrolled goroutine of the
		// sync path panicked - that is a finding, not a harness error
		rs = append(rs, crashResult(errText, runErr))
	default:
		if errText != "" {
			os.Stderr.WriteString(tail(errText, 2000) + "\n")
		}
	}
	return rs
}

func main() {
	if len(os.Args) < 2 || os.Args[1] != "C15" {
		fmt.Fprintln(os.Stderr, "usage: vcheck C15 [-procs N] [-rpc name]")
		os.Exit(2)
	}
	args := os.Args[2:]
	if len(args) >= 1 && args[0] == "schedworker" {
		sched.WorkerMain(c15ConcScenarios())
		return
	}
	if len(args) >= 3 && args[0] == "worker" {
		shard, _ := strconv.Atoi(args[1])
		n, _ := strconv.Atoi(args[2])
		only := ""
		if len(args) > 3 {
			only = args[3]
		}
		if only != updName {
			r := workerMain(shard, n, only)
			b, _ := json.Marshal(r)
			os.Stdout.Write(append(b, '\n'))
			if r.Err != "" {
				return
			}
		}
		if only == "" || only == updName {
			// client path updateDag: real gRPC over bufconn, outside the controlled runtime, after all controlled executions
			r := bufconnMain(shard, n)
			b, _ := json.Marshal(r)
			os.Stdout.Write(append(b, '\n'))
		}
		return
	}
	fs := flag.NewFlagSet("C15", flag.ExitOnError)
	procs := fs.Int("procs", min(runtime.NumCPU(), 16), "worker processes")
	only := fs.String("rpc", "", "only this entry point, e.g. Gossip.GossipVrx (debugging; the run is then not exhaustive)")
	replayF := fs.String("replay", "", "violation artefact: re-run the check and report whether its key is still produced")
	fs.Parse(args)
	if *replayF != "" {
		if b, err := os.ReadFile(*replayF); err == nil && strings.Contains(string(b), "\"scenario\"") {
			os.Exit(sched.ReplayFile("C15", c15ConcScenarios(), *replayF))
		}
		if err := common.ReplayByRerun(*replayF); err != nil {
			fmt.Fprintln(os.Stderr, err)
			os.Exit(2)
		}
	}
	if *procs < 1 {
		*procs = 1
	}
	thorough := common.Tier() == "thorough"
	rep := common.NewReport("C15", "exploration")
	self, err := os.Executable()
	if err != nil {
		fmt.Fprintln(os.Stderr, "C15:", err)
		os.Exit(2)
	}
	dl := common.Deadline(140*time.Second, 21*time.Minute) // internal budget: the run then ends with exhaustive=false
	var results []*wres
	var mu sync.Mutex
	var wg sync.WaitGroup
	for s := 0; s < *procs; s++ {
		s := s
		wg.Add(1)
		go func() {
			defer wg.Done()
			wa := []string{"C15", "worker", strconv.Itoa(s), strconv.Itoa(*procs)}
			want := 2
			if *only != "" {
				wa = append(wa, *only)
				want = 1
			}
			rs := runWorker(self, wa, want, dl)
			mu.Lock()
			defer mu.Unlock()
			for _, r := range rs {
				r.Shard = s
				results = append(results, r)
			}
		}()
	}
	wg.Wait()

	broken := false
	stats := map[string]*rpcStat{}
	viol := map[string]*vrec{}
	merged := &wres{Viol: viol}
	runs, rebuilds, flash, truncated, slow := 0, 0, 0, 0, 0
	var maxWall float64
	wallBy := map[int]float64{}
	for _, r := range results {
		if r.Err != "" {
			fmt.Fprintf(os.Stderr, "C15: worker %d: %s\n", r.Shard, r.Err)
			broken = true
			continue
		}
		if r.Truncated {
			truncated++
		}
		runs += r.Runs
		rebuilds += r.Rebuilds
		flash += r.FlashSeen
		slow += r.Slow
		wallBy[r.Shard] += r.WallS
		if wallBy[r.Shard] > maxWall {
			maxWall = wallBy[r.Shard]
		}
		for k, s := range r.Stats {
			o := stats[k]
			if o == nil {
				o = &rpcStat{Enumerated: s.Enumerated, Rule: s.Rule}
				stats[k] = o
			}
			if o.Enumerated != s.Enumerated {
				fmt.Fprintf(os.Stderr, "C15: worker %d enumerated %d shapes of %s, another worker %d (generator not deterministic)\n", r.Shard, s.Enumerated, k, o.Enumerated)
				broken = true
			}
			o.Shapes += s.Shapes
			o.Panics += s.Panics
			o.Errors += s.Errors
			o.OK += s.OK
			o.Nontrivial += s.Nontrivial
			o.ReachedVerifier += s.ReachedVerifier
			o.Accepted += s.Accepted
			o.Deferred += s.Deferred
			o.SameAsRaw += s.SameAsRaw
		}
		for _, v := range r.Viol {
			merged.addViol(v)
		}
		for _, s := range r.Samples {
			merged.keepSample(s)
		}
	}
	if broken {
		fmt.Fprintln(os.Stderr, "C15: run incomplete, no verdict")
		os.Exit(2)
	}

	var keys []string
	for k := range viol {
		keys = append(keys, k)
	}
	sort.Strings(keys)
	for _, k := range keys {
		v := viol[k]
		for i := 0; i < v.Count; i++ {
			rep.Add(common.Violation{Predicate: v.Predicate, Key: v.Key, What: v.What, Scenario: "PRODUCT shape of a request (or of a peer's answer) handed to the real handler of a fully wired node", Witness: v.Witness})
		}
	}

	evals, nontrivial, reached, accepted, deferred, same := 0, 0, 0, 0, 0, 0
	exhaustive := *only == "" && truncated == 0
	if truncated > 0 {
		fmt.Fprintf(os.Stderr, "C15: internal deadline reached, %d worker parts stopped early: the enumeration is NOT complete (exhaustive=false)\n", truncated)
	}
	perRPC := map[string]any{}
	var names []string
	for k := range stats {
		names = append(names, k)
	}
	sort.Strings(names)
	var rules []string
	for _, k := range names {
		s := stats[k]
		evals += s.Shapes
		nontrivial += s.Nontrivial
		reached += s.ReachedVerifier
		accepted += s.Accepted
		deferred += s.Deferred
		same += s.SameAsRaw
		if s.Shapes != s.Panics+s.Errors+s.OK {
			fmt.Fprintf(os.Stderr, "C15: %s: %d shapes but %d panics + %d errors + %d ok\n", k, s.Shapes, s.Panics, s.Errors, s.OK)
			os.Exit(2)
		}
		perRPC[k] = map[string]any{"shapes": s.Shapes, "panics": s.Panics, "errors": s.Errors, "ok": s.OK, "token_vectors": s.Enumerated,
			"past_first_guard": s.Nontrivial, "reached_signature_check": s.ReachedVerifier, "accepted_with_state_change": s.Accepted, "consistent_variant_identical_to_raw": s.SameAsRaw, "enumeration": s.Rule}
		rules = append(rules, k+": "+s.Rule)
	}
	// samples: variety of outcomes over the more interesting entry points
	pref := []string{"Gossip.GossipVrx", "Notary.Propose", "Notary.Saved", "Gossip.updateDag", "Notary.Confirm", "Gossip.GossipTrx", "Gossip.processLackingParent", "Gossip.Announce", "Webhooks.Webhooks", "Notary.Reject"}
	used := map[string]bool{}
	for _, cls := range []string{"PANIC", "accepted", "error", "ok", "refused"} {
		n := 0
		for _, name := range append(pref, names...) {
			for _, s := range merged.Samples {
				if s["_k"] == name+"|"+cls && !used[name] && n < 2 && rep.SampleCount() < 8 {
					used[name] = true
					n++
					c := map[string]any{}
					for k, v := range s {
						if k != "_k" {
							c[k] = v
						}
					}
					rep.Sample(c)
				}
			}
		}
	}

	rep.Set("evaluations", evals)
	rep.Set("distinct_nontrivial", nontrivial)
	rep.Set("reached_signature_check", reached)
	rep.Set("accepted_with_state_change", accepted)
	rep.Set("deferred_parked_correctly_signed_vertex", deferred)
	rep.Set("consistent_variants_identical_to_raw_not_offered_twice", same)
	rep.Set("exhaustive", exhaustive)
	rep.Set("worker_parts_stopped_by_internal_deadline", truncated)
	rep.Set("per_rpc", perRPC)
	rep.Set("entry_points", len(names))
	rep.Set("world_states", []string{"S0: genesis only, no peer", "S1: genesis + 2 sealed transfers (R->A 6, R->B 3) + two awaiting contracts A->B proposed through Notary.Propose (one of them also moves 2^64-1 units, which A cannot afford) + peer N1 wired and in sync"})
	rep.Set("controlled_executions", runs)
	rep.Set("world_rebuilds_after_panic_or_state_change", rebuilds)
	rep.Set("flashback_entries_recorded_exempt", flash)
	rep.Set("updateDag_streams_slower_than_10s", slow)
	rep.Set("workers", *procs)
	rep.Set("worker_wall_s_max", maxWall)
	tierNote := "quick: a schema whose full product has more than 200 000 members is covered by the valid base + every single-field sweep + every pair of fields over the full alphabets + the listed blocks (a block is the full product over the named fields with the named alphabets - red3 = {nil,31 bytes,exact} for bytes, {empty,valid,valid-checksum-31-byte-key} for addresses, all values otherwise - with all other fields valid)"
	if thorough {
		tierNote = "thorough: limit 400 000 for the plain full product; larger schemas use base + singles + all pairs + the listed blocks, which add the full 8-length product over all bytes/address/sub-message fields of a transaction and over the own fields of a vertex"
	}
	rep.Set("rule", "PRODUCT driver, complete and deterministic (no sampling). Per entry point a message schema = fields with alphabets: bytes {nil, empty, 1, 31, 32, 33, 64, 65 bytes} (+ the identity challenge for Waiting/TransactionsInDAG, + the address bytes for Balance, + the hash of the unaffordable awaiting contract for Reject); sub-messages (Transaction.Spice, Vertex.Transaction, VrxMsgGossip.Vertex, TrxMsgGossip.Trx, the peer's answer) {nil, present}; gossiper list {absent, [nil], [g], [g,nil], [correct N1 entry, g]} with g.Address in {empty, valid, garbage, valid-checksum-31-byte-key, the node's own address}; addresses {empty, valid cast address, garbage, valid checksum over a 31-byte key}; Subject/Url {empty, normal}; integers {0, 1 (or the valid value), 2^64-1}. "+
		"Every token vector is built RAW (filler bytes) and CONSISTENTLY SIGNED (same lengths; digests are real sha256 digests cut/extended to the length, signatures real ed25519 signatures of the cast wallets cut/extended, Data/parents are hashes of existing objects cut/extended; an absent Spice is signed as 0/0); a consistent variant equal to its raw variant is not offered twice. Each message is handed once to the real handler in S0 and in S1 inside a controlled execution (deterministic schedule, spawned goroutines run to quiescence after the call; the flashback memory is emptied before every call so that calls are independent). "+
		tierNote+". evaluations = handler calls (requests, and for the two client-side paths answers of a malicious peer). distinct_nontrivial = number of distinct (entry point, state, message) for which at least one signature check requested by the service passed during the call or the handler answered without error - i.e. the request got past the handler's authentication guard (for the two client-side paths, which have no authentication guard of their own: the peer's vertex survived the wire-to-domain conversion and was handed to the ledger). Enumeration per entry point: "+strings.Join(rules, "; "))
	rep.Assume("the instrumented copy built by bin/check differs from the repository only in scheduling hooks; every violation key is re-executed on the un-instrumented packages during triage")
	rep.Assume("requests are non-nil messages (gRPC never hands a nil request to a handler); field contents other than length/presence/validity classes (e.g. particular byte values) are not varied")
	rep.Assume("flashback memory (duplicate suppression / throttling) is exempt from the unchanged-state oracle: HasHash/HasAddress record the key by design; Notary.Data stores a challenge by design; a correctly signed vertex with unknown parents is parked by design")
	rep.Assume("Announce/Discover dial the announced URL with insecure credentials and a dialer that always fails (grpc.Dial is lazy; no socket is opened); the announcer is wallet A, never a wired stub peer (stub peers have no *grpc.ClientConn to close)")
	rep.Assume("client path updateDag is exercised with real gRPC over an in-process bufconn listener outside the controlled runtime (pass-through mode) with a 60 s watchdog per stream; processLackingParent is exercised inside the controlled runtime with a malicious GossipAPIClient installed in the peer table")
	rep.Assume("one call at a time on the non-pre-emptive default schedule; after a panic, a refused-but-changed or an accepted state-changing request the world is rebuilt")
	if *only == "" {
		ex, div := c15ConcPart(rep, *procs)
		if !ex {
			rep.Set("concurrent_note", "concurrent part capped by its budget; the PRODUCT part is unaffected")
		}
		if div > 0 {
			fmt.Fprintf(os.Stderr, "C15: %d executions of the concurrent part diverged\n", div)
			rep.Finish()
			os.Exit(2)
		}
	}
	os.Exit(rep.Finish())
}
