package main

import (
	"crypto/sha256"
	"math"
	"strconv"
	"time"

	"github.com/bartossh/Computantis/src/accountant"
	"github.com/bartossh/Computantis/src/gossip"
	pb "github.com/bartossh/Computantis/src/protobufcompiled"
	"github.com/bartossh/Computantis/src/serializer"
	"github.com/bartossh/Computantis/src/spice"
	"github.com/bartossh/Computantis/src/transaction"
	"verif.local/harness/world"
)

// ---------------------------------------------------------------- token -> content

func filler(n int, salt byte) []byte {
	b := make([]byte, n)
	for i := range b {
		b[i] = byte(i*7+3) ^ salt
		if b[i] == 0 {
			b[i] = 0x5a
		}
	}
	return b
}

// rawBytes: filler content of the token's length.
func rawBytes(tok string, salt byte) []byte {
	switch tok {
	case "nil", "-":
		return nil
	case "empty":
		return []byte{}
	}
	n, err := strconv.Atoi(tok)
	if err != nil {
		panic("c15: not a length token: " + tok)
	}
	return filler(n, salt)
}

// fit: the real value cut or extended (with filler) to the token's length.
func fit(real []byte, tok string, salt byte) []byte {
	switch tok {
	case "nil", "-":
		return nil
	case "empty":
		return []byte{}
	}
	n, err := strconv.Atoi(tok)
	if err != nil {
		panic("c15: not a length token: " + tok)
	}
	if n <= len(real) {
		return append([]byte{}, real[:n]...)
	}
	return append(append([]byte{}, real...), filler(n-len(real), salt)...)
}

func pad32(b []byte) (h [32]byte) {
	copy(h[:], b)
	return
}

var key31Addr = func() string {
	// an address whose checksum is valid but whose key is 31 bytes long (built like wallet.Address())
	key := filler(31, 0x21)
	vers := append([]byte{0x00}, key...)
	a := sha256.Sum256(vers)
	b := sha256.Sum256(a[:])
	return string(serializer.Base58Encode(append(vers, b[:4]...)))
}()

const garbageAddr = "not-an-address-!!0OIl"

// checksummedAddr builds an address with a valid checksum over version 0x00 and a key of n bytes.
func checksummedAddr(n int) string {
	vers := append([]byte{0x00}, filler(n, 0x21)...)
	a := sha256.Sum256(vers)
	b := sha256.Sum256(a[:])
	return string(serializer.Base58Encode(append(vers, b[:4]...)))
}

// addresses at the decoder's length boundaries: base58 strings that decode to 1, 4 and 5 bytes (a leading '1' is a
// zero byte), and checksummed addresses over a key of 0 and of 33 bytes
var shortAddrs = map[string]string{"dec1": "1", "dec4": "1111", "dec5": "11111", "key0": checksummedAddr(0), "key33": checksummedAddr(33)}

func addrOf(tok string, valid *world.Actor) string {
	switch tok {
	case "empty", "-":
		return ""
	case "valid":
		return valid.Addr
	case "garbage":
		return garbageAddr
	case "key31":
		return key31Addr
	case "self":
		return world.Cast("G").Addr
	}
	if a, ok := shortAddrs[tok]; ok {
		return a
	}
	panic("c15: address token " + tok)
}

func intOf(tok string) uint64 {
	switch tok {
	case "0", "-":
		return 0
	case "1":
		return 1
	case "max":
		return math.MaxUint64
	}
	panic("c15: int token " + tok)
}

var trxTime = uint64(world.BaseTime.Add(1500 * time.Millisecond).UnixNano())
var vrxTime = uint64(world.BaseTime.Add(time.Hour + time.Second).UnixNano())

func timeOf(tok string, valid uint64) uint64 {
	switch tok {
	case "0", "-":
		return 0
	case "valid":
		return valid
	case "max":
		return math.MaxUint64
	}
	panic("c15: time token " + tok)
}

// getter reads the token of a field by name.
type getter func(name string) string

func (s *schema) getter(sh shape) getter {
	return func(name string) string {
		i, ok := s.idx[name]
		if !ok {
			panic("c15: unknown field " + name)
		}
		return s.tokAt(sh, i)
	}
}

// ---------------------------------------------------------------- Transaction

// buildTrx builds the Transaction below prefix p.  Issuer = A, receiver = B when "valid".
func buildTrx(g getter, p string, cons bool) *pb.Transaction {
	A, B := world.Cast("A"), world.Cast("B")
	t := &pb.Transaction{
		Data:            rawBytes(g(p+"Data"), 0x11),
		CreatedAt:       timeOf(g(p+"CreatedAt"), trxTime),
		ReceiverAddress: addrOf(g(p+"ReceiverAddress"), B),
		IssuerAddress:   addrOf(g(p+"IssuerAddress"), A),
	}
	if g(p+"Subject") == "normal" {
		t.Subject = "c15-subject"
	}
	var sp spice.Melange
	if g(p+"Spice") == "present" {
		t.Spice = &pb.Spice{Currency: intOf(g(p + "Spice.Currency")), SupplementaryCurrency: intOf(g(p + "Spice.SupplementaryCurrency"))}
		sp = spice.Melange{Currency: t.Spice.Currency, SupplementaryCurrency: t.Spice.SupplementaryCurrency}
	}
	if !cons {
		t.Hash = rawBytes(g(p+"Hash"), 0x12)
		t.ReceiverSignature = rawBytes(g(p+"ReceiverSignature"), 0x13)
		t.IssuerSignature = rawBytes(g(p+"IssuerSignature"), 0x14)
		return t
	}
	// consistently signed: the message the node will reconstruct (absent Spice counts as 0/0)
	dt := transaction.Transaction{CreatedAt: time.Unix(0, int64(t.CreatedAt)), IssuerAddress: t.IssuerAddress, ReceiverAddress: t.ReceiverAddress,
		Subject: t.Subject, Data: t.Data, Spice: sp}
	msg := dt.GetMessage()
	digest := sha256.Sum256(msg)
	t.Hash = fit(digest[:], g(p+"Hash"), 0x12)
	if g(p+"IssuerAddress") == "valid" {
		_, sig := A.Sign(msg)
		t.IssuerSignature = fit(sig, g(p+"IssuerSignature"), 0x14)
	} else {
		t.IssuerSignature = rawBytes(g(p+"IssuerSignature"), 0x14)
	}
	if g(p+"ReceiverAddress") == "valid" {
		_, sig := B.Sign(msg)
		t.ReceiverSignature = fit(sig, g(p+"ReceiverSignature"), 0x13)
	} else {
		t.ReceiverSignature = rawBytes(g(p+"ReceiverSignature"), 0x13)
	}
	return t
}

// ---------------------------------------------------------------- Vertex

// buildVertex builds the Vertex below prefix p. Sealer = N1 when "valid"; in the consistent variant the
// parents are the current tip of the node under test and the weight token "1" means tip weight + 1.
func buildVertex(g getter, p string, cons bool, w *wctx) *pb.Vertex {
	N1 := world.Cast("N1")
	v := &pb.Vertex{
		SignerPublicAddress: addrOf(g(p+"SignerPublicAddress"), N1),
		CreatedAt:           timeOf(g(p+"CreatedAt"), vrxTime),
		Weight:              intOf(g(p + "Weight")),
	}
	if g(p+"Transaction") == "present" {
		v.Transaction = buildTrx(g, p+"Transaction.", cons)
	}
	if !cons {
		v.Signature = rawBytes(g(p+"Signature"), 0x15)
		v.Hash = rawBytes(g(p+"Hash"), 0x16)
		v.LeftParentHash = rawBytes(g(p+"LeftParentHash"), 0x17)
		v.RightParentHash = rawBytes(g(p+"RightParentHash"), 0x18)
		return v
	}
	if g(p+"Weight") == "1" {
		v.Weight = w.tip.Weight + 1
	}
	v.LeftParentHash = fit(w.tip.Hash[:], g(p+"LeftParentHash"), 0x17)
	v.RightParentHash = fit(w.tip.Hash[:], g(p+"RightParentHash"), 0x18)
	av := accountant.Vertex{CreatedAt: time.Unix(0, int64(v.CreatedAt)), LeftParentHash: pad32(v.LeftParentHash), RightParentHash: pad32(v.RightParentHash), Weight: v.Weight}
	if v.Transaction != nil {
		av.Transaction.Hash = pad32(v.Transaction.Hash)
	}
	digest, sig := N1.Sign(av.VerifDigestInput())
	v.Hash = fit(digest[:], g(p+"Hash"), 0x16)
	if g(p+"SignerPublicAddress") == "valid" {
		v.Signature = fit(sig, g(p+"Signature"), 0x15)
	} else {
		v.Signature = rawBytes(g(p+"Signature"), 0x15)
	}
	return v
}

// ---------------------------------------------------------------- gossiper list

// buildGossipers builds the repeated Gossiper field for the given item hash bytes.
func buildGossipers(g getter, cons bool, item []byte) []*pb.Gossiper {
	list := g("Gossipers")
	if list == "nil" || list == "-" {
		return nil
	}
	if list == "[nil]" {
		return []*pb.Gossiper{nil}
	}
	M, N1, G := world.Cast("M"), world.Cast("N1"), world.Cast("G")
	e := &pb.Gossiper{Address: addrOf(g("g.Address"), M)}
	if !cons {
		e.Digest = rawBytes(g("g.Digest"), 0x19)
		e.Signature = rawBytes(g("g.Signature"), 0x1a)
	} else {
		msg := gossip.VerifGossiperMessage(e.Address, pad32(item))
		digest := sha256.Sum256(msg)
		e.Digest = fit(digest[:], g("g.Digest"), 0x19)
		switch g("g.Address") {
		case "valid":
			_, sig := M.Sign(msg)
			e.Signature = fit(sig, g("g.Signature"), 0x1a)
		case "self":
			_, sig := G.Sign(msg)
			e.Signature = fit(sig, g("g.Signature"), 0x1a)
		default:
			e.Signature = rawBytes(g("g.Signature"), 0x1a)
		}
	}
	switch list {
	case "[g]":
		return []*pb.Gossiper{e}
	case "[g,nil]":
		return []*pb.Gossiper{e, nil}
	case "[n1,g]":
		// a correctly signed entry of the peer N1 in front
		msg := gossip.VerifGossiperMessage(N1.Addr, pad32(item))
		digest, sig := N1.Sign(msg)
		return []*pb.Gossiper{{Address: N1.Addr, Digest: digest[:], Signature: sig}, e}
	}
	panic("c15: list token " + list)
}

// ---------------------------------------------------------------- SignedHash

// buildSignedHash: requester `who` when "valid"; `real` is the meaningful content for the Data field
// (hash of an existing object, URL, ...), `special` maps extra Data tokens to their content.
func buildSignedHash(g getter, cons bool, who *world.Actor, real []byte, special map[string][]byte) *pb.SignedHash {
	m := &pb.SignedHash{Address: addrOf(g("Address"), who)}
	dt := g("Data")
	if sp, ok := special[dt]; ok {
		m.Data = sp
		if dt == "addr" {
			m.Data = []byte(m.Address)
		}
	} else if cons && real != nil {
		m.Data = fit(real, dt, 0x1b)
	} else {
		m.Data = rawBytes(dt, 0x1b)
	}
	if !cons {
		m.Hash = rawBytes(g("Hash"), 0x1c)
		m.Signature = rawBytes(g("Signature"), 0x1d)
		return m
	}
	digest := sha256.Sum256(m.Data)
	m.Hash = fit(digest[:], g("Hash"), 0x1c)
	if g("Address") == "valid" {
		_, sig := who.Sign(m.Data)
		m.Signature = fit(sig, g("Signature"), 0x1d)
	} else {
		m.Signature = rawBytes(g("Signature"), 0x1d)
	}
	return m
}

// ---------------------------------------------------------------- ConnectionData

const peerURL = "passthrough:///c15-peer"

func buildConnectionData(g getter, cons bool) *pb.ConnectionData {
	A := world.Cast("A")
	m := &pb.ConnectionData{PublicAddress: addrOf(g("PublicAddress"), A), CreatedAt: intOf(g("CreatedAt"))}
	if g("Url") == "normal" {
		m.Url = peerURL
	}
	if !cons {
		m.Digest = rawBytes(g("Digest"), 0x1e)
		m.Signature = rawBytes(g("Signature"), 0x1f)
		return m
	}
	data := gossip.VerifConnectionData(m.PublicAddress, m.Url, m.CreatedAt)
	digest := sha256.Sum256(data)
	m.Digest = fit(digest[:], g("Digest"), 0x1e)
	if g("PublicAddress") == "valid" {
		_, sig := A.Sign(data)
		m.Signature = fit(sig, g("Signature"), 0x1f)
	} else {
		m.Signature = rawBytes(g("Signature"), 0x1f)
	}
	return m
}
