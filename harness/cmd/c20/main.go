// c20 decides property C20: "A wallet file yields the original wallet or an
// error, never anything else".
//
// Driver PRODUCT used as fault enumeration (DESIGN.md §2, §7 C20): the declared
// finite fault alphabet is enumerated completely against the real
// fileoperations.Helper.SaveWallet/ReadWallet/SaveToPem/ReadFromPem and
// aeswrapper.Helper.Decrypt:
//
//	3 wallets (fixed seeds) x {16,32}-byte AES keys (fixed) = 6 saved files, and per file
//	  - every truncation length 0..len-1        (all crash points of the one os.WriteFile)
//	  - every single-byte corruption            (quick: 8 bit flips + 0x00 + 0xFF per position,
//	                                             thorough: all 255 other values per position)
//	  - every single-bit flip of the key        (128 / 256 variants)
//	  - 8 unrelated fixed keys
//	  - every strict prefix handed to aeswrapper.Decrypt directly (exact capacity and
//	    spare capacity, because data[:12] only panics when cap(data) < 12)
//	plus the GOB and PEM round trips.
//
// Oracle: a faulty read returns an error; a strict prefix or a wrong key that
// yields any wallet, a corruption that yields a different wallet, and every
// panic are violations.  Nothing is sampled; the only randomness is the GCM
// nonce drawn by the library when the six files are saved (each saved file is
// one fixed history, its bytes are stored in every witness).
//
// usage: vcheck C20 [--replay <file>]
package main

import (
	"bytes"
	"crypto/ed25519"
	"crypto/sha256"
	"encoding/hex"
	"encoding/json"
	"errors"
	"fmt"
	"os"
	"path/filepath"
	"regexp"
	"runtime"
	"sort"
	"strings"
	"sync"
	"sync/atomic"
	"time"
	"verif.local/harness/sched"

	"github.com/bartossh/Computantis/src/aeswrapper"
	"github.com/bartossh/Computantis/src/fileoperations"
	"github.com/bartossh/Computantis/src/wallet"
	"verif.local/harness/common"
)

const (
	nonceLen = 12 // aeswrapper.nonceSize
	tagLen   = 16 // GCM tag
	nWallets = 3
	srcPath  = "github.com/bartossh/Computantis/src/"
)

// ---------------------------------------------------------------- fixtures

func fixedWallet(i int) wallet.Wallet {
	seed := sha256.Sum256([]byte(fmt.Sprintf("verif-c20-%d", i)))
	prv := ed25519.NewKeyFromSeed(seed[:])
	return wallet.Wallet{Private: prv, Public: prv.Public().(ed25519.PublicKey)}
}

func fixedKey(n int) []byte {
	h := sha256.Sum256([]byte(fmt.Sprintf("verif-c20-key%d", n)))
	return append([]byte(nil), h[:n]...)
}

// unrelatedKeys: 8 fixed keys that share nothing with the sealing keys (4 of each legal length).
func unrelatedKeys() [][]byte {
	var ks [][]byte
	for i := 0; i < 8; i++ {
		h := sha256.Sum256([]byte(fmt.Sprintf("verif-c20-wrongkey-%d", i)))
		n := 16
		if i%2 == 1 {
			n = 32
		}
		ks = append(ks, append([]byte(nil), h[:n]...))
	}
	return ks
}

func sameWallet(a, b *wallet.Wallet) bool {
	return bytes.Equal(a.Private, b.Private) && bytes.Equal(a.Public, b.Public) && a.Address() == b.Address()
}

// base is one saved wallet file = one fixed history.
type base struct {
	wi   int
	w    wallet.Wallet
	key  []byte
	file []byte // bytes written by the real SaveWallet
}

// ---------------------------------------------------------------- cases

const (
	clTrunc    = iota // ReadWallet on file[:a]
	clCorrupt         // ReadWallet on file with file[a]=b
	clKeyFlip         // ReadWallet with key bit a flipped
	clWrongKey        // ReadWallet with unrelated key a
	clDecTight        // Decrypt(key, file[:a:a])
	clDecLoose        // Decrypt(key, file[:a]) (spare capacity behind the prefix)
	clRoundGOB        // SaveWallet -> ReadWallet, same key
	clRoundPEM        // SaveToPem -> ReadFromPem
	clDecFull         // Decrypt(key, file) -> DecodeGOBWallet
	numClasses
)

var className = [numClasses]string{"truncation", "byte-corruption", "key-bit-flip", "wrong-key",
	"decrypt-prefix-exact-cap", "decrypt-prefix-spare-cap", "roundtrip-gob", "roundtrip-pem", "decrypt-full"}

// cause is the structural-cause component of a finding key.
var classCause = [numClasses]string{"truncated", "byte-corruption", "key-bit-flip", "wrong-key",
	"truncated-input", "truncated-input", "roundtrip", "roundtrip", "roundtrip"}

type fcase struct {
	base  int
	class uint8
	a, b  int
}

const (
	outErrOpen  = iota // error wrapping aeswrapper.ErrOpenDataFailure: gcm.Open ran and rejected
	outErrOther        // any other error
	outSame            // a wallet identical to the original
	outOther           // a wallet different from the original
	outPanic
)

type result struct {
	out    uint8
	hash   [32]byte // sha256(key || 0xff || data) of the faulty input
	dlen   int
	detail string // error class / panic class
	frame  string // innermost repository frame of a panic
	msg    string // raw error / panic text
}

// materialise returns (key, data) of a faulty case.
func (c fcase) materialise(bs []base, wrong [][]byte) (key, data []byte) {
	b := bs[c.base]
	key, data = b.key, b.file
	switch c.class {
	case clTrunc, clDecLoose:
		data = b.file[:c.a]
	case clDecTight:
		data = b.file[:c.a:c.a]
	case clCorrupt:
		data = append([]byte(nil), b.file...)
		data[c.a] = byte(c.b)
	case clKeyFlip:
		key = append([]byte(nil), b.key...)
		key[c.a/8] ^= 1 << (c.a % 8)
	case clWrongKey:
		key = wrong[c.a]
	}
	return key, data
}

func (c fcase) describe(bs []base) string {
	b := bs[c.base]
	pre := fmt.Sprintf("wallet #%d, %d-byte key, saved file of %d bytes: ", b.wi, len(b.key), len(b.file))
	switch c.class {
	case clTrunc:
		return pre + fmt.Sprintf("file truncated to its first %d bytes, ReadWallet with the right key", c.a)
	case clCorrupt:
		return pre + fmt.Sprintf("byte %d changed 0x%02x -> 0x%02x, ReadWallet with the right key", c.a, b.file[c.a], c.b)
	case clKeyFlip:
		return pre + fmt.Sprintf("intact file, ReadWallet with bit %d of byte %d of the key flipped", c.a%8, c.a/8)
	case clWrongKey:
		return pre + fmt.Sprintf("intact file, ReadWallet with unrelated key #%d", c.a)
	case clDecTight:
		return pre + fmt.Sprintf("aeswrapper.Decrypt on the first %d bytes (len==cap)", c.a)
	case clDecLoose:
		return pre + fmt.Sprintf("aeswrapper.Decrypt on the first %d bytes (cap > len)", c.a)
	}
	return pre + className[c.class]
}

var digits = regexp.MustCompile(`[0-9]+`)
var nonSlug = regexp.MustCompile(`[^a-z0-9]+`)

func slug(s string) string {
	return strings.Trim(nonSlug.ReplaceAllString(strings.ToLower(digits.ReplaceAllString(s, "")), "-"), "-")
}

// panicClass strips everything concrete (indices, lengths) from a panic value.
func panicClass(p any) string {
	s := fmt.Sprint(p)
	s = strings.TrimPrefix(s, "runtime error: ")
	if i := strings.Index(s, " ["); i >= 0 {
		s = s[:i]
	}
	return slug(s)
}

// repoFrame returns the innermost frame of the current (panicking) stack that lies in the repository.
func repoFrame() string {
	pcs := make([]uintptr, 64)
	n := runtime.Callers(2, pcs)
	fr := runtime.CallersFrames(pcs[:n])
	for {
		f, more := fr.Next()
		if strings.HasPrefix(f.Function, srcPath) {
			return strings.TrimPrefix(f.Function, srcPath)
		}
		if !more {
			return ""
		}
	}
}

func errClass(err error) (uint8, string) {
	switch {
	case errors.Is(err, aeswrapper.ErrOpenDataFailure):
		return outErrOpen, "open-data-failure"
	case errors.Is(err, aeswrapper.ErrInvalidKeyLength):
		return outErrOther, "invalid-key-length"
	}
	return outErrOther, "other:" + slug(err.Error())
}

func classify(orig *wallet.Wallet, w *wallet.Wallet, err error, r *result) {
	if err != nil {
		r.out, r.detail = errClass(err)
		r.msg = err.Error()
		return
	}
	if sameWallet(orig, w) {
		r.out, r.detail = outSame, "original-wallet"
	} else {
		r.out, r.detail = outOther, "different-wallet"
		r.msg = fmt.Sprintf("private=%x public=%x", []byte(w.Private), []byte(w.Public))
	}
}

// readWallet drives the real ReadWallet on (key, data) through a file, under recover.
func readWallet(path string, key, data []byte, orig *wallet.Wallet) (r result) {
	defer func() {
		if p := recover(); p != nil {
			r.out, r.detail, r.frame, r.msg = outPanic, panicClass(p), repoFrame(), fmt.Sprint(p)
		}
	}()
	if err := os.WriteFile(path, data, 0o644); err != nil {
		panic("harness: cannot write scratch file: " + err.Error())
	}
	h := fileoperations.New(fileoperations.Config{WalletPath: path, WalletPasswd: hex.EncodeToString(key)}, aeswrapper.New())
	w, err := h.ReadWallet()
	classify(orig, &w, err, &r)
	return r
}

// decrypt drives aeswrapper.Decrypt directly, under recover; a plaintext is decoded with the real GOB decoder.
func decrypt(key, data []byte, orig *wallet.Wallet) (r result) {
	defer func() {
		if p := recover(); p != nil {
			r.out, r.detail, r.frame, r.msg = outPanic, panicClass(p), repoFrame(), fmt.Sprint(p)
		}
	}()
	plain, err := aeswrapper.New().Decrypt(key, data)
	if err != nil {
		classify(orig, nil, err, &r)
		return r
	}
	w, err := wallet.DecodeGOBWallet(plain)
	if err != nil {
		// Decrypt handed out a plaintext for a faulty input: authentication failed to reject.
		r.out, r.detail, r.msg = outOther, "plaintext-returned", fmt.Sprintf("plaintext %x (gob: %v)", plain, err)
		return r
	}
	classify(orig, &w, nil, &r)
	return r
}

func inputHash(key, data []byte) [32]byte {
	h := sha256.New()
	h.Write(key)
	h.Write([]byte{0xff})
	h.Write(data)
	var out [32]byte
	copy(out[:], h.Sum(nil))
	return out
}

// witness is what a replay needs: the exact faulty input.
type witness struct {
	Mode      string `json:"mode"` // ReadWallet | Decrypt | roundtrip
	Class     string `json:"class"`
	Case      string `json:"case"`
	Wallet    int    `json:"wallet"` // seed index: ed25519.NewKeyFromSeed(sha256("verif-c20-<i>"))
	KeyHex    string `json:"key_hex"`
	DataHex   string `json:"data_hex"`
	ExactCap  bool   `json:"exact_cap,omitempty"`
	SavedHex  string `json:"saved_file_hex,omitempty"`
	Outcome   string `json:"outcome"`
	Detail    string `json:"detail"`
	Frame     string `json:"panic_frame,omitempty"`
	Message   string `json:"message,omitempty"`
	Cut       *int   `json:"cut,omitempty"`
	Pos       *int   `json:"pos,omitempty"`
	Val       *int   `json:"val,omitempty"`
	KeyBit    *int   `json:"key_bit,omitempty"`
	WrongKeyN *int   `json:"wrong_key,omitempty"`
}

var outName = [...]string{"error", "error", "original-wallet", "different-wallet", "panic"}

// verdict maps an outcome of a faulty case to a finding key ("" = conforms).
func verdict(c fcase, r *result) (key, pred string) {
	entry := "ReadWallet"
	cause := classCause[c.class]
	if c.class == clDecTight || c.class == clDecLoose {
		entry = "Decrypt"
		if c.a < nonceLen {
			cause = "short-input"
		}
	}
	switch r.out {
	case outPanic:
		return fmt.Sprintf("C20.panic/%s/%s", entry, cause), "C20.panic"
	case outOther:
		return fmt.Sprintf("C20.other-wallet/%s/%s", entry, cause), "C20.other-wallet"
	case outSame:
		// A corrupted file that still yields the original wallet is "the original wallet" (allowed, counted);
		// a strict prefix or a wrong key cannot legitimately authenticate.
		if c.class == clCorrupt {
			return "", ""
		}
		if entry == "Decrypt" {
			return "C20.accepted/Decrypt/" + cause, "C20.accepted"
		}
		return "C20.accepted/" + cause, "C20.accepted"
	}
	return "", ""
}

func ip(i int) *int { return &i }

func mkWitness(c fcase, r *result, bs []base, wrong [][]byte) witness {
	key, data := c.materialise(bs, wrong)
	w := witness{Mode: "ReadWallet", Class: className[c.class], Case: c.describe(bs), Wallet: bs[c.base].wi,
		KeyHex: hex.EncodeToString(key), DataHex: hex.EncodeToString(data), SavedHex: hex.EncodeToString(bs[c.base].file),
		Outcome: outName[r.out], Detail: r.detail, Frame: r.frame, Message: r.msg}
	switch c.class {
	case clTrunc:
		w.Cut = ip(c.a)
	case clCorrupt:
		w.Pos, w.Val = ip(c.a), ip(c.b)
	case clKeyFlip:
		w.KeyBit = ip(c.a)
	case clWrongKey:
		w.WrongKeyN = ip(c.a)
	case clDecTight, clDecLoose:
		w.Mode, w.Cut, w.ExactCap = "Decrypt", ip(c.a), c.class == clDecTight
	}
	return w
}

// ---------------------------------------------------------------- replay

func replay(path string) int {
	b, err := os.ReadFile(path)
	if err != nil {
		fmt.Fprintln(os.Stderr, err)
		return 2
	}
	var hv struct {
		Witness map[string]any `json:"witness"`
	}
	if err := json.Unmarshal(b, &hv); err == nil && (hv.Witness["mode"] == "retention" || hv.Witness["mode"] == "roundtrip") {
		// sequential phases: replayed by running the (short) check again and looking for the same key
		if err := common.ReplayByRerun(path); err != nil {
			fmt.Fprintln(os.Stderr, err)
			return 2
		}
		return run()
	}
	if err := json.Unmarshal(b, &hv); err == nil && hv.Witness["mode"] == "history" {
		rc := replayHistory(hv.Witness)
		if rc == 1 {
			fmt.Printf("VIOLATION property=C20 replay=%s\n", path)
		}
		return rc
	}
	var v struct {
		Key     string  `json:"key"`
		Witness witness `json:"witness"`
	}
	if err := json.Unmarshal(b, &v); err != nil {
		fmt.Fprintln(os.Stderr, err)
		return 2
	}
	key, _ := hex.DecodeString(v.Witness.KeyHex)
	data, _ := hex.DecodeString(v.Witness.DataHex)
	orig := fixedWallet(v.Witness.Wallet)
	var r result
	switch v.Witness.Mode {
	case "Decrypt":
		if v.Witness.ExactCap {
			data = data[:len(data):len(data)]
		} else {
			data = append(make([]byte, 0, len(data)+512), data...)
		}
		r = decrypt(key, data, &orig)
	case "ReadWallet":
		r = readWallet("replay.wallet", key, data, &orig)
		os.Remove("replay.wallet")
	default:
		fmt.Println("replay: round-trip witnesses are re-run by the full check")
		return 2
	}
	fmt.Printf("replay %s\n  %s\n  outcome=%s detail=%s frame=%s msg=%q\n", v.Key, v.Witness.Case, outName[r.out], r.detail, r.frame, r.msg)
	if r.out == outErrOpen || r.out == outErrOther {
		fmt.Println("  conforms (error returned): not reproduced on this tree")
		return 0
	}
	fmt.Println("  REPRODUCED")
	return 1
}

// ---------------------------------------------------------------- main

func main() {
	args := os.Args[1:]
	if len(args) > 0 && args[0] == "C20" {
		args = args[1:]
	}
	if len(args) >= 1 && args[0] == "schedworker" {
		sched.WorkerMain(c20ConcScenarios())
		return
	}
	if len(args) >= 2 && (args[0] == "--replay" || args[0] == "-replay" || args[0] == "replay") {
		if b, err := os.ReadFile(args[1]); err == nil && strings.Contains(string(b), "/concurrent/") {
			os.Exit(sched.ReplayFile("C20", c20ConcScenarios(), args[1]))
		}
		os.Exit(replay(args[1]))
	}
	os.Exit(run())
}

func run() int {
	rep := common.NewReport("C20", "fault_enumeration")
	thorough := common.Tier() == "thorough"
	deadline := common.Deadline(40*time.Second, 8*time.Minute)
	dir, err := os.MkdirTemp(".", "c20-")
	if err != nil {
		fmt.Fprintln(os.Stderr, "cannot create scratch dir:", err)
		return 2
	}
	defer os.RemoveAll(dir)

	var evaluations int64
	var pending []struct {
		idx int
		v   common.Violation
	}
	addViol := func(idx int, v common.Violation) {
		pending = append(pending, struct {
			idx int
			v   common.Violation
		}{idx, v})
	}

	// ---- 1. round trips through the real save paths (sequential, 6 + 3 cases)
	keys := [][]byte{fixedKey(16), fixedKey(32)}
	wrong := unrelatedKeys()
	var bases []base
	sealer := aeswrapper.New()
	for wi := 0; wi < nWallets; wi++ {
		w := fixedWallet(wi)
		for _, k := range keys {
			path := filepath.Join(dir, fmt.Sprintf("wallet-%d-%d", wi, len(k)))
			h := fileoperations.New(fileoperations.Config{WalletPath: path, WalletPasswd: hex.EncodeToString(k)}, sealer)
			wc := w
			if err := h.SaveWallet(&wc); err != nil {
				fmt.Fprintln(os.Stderr, "SaveWallet failed on a legal wallet/key:", err)
				return 2
			}
			file, err := os.ReadFile(path)
			if err != nil {
				fmt.Fprintln(os.Stderr, "cannot read saved wallet:", err)
				return 2
			}
			b := base{wi: wi, w: w, key: k, file: file}
			bases = append(bases, b)
			r := readWallet(path, k, file, &w) // rewrites identical bytes, then the real ReadWallet
			evaluations++
			rep.Inc("roundtrips", 1)
			if r.out != outSame {
				addViol(-100+len(bases), common.Violation{Predicate: "C20.roundtrip", Key: "C20.roundtrip/ReadWallet",
					What: fmt.Sprintf("wallet #%d saved with a %d-byte key and read back with the same key gave %s (%s %s)", wi, len(k), outName[r.out], r.detail, r.msg),
					Witness: witness{Mode: "roundtrip", Class: className[clRoundGOB], Wallet: wi, KeyHex: hex.EncodeToString(k),
						DataHex: hex.EncodeToString(file), Outcome: outName[r.out], Detail: r.detail, Frame: r.frame, Message: r.msg}})
			}
			// the full ciphertext through Decrypt directly must give back a GOB of the same wallet
			rd := decrypt(k, file, &w)
			evaluations++
			rep.Inc("decrypt_full", 1)
			if rd.out != outSame {
				addViol(-50+len(bases), common.Violation{Predicate: "C20.roundtrip", Key: "C20.roundtrip/Decrypt",
					What: fmt.Sprintf("Decrypt of the intact file of wallet #%d (%d-byte key) gave %s (%s %s)", wi, len(k), outName[rd.out], rd.detail, rd.msg),
					Witness: witness{Mode: "roundtrip", Class: className[clDecFull], Wallet: wi, KeyHex: hex.EncodeToString(k),
						DataHex: hex.EncodeToString(file), Outcome: outName[rd.out], Detail: rd.detail, Frame: rd.frame, Message: rd.msg}})
			}
			if len(k) == 16 && wi == 0 {
				rep.Sample(map[string]any{"class": className[clRoundGOB], "wallet": wi, "address": w.Address(), "key_bytes": len(k),
					"file_len": len(file), "file_hex": hex.EncodeToString(file), "outcome": r.detail})
			}
		}
		// PEM
		func() {
			pemPath := filepath.Join(dir, fmt.Sprintf("wallet-%d.pem", wi))
			h := fileoperations.New(fileoperations.Config{WalletPemPath: pemPath}, sealer)
			var r result
			func() {
				defer func() {
					if p := recover(); p != nil {
						r.out, r.detail, r.frame, r.msg = outPanic, panicClass(p), repoFrame(), fmt.Sprint(p)
					}
				}()
				wc := w
				if err := h.SaveToPem(&wc); err != nil {
					classify(&w, nil, err, &r)
					r.msg = "SaveToPem: " + r.msg
					return
				}
				got, err := h.ReadFromPem()
				classify(&w, &got, err, &r)
			}()
			evaluations++
			rep.Inc("pem", 1)
			if r.out != outSame {
				addViol(-10+wi, common.Violation{Predicate: "C20.roundtrip", Key: "C20.roundtrip/Pem",
					What:    fmt.Sprintf("wallet #%d saved with SaveToPem and read with ReadFromPem gave %s (%s %s)", wi, outName[r.out], r.detail, r.msg),
					Witness: witness{Mode: "roundtrip", Class: className[clRoundPEM], Wallet: wi, Outcome: outName[r.out], Detail: r.detail, Frame: r.frame, Message: r.msg}})
			}
			if wi == 0 {
				prv, _ := os.ReadFile(pemPath)
				rep.Sample(map[string]any{"class": className[clRoundPEM], "wallet": wi, "pem_private_len": len(prv), "outcome": r.detail})
			}
		}()
	}

	// ---- 2. the fault alphabet, in simplest-first order (so the lowest case index is the minimal witness)
	var cases []fcase
	for bi, b := range bases {
		for n := 0; n < len(b.file); n++ {
			cases = append(cases, fcase{base: bi, class: clTrunc, a: n})
		}
		for n := 0; n < len(b.file); n++ {
			cases = append(cases, fcase{base: bi, class: clDecTight, a: n}, fcase{base: bi, class: clDecLoose, a: n})
		}
		for pos := 0; pos < len(b.file); pos++ {
			orig := b.file[pos]
			if thorough {
				for v := 0; v < 256; v++ {
					if byte(v) != orig {
						cases = append(cases, fcase{base: bi, class: clCorrupt, a: pos, b: v})
					}
				}
				continue
			}
			seen := map[byte]bool{orig: true}
			var vals []byte
			for k := 0; k < 8; k++ {
				vals = append(vals, orig^(1<<k))
			}
			vals = append(vals, 0x00, 0xff)
			for _, v := range vals {
				if !seen[v] {
					seen[v] = true
					cases = append(cases, fcase{base: bi, class: clCorrupt, a: pos, b: int(v)})
				}
			}
		}
		for bit := 0; bit < 8*len(b.key); bit++ {
			cases = append(cases, fcase{base: bi, class: clKeyFlip, a: bit})
		}
		for k := range wrong {
			cases = append(cases, fcase{base: bi, class: clWrongKey, a: k})
		}
	}

	results := make([]result, len(cases))
	done := make([]bool, len(cases))
	var next int64 = -1
	var cut int32
	nw := runtime.NumCPU()
	var wg sync.WaitGroup
	for wk := 0; wk < nw; wk++ {
		wg.Add(1)
		go func(wk int) {
			defer wg.Done()
			path := filepath.Join(dir, fmt.Sprintf("faulty-%d", wk))
			for {
				i := int(atomic.AddInt64(&next, 1))
				if i >= len(cases) {
					return
				}
				if i%1024 == 0 && time.Now().After(deadline) {
					atomic.StoreInt32(&cut, 1)
				}
				if atomic.LoadInt32(&cut) == 1 {
					return
				}
				c := cases[i]
				key, data := c.materialise(bases, wrong)
				var r result
				if c.class == clDecTight || c.class == clDecLoose {
					r = decrypt(key, data, &bases[c.base].w)
				} else {
					r = readWallet(path, key, data, &bases[c.base].w)
				}
				r.hash, r.dlen = inputHash(key, data), len(data)
				results[i], done[i] = r, true
			}
		}(wk)
	}
	wg.Wait()

	// ---- 3. oracle + accounting (sequential, in case order: deterministic witnesses)
	counter := map[uint8]string{clTrunc: "truncations", clCorrupt: "corruptions", clKeyFlip: "key_flips", clWrongKey: "wrong_keys",
		clDecTight: "decrypt_prefixes", clDecLoose: "decrypt_prefixes"}
	perClass := map[string]int{}
	outcomes := map[string]int{}
	distinct := map[[32]byte]bool{}
	nontrivial := map[[32]byte]bool{}
	sampled := map[uint8]bool{}
	executed, acceptedIdentical := 0, 0
	for i, c := range cases {
		if !done[i] {
			continue
		}
		r := &results[i]
		executed++
		perClass[counter[c.class]]++
		oc := outName[r.out] + ":" + r.detail
		if r.out == outPanic {
			oc += "@" + r.frame
		}
		outcomes[className[c.class]+" -> "+oc]++
		distinct[r.hash] = true
		// non-trivial: the faulty input carried a whole nonce and a whole tag and the read got as far as
		// the GCM authentication (rejected there, or - never expected - let through)
		if r.dlen >= nonceLen+tagLen && (r.out == outErrOpen || r.out == outSame || r.out == outOther) {
			nontrivial[r.hash] = true
		}
		if c.class == clCorrupt && r.out == outSame {
			acceptedIdentical++
		}
		if key, pred := verdict(c, r); key != "" {
			w := mkWitness(c, r, bases, wrong)
			what := fmt.Sprintf("%s: got %s", w.Case, outName[r.out])
			switch r.out {
			case outPanic:
				what += fmt.Sprintf(" %q in %s", r.msg, r.frame)
			case outOther:
				what += " (" + r.detail + " " + r.msg + ")"
			}
			what += "; expected an error"
			addViol(i, common.Violation{Predicate: pred, Key: key, What: what, Scenario: className[c.class], Witness: w})
		}
		// samples: the first interesting member of each class
		want := false
		switch c.class {
		case clTrunc:
			want = c.a == len(bases[c.base].file)-1
		case clCorrupt:
			want = c.a == nonceLen+3
		case clKeyFlip, clWrongKey:
			want = true
		case clDecTight:
			want = c.a == nonceLen-1
		case clDecLoose:
			want = c.a == nonceLen+tagLen
		}
		if want && !sampled[c.class] {
			sampled[c.class] = true
			key, data := c.materialise(bases, wrong)
			rep.Sample(map[string]any{"class": className[c.class], "case": c.describe(bases), "key_hex": hex.EncodeToString(key),
				"data_len": len(data), "data_hex": hex.EncodeToString(data), "outcome": oc})
		}
	}
	evaluations += int64(executed)

	// ---- 4. files with a past (an earlier wallet saved to the same path)
	hf, hreads, hpairs, houtcomes, herr := runHistories(dir, thorough, wrong)
	if herr != nil {
		fmt.Fprintln(os.Stderr, "history phase: SaveWallet failed on a legal wallet/key:", herr)
		return 2
	}
	evaluations += int64(hreads)
	for _, f := range hf {
		addViol(10000000+f.idx, f.v)
	}
	rf, rcalls, rerr := runRetention(dir)
	if rerr != nil {
		fmt.Fprintln(os.Stderr, "retention phase:", rerr)
		return 2
	}
	evaluations += int64(rcalls)
	for _, f := range rf {
		addViol(f.idx, f.v)
	}
	rep.Set("retention_calls", rcalls)
	cf, ccalls, cerr := runClient(dir)
	if cerr != nil {
		fmt.Fprintln(os.Stderr, "client phase:", cerr)
		return 2
	}
	evaluations += int64(ccalls)
	for _, f := range cf {
		addViol(f.idx, f.v)
	}
	rep.Set("client_calls", ccalls)
	rep.Set("history_pairs", hpairs)
	rep.Set("history_reads", hreads)
	rep.Set("history_outcomes", houtcomes)

	sort.SliceStable(pending, func(i, j int) bool { return pending[i].idx < pending[j].idx })
	for _, p := range pending {
		rep.Add(p.v)
	}

	complete := executed == len(cases)
	for _, k := range []string{"truncations", "corruptions", "key_flips", "wrong_keys", "decrypt_prefixes"} {
		rep.Set(k, perClass[k])
	}
	var lens []int
	for _, b := range bases {
		lens = append(lens, len(b.file))
	}
	rep.Set("evaluations", int(evaluations))
	rep.Set("distinct_faulty_inputs", len(distinct))
	rep.Set("distinct_nontrivial", len(nontrivial))
	rep.Set("exhaustive", complete)
	rep.Set("planned_fault_cases", len(cases))
	rep.Set("executed_fault_cases", executed)
	rep.Set("saved_files", len(bases))
	rep.Set("saved_file_lengths", lens)
	rep.Set("corruptions_yielding_original_wallet", acceptedIdentical)
	rep.Set("outcomes", outcomes)
	rep.Set("workers", nw)
	vals := "the 8 single-bit flips of the byte plus 0x00 and 0xFF (duplicates and the original value removed)"
	if thorough {
		vals = "all 255 other byte values"
	}
	rep.Set("rule", "PRODUCT fault enumeration, nothing sampled: 3 wallets (ed25519.NewKeyFromSeed(sha256(\"verif-c20-<i>\"))) x fixed 16- and 32-byte AES keys "+
		"are saved once each through the real SaveWallet (6 files; the GCM nonce is the library's own crypto/rand draw, each saved file is one fixed history). "+
		"Per file: every truncation length 0..len-1 read by the real ReadWallet; every position x "+vals+" read by ReadWallet; every single-bit flip of the key; "+
		"8 unrelated fixed keys (4x16, 4x32 bytes); every strict prefix given to aeswrapper.Decrypt directly, once with cap==len and once with spare capacity; "+
		"plus GOB, direct-Decrypt and PEM round trips. All calls run under recover(). "+
		"evaluations = ReadWallet/ReadFromPem/Decrypt calls made. A case is DISTINCT by sha256(key || data) of the faulty input (so the Decrypt prefixes, which repeat the "+
		"truncation inputs, add nothing) and NON-TRIVIAL when the faulty data still holds a whole 12-byte nonce and a whole 16-byte tag AND the read demonstrably got past "+
		"the length/key guards into AES-GCM authentication (it returned an error wrapping aeswrapper.ErrOpenDataFailure, or a wallet); shorter inputs, panics and other errors are trivial. "+
		"History phase: per wallet, 5 pasts of the path (another wallet saved earlier with the same key, 16 and 32 bytes; with another key, 16 and 32 bytes; the same wallet saved earlier with a key of the other length), "+
		"each followed by the real second SaveWallet; the directory as SaveWallet left it is restored before every read; every truncation, two (thorough: five) values per byte position, the earlier key, 8 unrelated keys and every 7th key bit flip; "+
		"the answer must be the wallet saved last or an error. "+
		"Client phase: a walletmiddleware.Client that holds a wallet re-reads a damaged / foreign-keyed file (every 11th byte altered, truncations, a foreign file): the read must fail, the client must keep answering with the wallet it held or say it is not ready, and signing must not crash. "+
		"Retention phase: the encodings of all wallets are kept while the others are encoded and decoded afterwards; six wallets/keys are saved in a row and all read back afterwards. "+
		"exhaustive=true means every planned case of this alphabet was executed before the internal deadline.")
	rep.Assume("AES-GCM (crypto/aes, crypto/cipher) is trusted: a forged tag is accepted with probability 2^-128, so 'error for every altered byte' is decided for these six nonces and generalises to other nonces only through that argument")
	rep.Assume("the nonce drawn by aeswrapper.Encrypt from crypto/rand is not controlled; the saved bytes are recorded in every witness so a counterexample replays bit-exactly")
	rep.Assume("crash points of SaveWallet = prefixes of the single os.WriteFile payload (no reordering of a single write, no torn sectors with foreign content beyond the single-byte corruption alphabet)")
	rep.Assume("PEM files are covered for the round trip only; the property states fault behaviour for the encrypted file")
	if !complete {
		rep.Assume(fmt.Sprintf("internal deadline hit: %d of %d planned fault cases executed, exhaustive=false", executed, len(cases)))
	}
	if div := c20ConcPart(rep); div > 0 {
		fmt.Fprintf(os.Stderr, "C20: %d executions of the concurrent part diverged\n", div)
		rep.Finish()
		return 2
	}
	return rep.Finish()
}
