package main

import (
	"encoding/hex"
	"fmt"
	"os"
	"path/filepath"
	"sync"

	"github.com/bartossh/Computantis/src/aeswrapper"
	"github.com/bartossh/Computantis/src/fileoperations"
	"github.com/bartossh/Computantis/src/wallet"
	"verif.local/harness/common"
)

// History phase: the wallet path has a PAST. Another wallet was saved to the same path before (with the same or with
// another key) and then replaced by the wallet under test through the real SaveWallet; whatever SaveWallet leaves in
// the directory (side files, backups) is kept. Then the current file is damaged and read: the answer must be the
// wallet saved LAST or an error - never the earlier wallet.

type histCase struct {
	class string // truncation | byte-corruption | wrong-key | earlier-key | key-bit-flip
	a, b  int
	key   []byte
	data  []byte
	descr string
}

type histFinding struct {
	idx int
	v   common.Violation
}

// snapshotDir reads every regular file of dir.
func snapshotDir(dir string) map[string][]byte {
	out := map[string][]byte{}
	es, _ := os.ReadDir(dir)
	for _, e := range es {
		if e.Type().IsRegular() {
			b, err := os.ReadFile(filepath.Join(dir, e.Name()))
			if err == nil {
				out[e.Name()] = b
			}
		}
	}
	return out
}

func restoreDir(dir string, snap map[string][]byte) {
	es, _ := os.ReadDir(dir)
	for _, e := range es {
		if _, ok := snap[e.Name()]; !ok {
			os.Remove(filepath.Join(dir, e.Name()))
		}
	}
	for n, b := range snap {
		if err := os.WriteFile(filepath.Join(dir, n), b, 0o644); err != nil {
			panic("harness: cannot restore " + n + ": " + err.Error())
		}
	}
}

// prepareHistory saves wallet `prev` with prevKey and then wallet `cur` with key to dir/wallet through the real
// SaveWallet and returns the snapshot of the directory and the bytes of the current wallet file.
func prepareHistory(dir string, prevIdx int, prevKey []byte, curIdx int, key []byte) (map[string][]byte, []byte, error) {
	return prepareHistoryX(dir, prevIdx, prevKey, curIdx, key, 0)
}

// prepareHistoryX: extra > 0 appends that many bytes to the earlier file before the second save (a longer file of
// whatever origin sits at the path: a damaged copy, an older format).
func prepareHistoryX(dir string, prevIdx int, prevKey []byte, curIdx int, key []byte, extra int) (map[string][]byte, []byte, error) {
	if err := os.MkdirAll(dir, 0o755); err != nil {
		return nil, nil, err
	}
	path := filepath.Join(dir, "wallet")
	sealer := aeswrapper.New()
	pw := fixedWallet(prevIdx)
	if err := fileoperations.New(fileoperations.Config{WalletPath: path, WalletPasswd: hex.EncodeToString(prevKey)}, sealer).SaveWallet(&pw); err != nil {
		return nil, nil, fmt.Errorf("first SaveWallet: %w", err)
	}
	if extra > 0 {
		old, err := os.ReadFile(path)
		if err != nil {
			return nil, nil, err
		}
		tail := make([]byte, extra)
		for i := range tail {
			tail[i] = byte(0x30 + i%10)
		}
		if err := os.WriteFile(path, append(old, tail...), 0o644); err != nil {
			return nil, nil, err
		}
	}
	cw := fixedWallet(curIdx)
	if err := fileoperations.New(fileoperations.Config{WalletPath: path, WalletPasswd: hex.EncodeToString(key)}, sealer).SaveWallet(&cw); err != nil {
		return nil, nil, fmt.Errorf("second SaveWallet: %w", err)
	}
	file, err := os.ReadFile(path)
	if err != nil {
		return nil, nil, err
	}
	return snapshotDir(dir), file, nil
}

// runHistories enumerates the fault alphabet over files with a past. It returns the findings, the number of reads
// and the number of (base, history) pairs.
func runHistories(root string, thorough bool, wrong [][]byte) ([]histFinding, int, int, map[string]int, error) {
	type pair struct {
		cur, prev int
		key, pkey []byte
		kind      string
		extra     int
	}
	k16, k32 := fixedKey(16), fixedKey(32)
	other16 := append([]byte(nil), k16...)
	other16[0] ^= 0x5a
	other32 := append([]byte(nil), k32...)
	other32[0] ^= 0x5a
	var pairs []pair
	for cur := 0; cur < nWallets; cur++ {
		prev := (cur + 1) % nWallets
		pairs = append(pairs,
			pair{cur: cur, prev: prev, key: k16, pkey: k16, kind: "earlier-wallet-same-key"},
			pair{cur: cur, prev: prev, key: k32, pkey: k32, kind: "earlier-wallet-same-key"},
			pair{cur: cur, prev: prev, key: k16, pkey: other16, kind: "earlier-wallet-other-key"},
			pair{cur: cur, prev: prev, key: k32, pkey: other32, kind: "earlier-wallet-other-key"},
			pair{cur: cur, prev: cur, key: k32, pkey: k16, kind: "same-wallet-other-key-length"},
			pair{cur: cur, prev: prev, key: k16, pkey: k16, kind: "longer-file-at-the-path", extra: 1},
			pair{cur: cur, prev: prev, key: k32, pkey: k16, kind: "longer-file-at-the-path", extra: 200})
	}
	var mu sync.Mutex
	var findings []histFinding
	outcomes := map[string]int{}
	reads := 0
	var firstErr error
	var wg sync.WaitGroup
	for pi, p := range pairs {
		wg.Add(1)
		go func(pi int, p pair) {
			defer wg.Done()
			dir := filepath.Join(root, fmt.Sprintf("hist-%d", pi))
			snap, file, err := prepareHistoryX(dir, p.prev, p.pkey, p.cur, p.key, p.extra)
			if err != nil {
				mu.Lock()
				if firstErr == nil {
					firstErr = err
				}
				mu.Unlock()
				return
			}
			var cases []histCase
			cases = append(cases, histCase{class: "intact", key: p.key, data: file, descr: "the intact current file with its own key"})
			for n := 0; n < len(file); n++ {
				cases = append(cases, histCase{class: "truncation", a: n, key: p.key, data: file[:n], descr: fmt.Sprintf("current file truncated to %d of %d bytes", n, len(file))})
			}
			for pos := 0; pos < len(file); pos++ {
				vals := []byte{file[pos] ^ 0x01, file[pos] ^ 0x80}
				if thorough {
					vals = append(vals, file[pos]^0x10, 0x00, 0xff)
				}
				for _, v := range vals {
					if v == file[pos] {
						continue
					}
					d := append([]byte(nil), file...)
					d[pos] = v
					cases = append(cases, histCase{class: "byte-corruption", a: pos, b: int(v), key: p.key, data: d, descr: fmt.Sprintf("current file with byte %d set to 0x%02x", pos, v)})
				}
			}
			if string(p.pkey) != string(p.key) {
				cases = append(cases, histCase{class: "earlier-key", key: p.pkey, data: file, descr: "the intact current file read with the key of the EARLIER save"})
			}
			for k := range wrong {
				cases = append(cases, histCase{class: "wrong-key", a: k, key: wrong[k], data: file, descr: fmt.Sprintf("the intact current file read with unrelated key #%d", k)})
			}
			for bit := 0; bit < 8*len(p.key); bit += 7 {
				kk := append([]byte(nil), p.key...)
				kk[bit/8] ^= 1 << (bit % 8)
				cases = append(cases, histCase{class: "key-bit-flip", a: bit, key: kk, data: file, descr: fmt.Sprintf("the intact current file read with key bit %d flipped", bit)})
			}
			cur := fixedWallet(p.cur)
			for ci, c := range cases {
				restoreDir(dir, snap)
				r := readWallet(filepath.Join(dir, "wallet"), c.key, c.data, &cur)
				key := ""
				switch {
				case c.class == "intact":
					if r.out != outSame {
						key = "C20.roundtrip/second-save/" + p.kind
					}
				case r.out == outPanic:
					key = "C20.panic/ReadWallet/" + c.class + "/after-" + p.kind
				case r.out == outOther:
					key = "C20.other-wallet/ReadWallet/" + c.class + "/after-" + p.kind
				case r.out == outSame && c.class != "byte-corruption":
					key = "C20.accepted/" + c.class + "/after-" + p.kind
				}
				mu.Lock()
				reads++
				outcomes[c.class+" after "+p.kind+" -> "+outName[r.out]+":"+r.detail]++
				if key != "" {
					what := fmt.Sprintf("wallet #%d was saved to the path first (%d-byte key), then wallet #%d (%d-byte key); %s: got %s (%s %s); expected the wallet saved last or an error",
						p.prev, len(p.pkey), p.cur, len(p.key), c.descr, outName[r.out], r.detail, r.msg)
					findings = append(findings, histFinding{pi*100000 + ci, common.Violation{Predicate: "C20.history", Key: key, What: what, Scenario: "history/" + p.kind,
						Witness: map[string]any{"mode": "history", "kind": p.kind, "earlier_wallet": p.prev, "earlier_key_hex": hex.EncodeToString(p.pkey), "wallet": p.cur,
							"save_key_hex": hex.EncodeToString(p.key), "extra_bytes": p.extra, "key_hex": hex.EncodeToString(c.key), "data_hex": hex.EncodeToString(c.data), "class": c.class, "case": c.descr,
							"outcome": outName[r.out], "detail": r.detail, "message": r.msg}}})
				}
				mu.Unlock()
			}
		}(pi, p)
	}
	wg.Wait()
	return findings, reads, len(pairs), outcomes, firstErr
}

// replayHistory re-creates the past of the path and reads the recorded faulty file with the recorded key.
func replayHistory(w map[string]any) int {
	get := func(k string) []byte { b, _ := hex.DecodeString(fmt.Sprint(w[k])); return b }
	num := func(k string) int { f, _ := w[k].(float64); return int(f) }
	dir, err := os.MkdirTemp(".", "c20-replay-")
	if err != nil {
		fmt.Fprintln(os.Stderr, err)
		return 2
	}
	defer os.RemoveAll(dir)
	snap, _, err := prepareHistoryX(dir, num("earlier_wallet"), get("earlier_key_hex"), num("wallet"), get("save_key_hex"), num("extra_bytes"))
	if err != nil {
		fmt.Fprintln(os.Stderr, err)
		return 2
	}
	restoreDir(dir, snap)
	cur := fixedWallet(num("wallet"))
	r := readWallet(filepath.Join(dir, "wallet"), get("key_hex"), get("data_hex"), &cur)
	fmt.Printf("replay history (%v): %v\n  outcome=%s detail=%s msg=%q\n", w["kind"], w["case"], outName[r.out], r.detail, r.msg)
	if r.out == outErrOpen || r.out == outErrOther || (r.out == outSame && (w["class"] == "byte-corruption" || w["class"] == "intact")) {
		fmt.Println("  conforms: not reproduced on this tree")
		return 0
	}
	fmt.Println("  REPRODUCED")
	return 1
}

// runRetention: what an encoding or a read returned must not change when further wallets are encoded or read
// afterwards (results are kept across the later calls and compared at the end). Sequential, deterministic.
func runRetention(root string) ([]histFinding, int, error) {
	var out []histFinding
	calls := 0
	// (a) encodings kept while the other wallets are encoded
	var encs [][]byte
	for i := 0; i < nWallets; i++ {
		w := fixedWallet(i)
		b, err := w.EncodeGOB()
		if err != nil {
			return nil, calls, fmt.Errorf("EncodeGOB of a legal wallet: %w", err)
		}
		encs = append(encs, b)
		calls++
	}
	for round := 0; round < 2; round++ {
		for i := 0; i < nWallets; i++ {
			want := fixedWallet(i)
			got, err := wallet.DecodeGOBWallet(encs[i])
			calls++
			if err != nil || !sameWallet(&want, &got) {
				out = append(out, histFinding{20000000 + i, common.Violation{Predicate: "C20.roundtrip", Key: "C20.roundtrip/encoding-changed-after-later-encodings",
					What:    fmt.Sprintf("the GOB encoding returned for wallet #%d no longer decodes to that wallet after the other wallets were encoded (err=%v): the returned bytes are not the caller's own", i, err),
					Witness: map[string]any{"mode": "retention", "wallet": i}}})
			}
		}
		// encode everything once more in between (a second round over re-used buffers)
		for i := nWallets - 1; i >= 0; i-- {
			w := fixedWallet(i)
			w.EncodeGOB()
			calls++
		}
	}
	// (b) files saved one after the other (different wallets, different keys), all read back afterwards
	sealer := aeswrapper.New()
	dir := filepath.Join(root, "retention")
	if err := os.MkdirAll(dir, 0o755); err != nil {
		return nil, calls, err
	}
	keys := [][]byte{fixedKey(16), fixedKey(32)}
	type saved struct {
		wi  int
		key []byte
		h   fileoperations.Helper
	}
	var all []saved
	for i := 0; i < nWallets; i++ {
		for _, k := range keys {
			h := fileoperations.New(fileoperations.Config{WalletPath: filepath.Join(dir, fmt.Sprintf("w%d-%d", i, len(k))), WalletPasswd: hex.EncodeToString(k)}, sealer)
			w := fixedWallet(i)
			if err := h.SaveWallet(&w); err != nil {
				return nil, calls, fmt.Errorf("SaveWallet of a legal wallet: %w", err)
			}
			all = append(all, saved{i, k, h})
			calls++
		}
	}
	var got []wallet.Wallet
	var errs []error
	for _, s := range all {
		w, err := s.h.ReadWallet()
		got = append(got, w)
		errs = append(errs, err)
		calls++
	}
	for n, s := range all {
		want := fixedWallet(s.wi)
		if errs[n] != nil || !sameWallet(&want, &got[n]) {
			out = append(out, histFinding{20001000 + n, common.Violation{Predicate: "C20.roundtrip", Key: "C20.roundtrip/wallets-saved-in-a-row",
				What:    fmt.Sprintf("wallet #%d saved with a %d-byte key (one of %d wallets saved one after the other) read back as err=%v same=%v", s.wi, len(s.key), len(all), errs[n], errs[n] == nil && sameWallet(&want, &got[n])),
				Witness: map[string]any{"mode": "retention", "wallet": s.wi}}})
		}
	}
	return out, calls, nil
}
