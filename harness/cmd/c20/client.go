package main

import (
	"context"
	"crypto/ecdsa"
	"crypto/elliptic"
	"crypto/rand"
	"crypto/x509"
	"crypto/x509/pkix"
	"encoding/hex"
	"encoding/pem"
	"fmt"
	"math/big"
	"os"
	"path/filepath"
	"time"

	"github.com/bartossh/Computantis/src/aeswrapper"
	"github.com/bartossh/Computantis/src/fileoperations"
	"github.com/bartossh/Computantis/src/spice"
	"github.com/bartossh/Computantis/src/wallet"
	"github.com/bartossh/Computantis/src/walletmiddleware"
	"verif.local/harness/common"
)

// Client phase: the wallet client (walletmiddleware.Client) that the wallet API and the tools sit on. A client that
// holds a wallet reads the wallet file again while the file is damaged or keyed differently: the read must fail and
// the client must afterwards still answer with the wallet it held (or say it is not ready) - never with another
// wallet - and signing with it must not crash.

func selfSignedCA(path string) error {
	key, err := ecdsa.GenerateKey(elliptic.P256(), rand.Reader)
	if err != nil {
		return err
	}
	tpl := &x509.Certificate{SerialNumber: big.NewInt(1), Subject: pkix.Name{CommonName: "verif-c20"}, NotBefore: time.Now().Add(-time.Hour), NotAfter: time.Now().Add(24 * 365 * time.Hour),
		IsCA: true, KeyUsage: x509.KeyUsageCertSign | x509.KeyUsageDigitalSignature, BasicConstraintsValid: true}
	der, err := x509.CreateCertificate(rand.Reader, tpl, tpl, &key.PublicKey, key)
	if err != nil {
		return err
	}
	return os.WriteFile(path, pem.EncodeToMemory(&pem.Block{Type: "CERTIFICATE", Bytes: der}), 0o644)
}

func runClient(root string) ([]histFinding, int, error) {
	dir := filepath.Join(root, "client")
	if err := os.MkdirAll(dir, 0o755); err != nil {
		return nil, 0, err
	}
	ca := filepath.Join(dir, "ca.pem")
	if err := selfSignedCA(ca); err != nil {
		return nil, 0, err
	}
	var out []histFinding
	calls := 0
	sealer := aeswrapper.New()
	keys := [][]byte{fixedKey(16), fixedKey(32)}
	idx := 30000000
	for wi := 0; wi < nWallets; wi++ {
		for _, k := range keys {
			path := filepath.Join(dir, fmt.Sprintf("w%d-%d", wi, len(k)))
			h := fileoperations.New(fileoperations.Config{WalletPath: path, WalletPasswd: hex.EncodeToString(k)}, sealer)
			orig := fixedWallet(wi)
			if err := h.SaveWallet(&orig); err != nil {
				return nil, calls, fmt.Errorf("SaveWallet: %w", err)
			}
			good, err := os.ReadFile(path)
			if err != nil {
				return nil, calls, err
			}
			// a file of another wallet under another key
			okey := append([]byte(nil), k...)
			okey[0] ^= 0x33
			opath := path + ".other"
			other := fixedWallet((wi + 1) % nWallets)
			if err := fileoperations.New(fileoperations.Config{WalletPath: opath, WalletPasswd: hex.EncodeToString(okey)}, sealer).SaveWallet(&other); err != nil {
				return nil, calls, err
			}
			foreign, _ := os.ReadFile(opath)
			c, err := walletmiddleware.NewClient("127.0.0.1:1", ca, wallet.NewVerifier(), h, wallet.New)
			if err != nil {
				return nil, calls, fmt.Errorf("NewClient: %w", err)
			}
			if err := c.ReadWalletFromFile(); err != nil {
				return nil, calls, fmt.Errorf("client cannot read an intact wallet file: %w", err)
			}
			want, _ := c.Address()
			type fault struct {
				name string
				data []byte
			}
			faults := []fault{{"a file written for another wallet with another key", foreign}, {"an empty file", nil}, {"the file truncated by one byte", good[:len(good)-1]}, {"the file truncated to its nonce", good[:12]}}
			for pos := 0; pos < len(good); pos += 11 {
				d := append([]byte(nil), good...)
				d[pos] ^= 0x01
				faults = append(faults, fault{fmt.Sprintf("byte %d of the file altered", pos), d})
			}
			viol := func(key, what string) {
				idx++
				out = append(out, histFinding{idx, common.Violation{Predicate: "C20.client", Key: key, What: fmt.Sprintf("wallet #%d, %d-byte key: %s", wi, len(k), what), Witness: map[string]any{"mode": "retention", "wallet": wi}}})
			}
			for fi, f := range faults {
				if err := os.WriteFile(path, f.data, 0o644); err != nil {
					return nil, calls, err
				}
				var rerr error
				pan := ""
				func() {
					defer func() {
						if p := recover(); p != nil {
							pan = fmt.Sprint(p)
						}
					}()
					rerr = c.ReadWalletFromFile()
				}()
				calls++
				if pan != "" {
					viol("C20.panic/client/ReadWalletFromFile", "reading "+f.name+" crashed the client: "+pan)
					continue
				}
				if rerr == nil {
					viol("C20.accepted/client", "the client read "+f.name+" without an error")
				}
				addr, aerr := c.Address()
				if aerr == nil && addr != want {
					viol("C20.other-wallet/client/after-failed-read", fmt.Sprintf("after a failed read of %s the client answers with address %s, it held %s", f.name, addr, want))
				}
				if fi == 0 || fi == len(faults)-1 {
					// signing with whatever the client holds now must not crash (the RPC itself fails: nobody listens)
					func() {
						defer func() {
							if p := recover(); p != nil {
								viol("C20.panic/client/sign-after-failed-read", fmt.Sprintf("after a failed read of %s signing crashed: %v", f.name, p))
							}
						}()
						ctx, cancel := context.WithTimeout(context.Background(), 150*time.Millisecond)
						defer cancel()
						c.ProposeTransaction(ctx, want, "c20", spice.Melange{Currency: 1}, nil)
					}()
					calls++
				}
			}
			c.Close()
		}
	}
	return out, calls, nil
}
