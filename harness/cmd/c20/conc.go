package main

import (
	"encoding/hex"
	"fmt"
	"os"
	"path/filepath"
	"sort"

	"github.com/bartossh/Computantis/src/aeswrapper"
	"github.com/bartossh/Computantis/src/fileoperations"
	"github.com/bartossh/Computantis/src/wallet"
	"verif.local/harness/common"
	"verif.local/harness/sched"
	"verif.local/vsched"
)

// Concurrent part: two wallet owners save and read back at the same time. The file-system calls of the wallet file
// code are visible steps of the controlled runtime (each os.WriteFile / ReadFile / Rename / Remove is one atomic
// step), so every interleaving of the two owners' steps within the bound is executed on the real code against a real
// directory. Saving and reading back must return the saved wallet - to each owner, whatever the neighbour does in
// the same directory; two owners of one path end with one of the two wallets, never a mixture or an error.

type c20Conc struct {
	saved   [2]wallet.Wallet
	read    [2]*wallet.Wallet
	readErr [2]error
	saveErr [2]error
	final   [2]*wallet.Wallet
	finErr  [2]error
	same    bool
}

func c20ConcBody(samePath, pem bool) func(x *sched.X) {
	return func(x *sched.X) {
		vsched.Quiet(true)
		dir := fmt.Sprintf("c20conc-%d", os.Getpid()) // one directory per worker process
		os.RemoveAll(dir)
		if err := os.MkdirAll(dir, 0o755); err != nil {
			panic(err)
		}
		sealer := aeswrapper.New()
		key := hex.EncodeToString(fixedKey(32))
		o := &c20Conc{same: samePath}
		x.Vars["o"] = o
		var hs [2]fileoperations.Helper
		for i := 0; i < 2; i++ {
			o.saved[i] = fixedWallet(i)
			name := fmt.Sprintf("wallet_client_%d", i)
			if samePath {
				name = "wallet_client"
			}
			cfg := fileoperations.Config{WalletPath: filepath.Join(dir, name), WalletPasswd: key}
			if pem {
				cfg = fileoperations.Config{WalletPemPath: filepath.Join(dir, name)}
			}
			hs[i] = fileoperations.New(cfg, sealer)
		}
		save := func(i int) error {
			if pem {
				return hs[i].SaveToPem(&o.saved[i])
			}
			return hs[i].SaveWallet(&o.saved[i])
		}
		read := func(i int) (*wallet.Wallet, error) {
			var w wallet.Wallet
			var err error
			if pem {
				w, err = hs[i].ReadFromPem()
			} else {
				w, err = hs[i].ReadWallet()
			}
			if err != nil {
				return nil, err
			}
			return &w, nil
		}
		vsched.Quiet(false)
		var handles []*vsched.Handle
		for i := 0; i < 2; i++ {
			i := i
			handles = append(handles, vsched.GoClient(fmt.Sprintf("owner%d", i), func() {
				o.saveErr[i] = save(i)
				o.read[i], o.readErr[i] = read(i)
			}))
		}
		vsched.Join(handles...)
		vsched.Quiet(true)
		for i := 0; i < 2; i++ {
			o.final[i], o.finErr[i] = read(i)
		}
		left, _ := os.ReadDir(dir)
		var names []string
		for _, e := range left {
			names = append(names, e.Name())
		}
		sort.Strings(names)
		x.Vars["files"] = names
		x.Obsf("save=%v,%v read=%v,%v files=%d", o.saveErr[0] == nil, o.saveErr[1] == nil, o.readErr[0] == nil, o.readErr[1] == nil, len(names))
		os.RemoveAll(dir)
	}
}

func c20ConcOracle(name string) func(x *sched.X, r *vsched.Result) []common.Violation {
	return func(x *sched.X, r *vsched.Result) []common.Violation {
		var out []common.Violation
		add := func(key, what string) {
			out = append(out, common.Violation{Property: "C20", Predicate: "C20.concurrent-owners", Key: key, What: name + ": " + what})
		}
		if len(r.Panics) > 0 {
			add("C20.panic/concurrent/"+name, r.Panics[0].Value+" in "+r.Panics[0].Where)
			return out
		}
		if !r.RootDone {
			add("C20.incomplete/concurrent/"+name, "did not complete: "+sched.BlockedSummary(r))
			return out
		}
		o := x.Vars["o"].(*c20Conc)
		is := func(w *wallet.Wallet, i int) bool { return w != nil && sameWallet(w, &o.saved[i]) }
		for i := 0; i < 2; i++ {
			if o.saveErr[i] != nil {
				add("C20.save-failed/concurrent/"+name, fmt.Sprintf("owner %d: saving failed although nothing is wrong with its path: %v", i, o.saveErr[i]))
				continue
			}
			if o.same {
				// one path, two owners: whatever is read is one of the two wallets, whole
				for _, w := range []struct {
					w   *wallet.Wallet
					err error
					at  string
				}{{o.read[i], o.readErr[i], "right after saving"}, {o.final[i], o.finErr[i], "at the end"}} {
					if w.err != nil {
						add("C20.read-failed/concurrent/"+name, fmt.Sprintf("owner %d %s: reading the shared path failed: %v", i, w.at, w.err))
					} else if !is(w.w, 0) && !is(w.w, 1) {
						add("C20.other-wallet/concurrent/"+name, fmt.Sprintf("owner %d %s: the shared path holds a wallet that neither owner saved", i, w.at))
					}
				}
				continue
			}
			for _, w := range []struct {
				w   *wallet.Wallet
				err error
				at  string
			}{{o.read[i], o.readErr[i], "right after saving"}, {o.final[i], o.finErr[i], "at the end"}} {
				switch {
				case w.err != nil:
					add("C20.read-failed/concurrent/"+name, fmt.Sprintf("owner %d %s: reading back its own file failed: %v", i, w.at, w.err))
				case is(w.w, 1-i):
					add("C20.other-wallet/concurrent/"+name, fmt.Sprintf("owner %d %s: its own file holds the NEIGHBOUR's wallet", i, w.at))
				case !is(w.w, i):
					add("C20.other-wallet/concurrent/"+name, fmt.Sprintf("owner %d %s: its own file holds a wallet it did not save", i, w.at))
				}
			}
		}
		return out
	}
}

func c20ConcScenarios() map[string]*sched.Scenario {
	m := map[string]*sched.Scenario{}
	opt := vsched.Options{BranchSched: true, BranchData: false}
	add := func(name string, same, pem bool) {
		m[name] = &sched.Scenario{Name: name, Params: []int{0}, Opt: opt, Body: c20ConcBody(same, pem), Oracle: c20ConcOracle(name),
			Interesting: func(x *sched.X, r *vsched.Result) bool { return true }}
	}
	add("two-wallet-files-in-one-directory", false, false)
	add("two-owners-of-one-wallet-file", true, false)
	add("two-pem-pairs-in-one-directory", false, true)
	return m
}

// c20ConcPart explores the scenarios (every interleaving of the owners' file-system steps; the executions are short
// enough for the unbounded exploration) and records them in the evidence.
func c20ConcPart(rep *common.Report) (diverged int) {
	scs := c20ConcScenarios()
	var names []string
	for n := range scs {
		names = append(names, n)
	}
	sort.Strings(names)
	var jobs []sched.Job
	for _, n := range names {
		jobs = append(jobs, sched.Job{Scenario: n, Preempt: 4, Data: 0, Sched: 8, ShardI: 0, ShardN: 1})
	}
	sched.SpreadBudget(jobs, 30, 3, 20)
	tot := sched.RunAll(rep, jobs, []string{"C20", "schedworker"}, 3)
	rep.Set("concurrent_executions", tot.Executions)
	rep.Set("concurrent_distinct_outcomes", len(tot.Outcomes))
	rep.Set("concurrent_exhaustive_within_bound", tot.Exhaustive)
	rep.Set("concurrent_caps_hit", tot.Caps)
	rep.Set("concurrent_bound", map[string]any{"preemptions": 4, "schedule_deviations": 8})
	rep.Set("concurrent_per_scenario", tot.PerScenario)
	return tot.Diverged
}
