// c04 decides property C04: "Tamper evidence: altered vertices and transactions
// are never admitted".
//
// Driver PRODUCT (DESIGN.md §2, §7 C04): a declared finite mutation alphabet is
// enumerated completely and deterministically over the valid base vertices on
// two ledger states of one real (instrumented) AccountingBook:
//
//	S1 = genesis + 2 proposals (single tip)     S2 = genesis + 1 proposal + 1 crafted vertex (two tips)
//	bases on S1: transfer, countersigned contract, contract without receiver signature,
//	             boundary amount {0,10^18-1}, 70 000 byte data, self-addressed countersigned contract (issuer = receiver),
//	             transfer on non-tip parents
//	bases on S2: equal parents, two different parents, countersigned contract on two parents,
//	             transfer with the parents in the other order
//
// Every base is first shown to be admitted by AddLeaf on a fresh copy of its
// state (otherwise the check would be vacuous).  Every mutant of a base is then
// offered to AddLeaf in exactly that state.  Oracle per mutant: AddLeaf returns
// an error, does not panic, and the canonical node snapshot (live vertices,
// edges, checkpointed vertices, funds, transaction index, parked buffer) is
// identical before and after.
//
// Mutation kinds (see genBase): bitflip, bitflip2, truncate, extend,
// boundary-shift, swap, swap-own, strip, replace-signature, replace-address,
// addr-subst, addr-delete, addr-insert, addr-decoded, addr-keylen, wire, reseal.
//
// usage: vcheck C04 [-procs N] [-base name]      (master)
//
//	vcheck C04 worker <shard> <nshards> [base]  (worker, prints one JSON line)
package main

import (
	"bytes"
	"context"
	"crypto/sha256"
	"encoding/base64"
	"encoding/binary"
	"encoding/hex"
	"encoding/json"
	"flag"
	"fmt"
	"github.com/bartossh/Computantis/src/gossip"
	"github.com/bartossh/Computantis/src/protobufcompiled"
	"os"
	"os/exec"
	"runtime"
	"sort"
	"strconv"
	"strings"
	"sync"
	"time"

	"github.com/bartossh/Computantis/src/accountant"
	"github.com/bartossh/Computantis/src/serializer"
	"github.com/bartossh/Computantis/src/spice"
	"github.com/bartossh/Computantis/src/transaction"
	"github.com/bartossh/Computantis/src/wallet"
	"verif.local/harness/common"
	"verif.local/harness/world"
	"verif.local/vsched"
)

const (
	b58       = "123456789ABCDEFGHJKLMNPQRSTUVWXYZabcdefghijkmnopqrstuvwxyz"
	chunkSize = 2500 // mutants offered inside one controlled execution
	hashLen   = 12   // bytes of the mutant hash shipped to the master for the distinct count
)

func sp(c, s uint64) spice.Melange { return spice.Melange{Currency: c, SupplementaryCurrency: s} }

// ---------------------------------------------------------------- fields

type fieldKind int

const (
	fkHash fieldKind = iota // [32]byte
	fkU64                   // 64-bit number / nanosecond timestamp (little endian view)
	fkSig                   // signature bytes
	fkVar                   // variable length payload
	fkAddr                  // base58 address string
)

type field struct {
	name string
	kind fieldKind
	get  func(*accountant.Vertex) []byte // always a fresh copy
	set  func(*accountant.Vertex, []byte)
}

func le(u uint64) []byte { return binary.LittleEndian.AppendUint64(nil, u) }
func un(b []byte) uint64 { return binary.LittleEndian.Uint64(b) }
func cp(b []byte) []byte { return append([]byte{}, b...) }

var fields = []field{
	{"Hash", fkHash, func(v *accountant.Vertex) []byte { return cp(v.Hash[:]) }, func(v *accountant.Vertex, b []byte) { copy(v.Hash[:], b) }},
	{"LeftParentHash", fkHash, func(v *accountant.Vertex) []byte { return cp(v.LeftParentHash[:]) }, func(v *accountant.Vertex, b []byte) { copy(v.LeftParentHash[:], b) }},
	{"RightParentHash", fkHash, func(v *accountant.Vertex) []byte { return cp(v.RightParentHash[:]) }, func(v *accountant.Vertex, b []byte) { copy(v.RightParentHash[:], b) }},
	{"Transaction.Hash", fkHash, func(v *accountant.Vertex) []byte { return cp(v.Transaction.Hash[:]) }, func(v *accountant.Vertex, b []byte) { copy(v.Transaction.Hash[:], b) }},
	{"Weight", fkU64, func(v *accountant.Vertex) []byte { return le(v.Weight) }, func(v *accountant.Vertex, b []byte) { v.Weight = un(b) }},
	{"CreatedAt", fkU64, func(v *accountant.Vertex) []byte { return le(uint64(v.CreatedAt.UnixNano())) }, func(v *accountant.Vertex, b []byte) { v.CreatedAt = time.Unix(0, int64(un(b))) }},
	{"Transaction.CreatedAt", fkU64, func(v *accountant.Vertex) []byte { return le(uint64(v.Transaction.CreatedAt.UnixNano())) }, func(v *accountant.Vertex, b []byte) { v.Transaction.CreatedAt = time.Unix(0, int64(un(b))) }},
	{"Transaction.Spice.Currency", fkU64, func(v *accountant.Vertex) []byte { return le(v.Transaction.Spice.Currency) }, func(v *accountant.Vertex, b []byte) { v.Transaction.Spice.Currency = un(b) }},
	{"Transaction.Spice.SupplementaryCurrency", fkU64, func(v *accountant.Vertex) []byte { return le(v.Transaction.Spice.SupplementaryCurrency) }, func(v *accountant.Vertex, b []byte) { v.Transaction.Spice.SupplementaryCurrency = un(b) }},
	{"Signature", fkSig, func(v *accountant.Vertex) []byte { return cp(v.Signature) }, func(v *accountant.Vertex, b []byte) { v.Signature = b }},
	{"Transaction.IssuerSignature", fkSig, func(v *accountant.Vertex) []byte { return cp(v.Transaction.IssuerSignature) }, func(v *accountant.Vertex, b []byte) { v.Transaction.IssuerSignature = b }},
	{"Transaction.ReceiverSignature", fkSig, func(v *accountant.Vertex) []byte { return cp(v.Transaction.ReceiverSignature) }, func(v *accountant.Vertex, b []byte) { v.Transaction.ReceiverSignature = b }},
	{"Transaction.Subject", fkVar, func(v *accountant.Vertex) []byte { return []byte(v.Transaction.Subject) }, func(v *accountant.Vertex, b []byte) { v.Transaction.Subject = string(b) }},
	{"Transaction.Data", fkVar, func(v *accountant.Vertex) []byte { return cp(v.Transaction.Data) }, func(v *accountant.Vertex, b []byte) { v.Transaction.Data = b }},
	{"SignerPublicAddress", fkAddr, func(v *accountant.Vertex) []byte { return []byte(v.SignerPublicAddress) }, func(v *accountant.Vertex, b []byte) { v.SignerPublicAddress = string(b) }},
	{"Transaction.IssuerAddress", fkAddr, func(v *accountant.Vertex) []byte { return []byte(v.Transaction.IssuerAddress) }, func(v *accountant.Vertex, b []byte) { v.Transaction.IssuerAddress = string(b) }},
	{"Transaction.ReceiverAddress", fkAddr, func(v *accountant.Vertex) []byte { return []byte(v.Transaction.ReceiverAddress) }, func(v *accountant.Vertex, b []byte) { v.Transaction.ReceiverAddress = string(b) }},
}

func fieldByName(n string) *field {
	for i := range fields {
		if fields[i].name == n {
			return &fields[i]
		}
	}
	panic("c04: no field " + n)
}

func shortName(n string) string {
	n = strings.TrimPrefix(n, "Transaction.")
	return n
}

// ---------------------------------------------------------------- canonical encodings

var (
	bigPtr  *byte
	bigLen  int
	bigHash [32]byte
)

// dataHash hashes a data payload, remembering the digest of the (shared, never mutated in place) large payload.
func dataHash(d []byte) [32]byte {
	if len(d) < 4096 {
		return sha256.Sum256(d)
	}
	if &d[0] == bigPtr && len(d) == bigLen {
		return bigHash
	}
	h := sha256.Sum256(d)
	bigPtr, bigLen, bigHash = &d[0], len(d), h
	return h
}

// encHash is the hash of the full canonical encoding of a vertex (every field, length-prefixed).
func encHash(ctx string, v *accountant.Vertex) [32]byte {
	h := sha256.New()
	var l [8]byte
	wr := func(b []byte) {
		binary.LittleEndian.PutUint64(l[:], uint64(len(b)))
		h.Write(l[:])
		h.Write(b)
	}
	u := func(x uint64) {
		binary.LittleEndian.PutUint64(l[:], x)
		h.Write(l[:])
	}
	wr([]byte(ctx))
	wr([]byte(v.SignerPublicAddress))
	u(uint64(v.CreatedAt.UnixNano()))
	wr(v.Signature)
	wr(v.Hash[:])
	wr(v.LeftParentHash[:])
	wr(v.RightParentHash[:])
	u(v.Weight)
	t := &v.Transaction
	u(uint64(t.CreatedAt.UnixNano()))
	wr([]byte(t.IssuerAddress))
	wr([]byte(t.ReceiverAddress))
	wr([]byte(t.Subject))
	u(uint64(len(t.Data)))
	dh := dataHash(t.Data)
	h.Write(dh[:])
	wr(t.IssuerSignature)
	wr(t.ReceiverSignature)
	wr(t.Hash[:])
	u(t.Spice.Currency)
	u(t.Spice.SupplementaryCurrency)
	var out [32]byte
	h.Sum(out[:0])
	return out
}

func hx(b []byte) string { return hex.EncodeToString(b) }

// snapKey renders the canonical ledger state of a node: live vertices, edges, checkpointed
// vertices, funds, transaction index, parked buffer (counters such as weight/throughput are not ledger content).
func snapKey(s accountant.VerifSnap) ([32]byte, string) {
	var lines []string
	for i := range s.Vertices {
		e := encHash("", &s.Vertices[i])
		lines = append(lines, "L:"+hx(e[:]))
	}
	for id, h := range s.DagIDs {
		lines = append(lines, "D:"+hx(id[:])+">"+hx(h[:]))
	}
	for _, e := range s.Edges {
		lines = append(lines, "E:"+hx(e[0][:])+">"+hx(e[1][:]))
	}
	for i := range s.Stored {
		e := encHash("", &s.Stored[i])
		lines = append(lines, "S:"+hx(s.StoredKeys[i][:])+":"+hx(e[:]))
	}
	for a, f := range s.Funds {
		lines = append(lines, fmt.Sprintf("F:%s=%d.%d", a, f.Currency, f.SupplementaryCurrency))
	}
	for k, v := range s.TrxIndex {
		lines = append(lines, "I:"+hx(k[:])+">"+hx(v))
	}
	for i := range s.Parked {
		e := encHash("", &s.Parked[i].Vertex)
		lines = append(lines, fmt.Sprintf("P:%s#%d", hx(e[:]), s.Parked[i].Repeated))
	}
	for _, t := range s.Trusted {
		lines = append(lines, "T:"+t)
	}
	lines = append(lines, fmt.Sprintf("loaded=%v genesis=%s undecodable=%d", s.DagLoaded, s.Genesis, s.Undecodable))
	sort.Strings(lines)
	sum := fmt.Sprintf("live=%d edges=%d stored=%d funds=%d index=%d parked=%d", len(s.Vertices), len(s.Edges), len(s.Stored), len(s.Funds), len(s.TrxIndex), len(s.Parked))
	return sha256.Sum256([]byte(strings.Join(lines, "\n"))), sum
}

// ---------------------------------------------------------------- states and bases

type stateInfo struct {
	name string
	tips [][32]byte // what the bases were built on (for the determinism check of rebuilt states)
	vs   map[string]accountant.Vertex
}

// buildState resets the node and constructs ledger state S1 or S2 (inside a controlled execution).
func buildState(nodes []*world.Node, name string) (*world.LW, stateInfo) {
	w := world.NewLW(nodes, sp(100, 0), 0)
	vsched.Settle()
	R, A, B, M := world.Cast("R"), world.Cast("A"), world.Cast("B"), world.Cast("M")
	ctx := context.Background()
	info := stateInfo{name: name, vs: map[string]accountant.Vertex{"g": w.Genesis}}
	p1, err := w.Propose(ctx, 0, w.Tx("p1", R, A, 3, 0))
	if err != nil {
		panic("c04: state setup p1: " + err.Error())
	}
	vsched.Settle()
	info.vs["p1"] = p1
	switch name {
	case "S1", "S3":
		if name == "S3" {
			// the node trusts the outside sealer M: the funds exemption applies, the signature rules do not change
			if err := nodes[0].Book.AddTrustedNode(M.Addr); err != nil {
				panic("c04: state setup trust: " + err.Error())
			}
		}
		p2, err := w.Propose(ctx, 0, w.Tx("p2", R, B, 2, 0))
		if err != nil {
			panic("c04: state setup p2: " + err.Error())
		}
		vsched.Settle()
		info.vs["p2"] = p2
		info.tips = [][32]byte{p2.Hash}
	case "S2":
		m0 := w.Craft(M, w.Tx("m0", R, B, 1, 0), w.Genesis.Hash, w.Genesis.Hash, 1)
		if err := w.Deliver(ctx, 0, m0); err != nil {
			panic("c04: state setup m0: " + err.Error())
		}
		vsched.Settle()
		info.vs["m0"] = m0
		info.tips = [][32]byte{p1.Hash, m0.Hash}
	default:
		panic("c04: unknown state " + name)
	}
	return w, info
}

type base struct {
	Name  string
	State string
	What  string
	v     accountant.Vertex
	h     [32]byte
}

func seal(t transaction.Transaction, l, r accountant.Vertex) accountant.Vertex {
	wt := l.Weight
	if r.Weight > wt {
		wt = r.Weight
	}
	v, err := accountant.NewVertex(t, l.Hash, r.Hash, wt+1, world.Cast("M"))
	if err != nil {
		panic(err)
	}
	return v
}

func bigData() []byte {
	d := make([]byte, 70_000)
	for i := range d {
		d[i] = byte(i*7 + i>>8)
	}
	return d
}

// makeBases crafts the base vertices of a state (called once per worker, right after the state was built).
func makeBases(info stateInfo) []*base {
	R, A, B := world.Cast("R"), world.Cast("A"), world.Cast("B")
	var out []*base
	add := func(name, what string, v accountant.Vertex) {
		b := &base{Name: name, State: info.name, What: what, v: v}
		b.h = encHash(info.name, &b.v)
		out = append(out, b)
	}
	switch info.name {
	case "S1":
		tip, inner := info.vs["p2"], info.vs["p1"]
		add("transfer", "spice transfer R->A 1.0 sealed by outside sealer M on the tip (equal parents)",
			seal(world.MakeTx(R, A.Addr, "c04 transfer", nil, sp(1, 0), 101), tip, tip))
		add("contract-countersigned", "data transaction R->A countersigned by the receiver, sealed by M",
			seal(world.CounterSign(world.MakeTx(R, A.Addr, "c04 signed contract", []byte("countersigned-contract-payload"), sp(0, 0), 102), A), tip, tip))
		add("contract-unsigned", "data transaction R->B without receiver signature, sealed by M",
			seal(world.MakeTx(R, B.Addr, "c04 open contract", []byte("unsigned-contract-body"), sp(0, 0), 103), tip, tip))
		add("boundary-amount", "spice transfer R->A of {0, 10^18-1}",
			seal(world.MakeTx(R, A.Addr, "c04 boundary amount", nil, sp(0, spice.MaxAmountPerSupplementaryCurrency-1), 104), tip, tip))
		add("large-data", "data transaction R->A carrying 70 000 bytes",
			seal(world.MakeTx(R, A.Addr, "c04 large data", bigData(), sp(0, 0), 105), tip, tip))
		add("contract-countersigned-self-addressed", "data transaction R->R (issuer is its own receiver) countersigned by R, sealed by M: issuer and receiver signature are two fields holding the same bytes",
			seal(world.CounterSign(world.MakeTx(R, R.Addr, "c04 self addressed contract", []byte("self-addressed-contract-payload"), sp(0, 0), 107), R), tip, tip))
		add("nontip-parents", "spice transfer R->B 2.0 sealed by M on a confirmed (non-tip) vertex, smaller weight",
			seal(world.MakeTx(R, B.Addr, "c04 inner parents", nil, sp(2, 0), 106), inner, inner))
	case "S3":
		tip := info.vs["p2"]
		add("transfer-trusted-sealer", "spice transfer R->A 1.0 sealed on the tip by the outside sealer M, whom the node trusts",
			seal(world.MakeTx(R, A.Addr, "c04 transfer trusted", nil, sp(1, 0), 301), tip, tip))
		add("contract-countersigned-trusted-sealer", "data transaction R->A countersigned by the receiver, sealed by the trusted sealer M",
			seal(world.CounterSign(world.MakeTx(R, A.Addr, "c04 signed contract trusted", []byte("countersigned-contract-payload-3"), sp(0, 0), 302), A), tip, tip))
	case "S2":
		p1, m0 := info.vs["p1"], info.vs["m0"]
		add("equal-parents", "spice transfer R->A 1.0 with left parent = right parent (one of two tips)",
			seal(world.MakeTx(R, A.Addr, "c04 equal parents", nil, sp(1, 0), 201), p1, p1))
		add("two-parents", "spice transfer R->A 1.0 on two different tips",
			seal(world.MakeTx(R, A.Addr, "c04 two parents", nil, sp(1, 0), 202), p1, m0))
		add("contract-countersigned-two-parents", "countersigned data transaction R->A with spice 0.5 on two different tips",
			seal(world.CounterSign(world.MakeTx(R, A.Addr, "c04 signed contract two", []byte("second-countersigned-payload"), sp(0, 5), 203), A), p1, m0))
		add("two-parents-reversed", "spice transfer R->B 3.0 on the two tips in the other order",
			seal(world.MakeTx(R, B.Addr, "c04 reversed parents", nil, sp(3, 0), 204), m0, p1))
	}
	return out
}

// ---------------------------------------------------------------- mutant generator

type desc struct {
	idx   int
	kind  string
	field string
	det   func() string
	mk    func() accountant.Vertex
}

type gen struct {
	thorough  bool
	shard, n  int
	idx       int
	out       []desc
	generated map[string]int
}

func (g *gen) emit(kind, field string, det func() string, mk func() accountant.Vertex) {
	i := g.idx
	g.idx++
	g.generated[kind]++
	if i%g.n != g.shard {
		return
	}
	g.out = append(g.out, desc{idx: i, kind: kind, field: field, det: det, mk: mk})
}

func flip(b []byte, bits ...int) []byte {
	c := cp(b)
	for _, i := range bits {
		c[i/8] ^= 1 << (i % 8)
	}
	return c
}

func uniqInts(xs ...int) []int {
	var out []int
	seen := map[int]bool{}
	for _, x := range xs {
		if !seen[x] {
			seen[x] = true
			out = append(out, x)
		}
	}
	return out
}

func doubleSHA(b []byte) []byte {
	a := sha256.Sum256(b)
	c := sha256.Sum256(a[:])
	return c[:4]
}

// keyLenAddress builds an address with a VALID checksum over a key of n bytes, with the scheme of wallet.Address().
func keyLenAddress(n int) string {
	pub := []byte(world.Cast("B").W.Public)
	key := append(cp(pub), pub...)[:n]
	vers := append([]byte{0x00}, key...)
	full := append(cp(vers), doubleSHA(vers)...)
	return string(serializer.Base58Encode(full))
}

// reseal recomputes the transaction hash over the (changed) message and lets M seal the vertex again.
func reseal(c *accountant.Vertex) {
	c.Transaction.Hash = sha256.Sum256(c.Transaction.GetMessage())
	c.Hash, c.Signature = world.Cast("M").Sign(c.VerifDigestInput())
}

func genBase(g *gen, b *base, partners []*base) {
	v := &b.v
	with := func(f *field, nb []byte) func() accountant.Vertex {
		return func() accountant.Vertex { c := *v; f.set(&c, nb); return c }
	}
	str := func(s string) func() string { return func() string { return s } }

	for fi := range fields {
		f := &fields[fi]
		cur := f.get(v)
		nb := len(cur)
		// --- single-bit flips
		var pos []int
		all := f.kind == fkHash || f.kind == fkU64 || f.kind == fkSig || (g.thorough && nb <= 128)
		if all {
			for i := 0; i < nb; i++ {
				pos = append(pos, i)
			}
		} else {
			for _, p := range uniqInts(0, 1, nb-2, nb-1) {
				if p >= 0 && p < nb {
					pos = append(pos, p)
				}
			}
		}
		for _, p := range pos {
			for bit := 0; bit < 8; bit++ {
				i := p*8 + bit
				g.emit("bitflip", f.name, func() string { return fmt.Sprintf("bit %d of byte %d (of %d)", i%8, i/8, nb) }, with(f, flip(cur, i)))
			}
		}
		// --- two-bit flips inside one field
		if f.kind == fkHash || f.kind == fkU64 {
			nbits := nb * 8
			for i := 0; i < nbits; i++ {
				for j := i + 1; j < nbits; j++ {
					if !g.thorough && j != i+1 {
						break
					}
					i, j := i, j
					g.emit("bitflip2", f.name, func() string { return fmt.Sprintf("bits %d and %d", i, j) }, func() accountant.Vertex { c := *v; f.set(&c, flip(cur, i, j)); return c })
				}
			}
		}
		// --- truncate / extend by one byte
		if f.kind == fkSig || f.kind == fkVar || f.kind == fkAddr {
			if nb > 0 {
				g.emit("truncate", f.name, str("last byte dropped"), with(f, cp(cur[:nb-1])))
				g.emit("truncate", f.name, str("first byte dropped"), with(f, cp(cur[1:])))
			}
			ext := []byte{0x00}
			if f.kind == fkAddr {
				ext = []byte{'z'}
			}
			g.emit("extend", f.name, str("one byte appended"), with(f, append(cp(cur), ext...)))
			g.emit("extend", f.name, str("one byte prepended"), with(f, append(cp(ext), cur...)))
			if f.kind != fkAddr {
				g.emit("extend", f.name, str("byte 0xff appended"), with(f, append(cp(cur), 0xff)))
			}
		}
	}

	// --- boundary shifts inside the signed message subject|data|issuer|receiver
	shift := func(xn, yn string) {
		X, Y := fieldByName(xn), fieldByName(yn)
		x, y := X.get(v), Y.get(v)
		label := shortName(xn) + "|" + shortName(yn)
		for _, k := range uniqInts(1, 2, len(x)) {
			if k < 1 || k > len(x) {
				continue
			}
			k := k
			g.emit("boundary-shift", label, func() string { return fmt.Sprintf("last %d byte(s) of %s moved to the front of %s", k, xn, yn) },
				func() accountant.Vertex {
					c := *v
					X.set(&c, cp(x[:len(x)-k]))
					Y.set(&c, append(cp(x[len(x)-k:]), y...))
					return c
				})
		}
		for _, k := range uniqInts(1, 2, len(y)) {
			if k < 1 || k > len(y) {
				continue
			}
			k := k
			g.emit("boundary-shift", label, func() string { return fmt.Sprintf("first %d byte(s) of %s appended to %s", k, yn, xn) },
				func() accountant.Vertex {
					c := *v
					X.set(&c, append(cp(x), y[:k]...))
					Y.set(&c, cp(y[k:]))
					return c
				})
		}
	}
	shift("Transaction.Subject", "Transaction.Data")
	shift("Transaction.Data", "Transaction.IssuerAddress")
	shift("Transaction.IssuerAddress", "Transaction.ReceiverAddress")
	if len(v.Transaction.Data) == 0 {
		shift("Transaction.Subject", "Transaction.IssuerAddress") // adjacent in the message when data is empty
	}

	// --- swap fields with another valid vertex
	for _, p := range partners {
		u := &p.v
		pn := p.Name
		for fi := range fields {
			f := &fields[fi]
			if f.name == "Transaction.ReceiverSignature" && len(u.Transaction.ReceiverSignature) == 0 {
				continue // identical to strip
			}
			g.emit("swap", f.name, func() string { return "value taken from valid vertex " + pn }, with(f, f.get(u)))
		}
		g.emit("swap", "Parents", func() string { return "both parents taken from valid vertex " + pn }, func() accountant.Vertex {
			c := *v
			c.LeftParentHash, c.RightParentHash = u.LeftParentHash, u.RightParentHash
			return c
		})
		g.emit("swap", "Transaction", func() string { return "whole transaction taken from valid vertex " + pn }, func() accountant.Vertex {
			c := *v
			c.Transaction = u.Transaction
			return c
		})
		g.emit("swap", "Transaction.Spice", func() string { return "amounts taken from valid vertex " + pn }, func() accountant.Vertex {
			c := *v
			c.Transaction.Spice = u.Transaction.Spice
			return c
		})
		g.emit("swap", "Hash+Signature", func() string { return "seal (hash and signature) taken from valid vertex " + pn }, func() accountant.Vertex {
			c := *v
			c.Hash, c.Signature = u.Hash, cp(u.Signature)
			return c
		})
		g.emit("swap", "Transaction.Hash+IssuerSignature", func() string { return "transaction hash and issuer signature taken from valid vertex " + pn }, func() accountant.Vertex {
			c := *v
			c.Transaction.Hash, c.Transaction.IssuerSignature = u.Transaction.Hash, cp(u.Transaction.IssuerSignature)
			return c
		})
	}
	g.emit("swap-own", "Parents", str("left and right parent exchanged"), func() accountant.Vertex {
		c := *v
		c.LeftParentHash, c.RightParentHash = v.RightParentHash, v.LeftParentHash
		return c
	})
	g.emit("swap-own", "Hash<>Transaction.Hash", str("vertex hash and transaction hash exchanged"), func() accountant.Vertex {
		c := *v
		c.Hash, c.Transaction.Hash = v.Transaction.Hash, v.Hash
		return c
	})
	g.emit("swap-own", "Signature<>IssuerSignature", str("sealer signature and issuer signature exchanged"), func() accountant.Vertex {
		c := *v
		c.Signature, c.Transaction.IssuerSignature = cp(v.Transaction.IssuerSignature), cp(v.Signature)
		return c
	})
	g.emit("swap-own", "IssuerAddress<>ReceiverAddress", str("issuer and receiver address exchanged"), func() accountant.Vertex {
		c := *v
		c.Transaction.IssuerAddress, c.Transaction.ReceiverAddress = v.Transaction.ReceiverAddress, v.Transaction.IssuerAddress
		return c
	})
	g.emit("swap-own", "Currency<>SupplementaryCurrency", str("currency and supplementary currency exchanged"), func() accountant.Vertex {
		c := *v
		c.Transaction.Spice.Currency, c.Transaction.Spice.SupplementaryCurrency = v.Transaction.Spice.SupplementaryCurrency, v.Transaction.Spice.Currency
		return c
	})
	if len(v.Transaction.ReceiverSignature) > 0 {
		g.emit("swap-own", "IssuerSignature<>ReceiverSignature", str("issuer and receiver signature exchanged"), func() accountant.Vertex {
			c := *v
			c.Transaction.IssuerSignature, c.Transaction.ReceiverSignature = cp(v.Transaction.ReceiverSignature), cp(v.Transaction.IssuerSignature)
			return c
		})
	}

	// --- strip signatures
	for _, fn := range []string{"Signature", "Transaction.IssuerSignature", "Transaction.ReceiverSignature"} {
		f := fieldByName(fn)
		if len(f.get(v)) == 0 {
			continue
		}
		g.emit("strip", fn, str("signature removed (empty)"), with(f, []byte{}))
		g.emit("strip", fn, str("signature removed (nil)"), with(f, nil))
	}

	// --- replace each signature by another wallet's VALID signature over the same message
	others := []string{"B", "T", "N1", "A"}
	for _, on := range others {
		on := on
		oa := world.Cast(on).Addr
		if oa == v.SignerPublicAddress || oa == v.Transaction.IssuerAddress || oa == v.Transaction.ReceiverAddress {
			continue // the rightful signers are handled explicitly below
		}
		g.emit("replace-signature", "Signature", str("valid signature of wallet "+on+" over the vertex digest"), func() accountant.Vertex {
			c := *v
			_, c.Signature = world.Cast(on).Sign(c.VerifDigestInput())
			return c
		})
		g.emit("replace-signature", "Transaction.IssuerSignature", str("valid signature of wallet "+on+" over the transaction message"), func() accountant.Vertex {
			c := *v
			_, c.Transaction.IssuerSignature = world.Cast(on).Sign(c.Transaction.GetMessage())
			return c
		})
		g.emit("replace-signature", "Transaction.ReceiverSignature", str("valid signature of wallet "+on+" over the transaction message"), func() accountant.Vertex {
			c := *v
			_, c.Transaction.ReceiverSignature = world.Cast(on).Sign(c.Transaction.GetMessage())
			return c
		})
	}
	// the genuine receiver signing as issuer, the genuine issuer signing as receiver, the sealer signing as issuer
	recvName, issName := world.AddrName(v.Transaction.ReceiverAddress), world.AddrName(v.Transaction.IssuerAddress)
	g.emit("replace-signature", "Transaction.IssuerSignature", str("valid signature of the receiver "+recvName), func() accountant.Vertex {
		c := *v
		_, c.Transaction.IssuerSignature = world.Cast(recvName).Sign(c.Transaction.GetMessage())
		return c
	})
	g.emit("replace-signature", "Transaction.IssuerSignature", str("valid signature of the sealer M"), func() accountant.Vertex {
		c := *v
		_, c.Transaction.IssuerSignature = world.Cast("M").Sign(c.Transaction.GetMessage())
		return c
	})
	g.emit("replace-signature", "Transaction.ReceiverSignature", str("valid signature of the issuer "+issName), func() accountant.Vertex {
		c := *v
		_, c.Transaction.ReceiverSignature = world.Cast(issName).Sign(c.Transaction.GetMessage())
		return c
	})
	g.emit("replace-signature", "Signature", str("valid signature of the issuer "+issName+" over the vertex digest"), func() accountant.Vertex {
		c := *v
		_, c.Signature = world.Cast(issName).Sign(c.VerifDigestInput())
		return c
	})

	// --- replace each address by another cast wallet's address
	for _, fn := range []string{"SignerPublicAddress", "Transaction.IssuerAddress", "Transaction.ReceiverAddress"} {
		f := fieldByName(fn)
		for _, cn := range []string{"G", "R", "A", "B", "M", "N1", "T"} {
			a := world.Cast(cn).Addr
			if a == string(f.get(v)) {
				continue
			}
			g.emit("replace-address", fn, str("address of wallet "+cn), with(f, []byte(a)))
		}
	}

	// --- self-checking addresses: substitution, deletion, insertion at every position
	for _, fn := range []string{"SignerPublicAddress", "Transaction.IssuerAddress", "Transaction.ReceiverAddress"} {
		f := fieldByName(fn)
		a := f.get(v)
		for i := range a {
			i := i
			var subs []byte
			ci := strings.IndexByte(b58, a[i])
			if g.thorough {
				for k := 0; k < len(b58); k++ {
					if b58[k] != a[i] {
						subs = append(subs, b58[k])
					}
				}
				subs = append(subs, '0', 'O', 'I', 'l')
			} else {
				subs = []byte{b58[(ci+1)%58], b58[(ci+19)%58], b58[(ci+41)%58], '0'}
			}
			for _, s := range subs {
				s := s
				g.emit("addr-subst", fn, func() string { return fmt.Sprintf("character %d of %d replaced by %q", i, len(a), s) }, func() accountant.Vertex {
					c := *v
					n := cp(a)
					n[i] = s
					f.set(&c, n)
					return c
				})
			}
			g.emit("addr-delete", fn, func() string { return fmt.Sprintf("character %d of %d deleted", i, len(a)) }, func() accountant.Vertex {
				c := *v
				f.set(&c, append(cp(a[:i]), a[i+1:]...))
				return c
			})
		}
		for i := 0; i <= len(a); i++ {
			i := i
			var ins []byte
			if g.thorough {
				ins = []byte(b58)
			} else {
				ins = []byte{'1', 'z', a[min(i, len(a)-1)]}
			}
			for _, s := range ins {
				s := s
				g.emit("addr-insert", fn, func() string { return fmt.Sprintf("character %q inserted at position %d of %d", s, i, len(a)) }, func() accountant.Vertex {
					c := *v
					n := append(cp(a[:i]), s)
					f.set(&c, append(n, a[i:]...))
					return c
				})
			}
		}
		// mutations in the DECODED domain (version | key | checksum), re-encoded: bytes appended after the checksum, a
		// zero byte in front, each checksum byte altered, the version byte altered with and without a fresh checksum
		if raw, err := serializer.Base58Decode(a); err == nil && len(raw) == 37 {
			enc := func(b []byte) []byte { return serializer.Base58Encode(b) }
			dec := []struct {
				what string
				b    []byte
			}{
				{"one zero byte appended after the checksum", append(cp(raw), 0x00)},
				{"one byte 0x7f appended after the checksum", append(cp(raw), 0x7f)},
				{"four bytes appended after the checksum", append(cp(raw), 1, 2, 3, 4)},
				{"a copy of the checksum appended", append(cp(raw), raw[33:]...)},
				{"a zero byte put in front", append([]byte{0x00}, raw...)},
				{"the last checksum byte dropped", cp(raw[:36])},
			}
			for k := 33; k < 37; k++ {
				c := cp(raw)
				c[k] ^= 0x01
				dec = append(dec, struct {
					what string
					b    []byte
				}{fmt.Sprintf("decoded checksum byte %d altered", k-33), c})
			}
			vb := cp(raw)
			vb[0] = 0x01
			dec = append(dec, struct {
				what string
				b    []byte
			}{"version byte set to 1, checksum kept", vb})
			vb2 := append([]byte{0x01}, raw[1:33]...)
			dec = append(dec, struct {
				what string
				b    []byte
			}{"version byte set to 1, checksum recomputed", append(cp(vb2), doubleSHA(vb2)...)})
			for _, d := range dec {
				d := d
				g.emit("addr-decoded", fn, str(d.what+" (decoded address re-encoded)"), with(f, enc(d.b)))
			}
		}
		// address with a valid checksum over a key of the wrong length
		for _, kl := range []int{0, 1, 31, 33, 64} {
			kl := kl
			g.emit("addr-keylen", fn, func() string { return fmt.Sprintf("well-formed address (valid checksum) over a %d-byte key", kl) }, with(f, []byte(keyLenAddress(kl))))
		}
	}

	// --- mutations made in the WIRE form and brought back through the node's own wire decoder (what a peer can send):
	// the amount written as (currency-k, supplementary+k*10^18), the timestamps shifted by a whole second in wire units,
	// the weight bumped; everything else as the valid vertex carries it
	wire := func(what, field string, mod func(pv *protobufcompiled.Vertex) bool) {
		g.emit("wire", field, str(what+" (changed in the protobuf form, decoded by the node's wire decoder)"), func() accountant.Vertex {
			pv := gossip.VerifVertexToProto(v)
			if pv == nil || pv.Transaction == nil || !mod(pv) {
				c := *v
				c.Weight++ // not applicable to this base: fall back to a plain weight change (refused as well)
				return c
			}
			return gossip.VerifProtoToVertex(pv)
		})
	}
	for _, k := range []uint64{1, 2, 18} {
		k := k
		wire(fmt.Sprintf("amount written as currency-%d, supplementary+%d*10^18", k, k), "Transaction.Spice", func(pv *protobufcompiled.Vertex) bool {
			sp := pv.Transaction.Spice
			if sp == nil || sp.Currency < k || k > 18 {
				return false
			}
			sp.Currency -= k
			sp.SupplementaryCurrency += k * 1_000_000_000_000_000_000
			return true
		})
	}
	wire("transaction timestamp shifted by one second", "Transaction.CreatedAt", func(pv *protobufcompiled.Vertex) bool {
		pv.Transaction.CreatedAt += 1_000_000_000
		return true
	})
	wire("vertex timestamp shifted by one second", "CreatedAt", func(pv *protobufcompiled.Vertex) bool { pv.CreatedAt += 1_000_000_000; return true })
	wire("weight increased by 2^32", "Weight", func(pv *protobufcompiled.Vertex) bool { pv.Weight += 1 << 32; return true })

	// --- transaction field changed, transaction hash recomputed, vertex re-sealed by M (issuer signature is stale)
	rs := func(fieldName, what string, mod func(c *accountant.Vertex)) {
		g.emit("reseal", fieldName, str(what+"; transaction hash recomputed and vertex re-sealed by M"), func() accountant.Vertex {
			c := *v
			mod(&c)
			reseal(&c)
			return c
		})
	}
	rs("Transaction.Subject", "one character appended to the subject", func(c *accountant.Vertex) { c.Transaction.Subject += "x" })
	rs("Transaction.Subject", "first subject bit flipped", func(c *accountant.Vertex) {
		c.Transaction.Subject = string(flip([]byte(c.Transaction.Subject), 0))
	})
	rs("Transaction.Data", "data changed in its first byte (or one byte added to empty data)", func(c *accountant.Vertex) {
		if len(c.Transaction.Data) == 0 {
			c.Transaction.Data = []byte{1}
		} else {
			c.Transaction.Data = flip(c.Transaction.Data, 0)
		}
	})
	rs("Transaction.IssuerAddress", "issuer replaced by wallet B", func(c *accountant.Vertex) { c.Transaction.IssuerAddress = world.Cast("B").Addr })
	rs("Transaction.ReceiverAddress", "receiver replaced by wallet N1", func(c *accountant.Vertex) { c.Transaction.ReceiverAddress = world.Cast("N1").Addr })
	rs("Transaction.CreatedAt", "transaction time advanced by 1 ns", func(c *accountant.Vertex) { c.Transaction.CreatedAt = c.Transaction.CreatedAt.Add(1) })
	rs("Transaction.Spice.Currency", "currency raised by 1", func(c *accountant.Vertex) { c.Transaction.Spice.Currency++ })
	rs("Transaction.Spice.SupplementaryCurrency", "supplementary currency raised by 1", func(c *accountant.Vertex) { c.Transaction.Spice.SupplementaryCurrency++ })
	rs("Transaction.ReceiverSignature", "receiver signature replaced by wallet T's valid signature", func(c *accountant.Vertex) {
		_, c.Transaction.ReceiverSignature = world.Cast("T").Sign(c.Transaction.GetMessage())
	})
	for _, kl := range []int{0, 31, 33} {
		kl := kl
		rs("Transaction.IssuerAddress", fmt.Sprintf("issuer replaced by a well-formed address over a %d-byte key", kl), func(c *accountant.Vertex) { c.Transaction.IssuerAddress = keyLenAddress(kl) })
		rs("Transaction.ReceiverAddress", fmt.Sprintf("receiver replaced by a well-formed address over a %d-byte key", kl), func(c *accountant.Vertex) { c.Transaction.ReceiverAddress = keyLenAddress(kl) })
	}
}

// ---------------------------------------------------------------- worker

type vrec struct {
	Idx       int    `json:"idx"`
	Key       string `json:"key"`
	Predicate string `json:"predicate"`
	What      string `json:"what"`
	Witness   any    `json:"witness"`
	Count     int    `json:"count"`
}

type sample struct {
	Base    string `json:"base"`
	State   string `json:"state"`
	Kind    string `json:"kind"`
	Field   string `json:"field"`
	Detail  string `json:"detail"`
	Outcome string `json:"outcome"`
	Ledger  string `json:"ledger"`
}

type wres struct {
	Shard         int               `json:"shard"`
	Bases         int               `json:"bases"`
	BasesAccepted int               `json:"bases_accepted"`
	BaseNotes     []string          `json:"base_notes"`
	Generated     int               `json:"generated"`
	GeneratedKind map[string]int    `json:"generated_kind"`
	Mine          int               `json:"mine"`
	Evaluations   int               `json:"evaluations"`
	Trivial       int               `json:"trivial"`
	Rejected      int               `json:"rejected"`
	AddrChecks    int               `json:"addr_checks"`
	PerKind       map[string]int    `json:"per_kind"`
	TrivialKind   map[string]int    `json:"trivial_kind"`
	PerClass      map[string]int    `json:"per_class"`
	PerReason     map[string]int    `json:"per_reason"`
	PerBase       map[string]int    `json:"per_base"`
	Hashes        string            `json:"hashes"`
	Viol          map[string]*vrec  `json:"viol"`
	Samples       map[string]sample `json:"samples"`
	Runs          int               `json:"runs"`
	Err           string            `json:"err"`
	WallS         float64           `json:"wall_s"`
}

func vertexWitness(v *accountant.Vertex) map[string]any {
	t := &v.Transaction
	data := hx(t.Data)
	if len(t.Data) > 64 {
		data = fmt.Sprintf("%s...(%d bytes, sha256 %s)", hx(t.Data[:32]), len(t.Data), hx(func() []byte { h := sha256.Sum256(t.Data); return h[:] }()))
	}
	return map[string]any{
		"signer_public_address": v.SignerPublicAddress, "created_at_ns": v.CreatedAt.UnixNano(), "signature": hx(v.Signature), "hash": hx(v.Hash[:]),
		"left_parent_hash": hx(v.LeftParentHash[:]), "right_parent_hash": hx(v.RightParentHash[:]), "weight": v.Weight,
		"transaction": map[string]any{"created_at_ns": t.CreatedAt.UnixNano(), "issuer_address": t.IssuerAddress, "receiver_address": t.ReceiverAddress,
			"subject": t.Subject, "data": data, "issuer_signature": hx(t.IssuerSignature), "receiver_signature": hx(t.ReceiverSignature), "hash": hx(t.Hash[:]),
			"currency": t.Spice.Currency, "supplementary_currency": t.Spice.SupplementaryCurrency},
	}
}

func panicClass(p string) string {
	switch {
	case strings.Contains(p, "bad public key length"):
		return "bad-key-length"
	case strings.Contains(p, "nil pointer"):
		return "nil-pointer"
	case strings.Contains(p, "index out of range"), strings.Contains(p, "slice bounds"):
		return "out-of-range"
	}
	var sb strings.Builder
	for _, c := range p {
		switch {
		case c >= 'a' && c <= 'z', c >= 'A' && c <= 'Z':
			sb.WriteRune(c)
		case c == ' ' || c == ':' || c == '-':
			sb.WriteByte('-')
		}
		if sb.Len() >= 40 {
			break
		}
	}
	return strings.Trim(sb.String(), "-")
}

// reasonVerifier is the repository's own verifier, recording which signature check failed and why
// (used only to classify refusals for the evidence file; the verdict comes from AddLeaf).
type reasonVerifier struct {
	inner wallet.Helper
	calls int
	last  string
}

func (r *reasonVerifier) Verify(m, s []byte, h [32]byte, a string) error {
	r.calls++
	err := r.inner.Verify(m, s, h, a)
	if err != nil {
		r.last = err.Error()
	}
	return err
}

// refusalReason re-runs Vertex.verify on the mutant and names the failing stage and cause.
func refusalReason(v *accountant.Vertex) (reason string) {
	rv := &reasonVerifier{inner: wallet.NewVerifier()}
	defer func() {
		if r := recover(); r != nil {
			reason = "verify panics"
		}
	}()
	c := *v
	if err := c.VerifVerify(rv); err == nil {
		return "verify passes"
	}
	stages := []string{"issuer", "seal"}
	if len(v.Transaction.ReceiverSignature) != 0 {
		stages = []string{"issuer", "receiver", "seal"}
	}
	st := "?"
	if rv.calls >= 1 && rv.calls <= len(stages) {
		st = stages[rv.calls-1]
	}
	var sb strings.Builder
	for _, ch := range rv.last {
		if ch >= 'a' && ch <= 'z' || ch >= 'A' && ch <= 'Z' || ch == ' ' {
			sb.WriteRune(ch)
		}
	}
	msg := strings.Join(strings.Fields(sb.String()), " ")
	if i := strings.Index(msg, "invalid base"); i >= 0 {
		msg = msg[:i] + "invalid base58 digit"
	}
	if len(msg) > 48 {
		msg = msg[:48]
	}
	return st + ": " + msg
}

var (
	addrFields = []string{"SignerPublicAddress", "Transaction.IssuerAddress", "Transaction.ReceiverAddress"}
	// kinds that corrupt an address string (as opposed to replacing it by another well-formed one)
	corrupting = map[string]bool{"bitflip": true, "truncate": true, "extend": true, "boundary-shift": true, "addr-subst": true, "addr-delete": true, "addr-insert": true, "addr-decoded": true}
)

// resolve decodes an address with the repository's helper, catching panics.
func resolve(a string) (key []byte, err error, pan string) {
	defer func() {
		if r := recover(); r != nil {
			pan = fmt.Sprint(r)
		}
	}()
	k, err := wallet.NewVerifier().AddressToPubKey(a)
	return k, err, ""
}

// offer hands a vertex to the gossip admission entry point, catching panics.
func offer(book *accountant.AccountingBook, v *accountant.Vertex) (err error, pan string) {
	defer func() {
		if r := recover(); r != nil {
			pan = fmt.Sprint(r)
		}
	}()
	return book.AddLeaf(context.Background(), v), ""
}

func sameTips(a, b [][32]byte) bool {
	if len(a) != len(b) {
		return false
	}
	for i := range a {
		if a[i] != b[i] {
			return false
		}
	}
	return true
}

func workerMain(shard, n int, only string) *wres {
	start := time.Now()
	res := &wres{Shard: shard, GeneratedKind: map[string]int{}, PerKind: map[string]int{}, TrivialKind: map[string]int{}, PerClass: map[string]int{}, PerReason: map[string]int{},
		PerBase: map[string]int{}, Viol: map[string]*vrec{}, Samples: map[string]sample{}}
	thorough := common.Tier() == "thorough"
	nodes := world.GetNodes("G")
	book := nodes[0].Book
	opt := vsched.Options{KeyFunc: world.KeyFunc, MaxSteps: 1 << 40}
	fail := func(format string, a ...any) *wres {
		res.Err = fmt.Sprintf(format, a...)
		res.WallS = time.Since(start).Seconds()
		return res
	}
	run := func(body func()) string {
		res.Runs++
		r := vsched.Run(opt, body)
		switch {
		case len(r.Panics) > 0:
			return "harness task panicked: " + r.Panics[0].Value + " in " + r.Panics[0].Where
		case r.HorizonHit:
			return "step horizon hit"
		case !r.RootDone:
			return "controlled execution did not finish (root blocked)"
		case len(r.Fatal) > 0:
			return "runtime fatal: " + r.Fatal[0]
		}
		return ""
	}

	// 1. states and bases (crafted once; rebuilt states must reproduce the same hashes)
	states := map[string]stateInfo{}
	var bases []*base
	for _, sn := range []string{"S1", "S2", "S3"} {
		sn := sn
		if e := run(func() {
			_, info := buildState(nodes, sn)
			states[sn] = info
			bases = append(bases, makeBases(info)...)
		}); e != "" {
			return fail("building %s: %s", sn, e)
		}
	}
	res.Bases = len(bases)

	// 2. non-vacuity: every base is admitted on a fresh copy of its state and appears in the ledger
	for _, b := range bases {
		b := b
		note := ""
		if e := run(func() {
			_, info := buildState(nodes, b.State)
			if !sameTips(info.tips, states[b.State].tips) {
				note = "state rebuilt with different hashes (nondeterminism not owned)"
				return
			}
			pre, _ := snapKey(book.VerifSnapshot())
			c := b.v
			err, pan := offer(book, &c)
			vsched.Settle()
			if pan != "" || err != nil {
				note = fmt.Sprintf("base rejected: err=%v panic=%q", err, pan)
				return
			}
			s := book.VerifSnapshot()
			post, _ := snapKey(s)
			found := false
			for i := range s.Vertices {
				if s.Vertices[i].Hash == b.v.Hash && encHash(b.State, &s.Vertices[i]) == b.h {
					found = true
				}
			}
			if _, ok := s.TrxIndex[b.v.Transaction.Hash]; !ok || !found || post == pre {
				note = "base reported accepted but is not in the ledger"
				return
			}
			// and a second offer of the very same vertex is refused without changing the ledger (oracle sanity)
			c2 := b.v
			err2, pan2 := offer(book, &c2)
			vsched.Settle()
			again, _ := snapKey(book.VerifSnapshot())
			if err2 == nil || pan2 != "" || again != post {
				note = fmt.Sprintf("duplicate offer of the base: err=%v panic=%q ledger-unchanged=%v", err2, pan2, again == post)
			}
		}); e != "" {
			return fail("base %s: %s", b.Name, e)
		}
		if note == "" {
			res.BasesAccepted++
		} else {
			res.BaseNotes = append(res.BaseNotes, b.State+"/"+b.Name+": "+note)
		}
	}
	if res.BasesAccepted != res.Bases {
		return fail("not every base vertex is admissible: %v", res.BaseNotes)
	}

	// 3. mutants
	g := &gen{thorough: thorough, shard: shard, n: n, generated: res.GeneratedKind}
	seen := map[[hashLen]byte]struct{}{}
	for _, b := range bases {
		b := b
		var partners []*base
		for _, p := range bases {
			if p != b && p.State == b.State {
				partners = append(partners, p)
			}
		}
		g.out = g.out[:0]
		genBase(g, b, partners)
		if only != "" && only != b.Name {
			continue
		}
		list := g.out
		res.Mine += len(list)
		i := 0
		for i < len(list) {
			if e := run(func() {
				_, info := buildState(nodes, b.State)
				if !sameTips(info.tips, states[b.State].tips) {
					panic("state rebuilt with different hashes")
				}
				pre, preSum := snapKey(book.VerifSnapshot())
				for k := 0; i < len(list) && k < chunkSize; k++ {
					m := list[i]
					i++
					mv := m.mk()
					h := encHash(b.State, &mv)
					if h == b.h && m.kind == "wire" {
						// the wire form was altered, yet the node's decoder maps it onto the valid vertex: the altered message
						// is what gets admitted (the base is admissible)
						res.Evaluations++
						res.PerKind[m.kind]++
						k := "C04.accepted/wire/" + m.field
						if r, ok := res.Viol[k]; ok {
							r.Count++
						} else {
							res.Viol[k] = &vrec{Idx: m.idx, Key: k, Predicate: "C04.mutant-rejected", Count: 1,
								What:    fmt.Sprintf("a wire form of base %s/%s with altered field values (%s) is decoded by the node onto the valid vertex and admitted as such: the signatures are not checked against the values the message carries", b.State, b.Name, m.det()),
								Witness: map[string]any{"state": b.State, "base": b.Name, "kind": m.kind, "field": m.field, "mutation": m.det()}}
						}
						continue
					}
					if h == b.h {
						res.Trivial++
						res.TrivialKind[m.kind]++
						continue
					}
					var hk [hashLen]byte
					copy(hk[:], h[:])
					seen[hk] = struct{}{}
					res.Evaluations++
					res.PerKind[m.kind]++
					res.PerBase[b.State+"/"+b.Name]++
					if corrupting[m.kind] {
						// self-checking addresses, judged directly at wallet.Helper.AddressToPubKey as well
						for _, fn := range addrFields {
							f := fieldByName(fn)
							a := string(f.get(&mv))
							if a == string(f.get(&b.v)) {
								continue
							}
							res.AddrChecks++
							key, aerr, apan := resolve(a)
							if aerr == nil || apan != "" {
								k := "C04.address-resolved/" + m.kind + "/" + fn
								if apan != "" {
									k = "C04.panic/AddressToPubKey/" + panicClass(apan)
								}
								if r, ok := res.Viol[k]; ok {
									r.Count++
								} else {
									res.Viol[k] = &vrec{Idx: m.idx, Key: k, Predicate: "C04.address-self-check", Count: 1,
										What:    fmt.Sprintf("corrupted address %q (%s of %s: %s; original %q) was not refused by AddressToPubKey: key=%x panic=%q", a, m.kind, fn, m.det(), string(f.get(&b.v)), key, apan),
										Witness: map[string]any{"state": b.State, "base": b.Name, "kind": m.kind, "field": fn, "mutation": m.det(), "original_address": string(f.get(&b.v)), "corrupted_address": a, "resolved_key": hx(key), "panic": apan}}
								}
							}
						}
					}
					offered := mv // the ledger may keep a pointer to the offered copy
					err, pan := offer(book, &offered)
					vsched.Settle()
					post, postSum := snapKey(book.VerifSnapshot())
					class := world.ErrClass(err)
					if pan != "" {
						class = "panic"
					}
					res.PerClass[class]++
					witness := func() map[string]any {
						return map[string]any{"state": b.State, "base": b.Name, "base_description": b.What, "kind": m.kind, "field": m.field, "mutation": m.det(),
							"result": class, "ledger_before": preSum, "ledger_after": postSum, "base_vertex": vertexWitness(&b.v), "mutant_vertex": vertexWitness(&mv)}
					}
					add := func(key, pred, what string) {
						if r, ok := res.Viol[key]; ok {
							r.Count++
							return
						}
						res.Viol[key] = &vrec{Idx: m.idx, Key: key, Predicate: pred, What: what, Witness: witness(), Count: 1}
					}
					switch {
					case pan != "":
						add("C04.panic/AddLeaf/"+panicClass(pan), "C04.no-panic",
							fmt.Sprintf("AddLeaf panicked (%s) on a mutant of base %s/%s: %s of %s: %s", pan, b.State, b.Name, m.kind, m.field, m.det()))
						return // fresh world
					case err == nil:
						add("C04.accepted/"+m.kind+"/"+m.field, "C04.mutant-rejected",
							fmt.Sprintf("AddLeaf admitted a mutant of base %s/%s: %s of %s: %s (ledger %s -> %s)", b.State, b.Name, m.kind, m.field, m.det(), preSum, postSum))
						return // fresh world
					case post != pre:
						add("C04.ledger-changed/"+m.kind+"/"+m.field, "C04.ledger-unchanged",
							fmt.Sprintf("AddLeaf refused (%s) a mutant of base %s/%s but the ledger changed: %s of %s: %s (ledger %s -> %s)", class, b.State, b.Name, m.kind, m.field, m.det(), preSum, postSum))
						return // fresh world
					}
					res.Rejected++
					if class == "leaf-rejected" {
						res.PerReason[refusalReason(&mv)]++
					} else {
						res.PerReason["before verification: "+class]++
					}
					if _, ok := res.Samples[m.kind]; !ok {
						res.Samples[m.kind] = sample{Base: b.Name, State: b.State, Kind: m.kind, Field: m.field, Detail: m.det(), Outcome: "rejected: " + class, Ledger: "unchanged (" + postSum + ")"}
					}
				}
			}); e != "" {
				return fail("base %s: %s", b.Name, e)
			}
		}
	}
	res.Generated = g.idx
	buf := make([]byte, 0, len(seen)*hashLen)
	for h := range seen {
		buf = append(buf, h[:]...)
	}
	res.Hashes = base64.StdEncoding.EncodeToString(buf)
	res.WallS = time.Since(start).Seconds()
	return res
}

// ---------------------------------------------------------------- master

type lineFilter struct {
	mu  sync.Mutex
	buf []byte
}

func (f *lineFilter) Write(p []byte) (int, error) {
	f.mu.Lock()
	defer f.mu.Unlock()
	f.buf = append(f.buf, p...)
	for {
		i := bytes.IndexByte(f.buf, '\n')
		if i < 0 {
			break
		}
		line := string(f.buf[:i+1])
		f.buf = f.buf[i+1:]
		if strings.HasPrefix(line, "badger ") {
			continue
		}
		os.Stderr.WriteString(line)
	}
	return len(p), nil
}

func main() {
	if len(os.Args) < 2 || os.Args[1] != "C04" {
		fmt.Fprintln(os.Stderr, "usage: vcheck C04 [-procs N] [-base name]")
		os.Exit(2)
	}
	args := os.Args[2:]
	if len(args) >= 3 && args[0] == "worker" {
		shard, _ := strconv.Atoi(args[1])
		n, _ := strconv.Atoi(args[2])
		only := ""
		if len(args) > 3 {
			only = args[3]
		}
		r := workerMain(shard, n, only)
		b, _ := json.Marshal(r)
		os.Stdout.Write(append(b, '\n'))
		return
	}
	fs := flag.NewFlagSet("C04", flag.ExitOnError)
	procs := fs.Int("procs", min(runtime.NumCPU(), 16), "worker processes")
	only := fs.String("base", "", "only mutate this base vertex (debugging; the run is then not exhaustive)")
	replayF := fs.String("replay", "", "violation artefact: re-run the check and report whether its key is still produced")
	fs.Parse(args)
	if *replayF != "" {
		if err := common.ReplayByRerun(*replayF); err != nil {
			fmt.Fprintln(os.Stderr, err)
			os.Exit(2)
		}
	}
	if *procs < 1 {
		*procs = 1
	}
	rep := common.NewReport("C04", "exploration")
	self, err := os.Executable()
	if err != nil {
		fmt.Fprintln(os.Stderr, "C04:", err)
		os.Exit(2)
	}
	results := make([]*wres, *procs)
	var wg sync.WaitGroup
	for s := 0; s < *procs; s++ {
		s := s
		wg.Add(1)
		go func() {
			defer wg.Done()
			wa := []string{"C04", "worker", strconv.Itoa(s), strconv.Itoa(*procs)}
			if *only != "" {
				wa = append(wa, *only)
			}
			cmd := exec.Command(self, wa...)
			cmd.Env = append(os.Environ(), "GOMAXPROCS=1")
			lf := &lineFilter{}
			cmd.Stderr = lf
			var out bytes.Buffer
			cmd.Stdout = &out
			runErr := cmd.Run()
			r := &wres{Shard: s}
			found := false
			for _, line := range bytes.Split(out.Bytes(), []byte{'\n'}) {
				if len(line) > 0 && line[0] == '{' {
					var x wres
					if json.Unmarshal(line, &x) == nil {
						*r = x
						found = true
					}
				}
			}
			if !found {
				r.Err = fmt.Sprintf("worker %d produced no result (%v)", s, runErr)
			}
			results[s] = r
		}()
	}
	wg.Wait()

	broken := false
	distinct := map[[hashLen]byte]struct{}{}
	perKind, trivKind, perClass, perBase, genKind, perReason := map[string]int{}, map[string]int{}, map[string]int{}, map[string]int{}, map[string]int{}, map[string]int{}
	evals, trivial, rejected, mine, runs, addrChecks := 0, 0, 0, 0, 0, 0
	generated, bases, basesAccepted := -1, -1, -1
	viol := map[string]*vrec{}
	samples := map[string]sample{}
	var maxWall float64
	for _, r := range results {
		if r.Err != "" {
			fmt.Fprintf(os.Stderr, "C04: worker %d: %s\n", r.Shard, r.Err)
			broken = true
			continue
		}
		if generated == -1 {
			generated, bases, basesAccepted, genKind = r.Generated, r.Bases, r.BasesAccepted, r.GeneratedKind
		} else if generated != r.Generated || bases != r.Bases {
			fmt.Fprintf(os.Stderr, "C04: worker %d enumerated %d mutants of %d bases, worker 0 %d of %d (generator not deterministic)\n", r.Shard, r.Generated, r.Bases, generated, bases)
			broken = true
		}
		if r.BasesAccepted < basesAccepted {
			basesAccepted = r.BasesAccepted
		}
		evals += r.Evaluations
		trivial += r.Trivial
		rejected += r.Rejected
		addrChecks += r.AddrChecks
		mine += r.Mine
		runs += r.Runs
		if r.WallS > maxWall {
			maxWall = r.WallS
		}
		for k, n := range r.PerKind {
			perKind[k] += n
		}
		for k, n := range r.TrivialKind {
			trivKind[k] += n
		}
		for k, n := range r.PerClass {
			perClass[k] += n
		}
		for k, n := range r.PerBase {
			perBase[k] += n
		}
		for k, n := range r.PerReason {
			perReason[k] += n
		}
		hb, _ := base64.StdEncoding.DecodeString(r.Hashes)
		for i := 0; i+hashLen <= len(hb); i += hashLen {
			var h [hashLen]byte
			copy(h[:], hb[i:])
			distinct[h] = struct{}{}
		}
		for k, v := range r.Viol {
			if o, ok := viol[k]; ok {
				n := o.Count + v.Count
				if v.Idx < o.Idx {
					viol[k] = v
				}
				viol[k].Count = n
			} else {
				viol[k] = v
			}
		}
		for k, s := range r.Samples {
			if _, ok := samples[k]; !ok {
				samples[k] = s
			}
		}
	}
	if broken {
		fmt.Fprintln(os.Stderr, "C04: run incomplete, no verdict")
		os.Exit(2)
	}
	exhaustive := *only == "" && mine == generated && evals+trivial == generated
	if *only == "" && !exhaustive {
		fmt.Fprintf(os.Stderr, "C04: %d mutants enumerated but %d assigned and %d offered + %d trivial\n", generated, mine, evals, trivial)
		os.Exit(2)
	}

	var keys []string
	for k := range viol {
		keys = append(keys, k)
	}
	sort.Strings(keys)
	for _, k := range keys {
		v := viol[k]
		for i := 0; i < v.Count; i++ { // Report counts occurrences by Add calls
			rep.Add(common.Violation{Predicate: v.Predicate, Key: v.Key, What: v.What, Scenario: "PRODUCT mutant of a valid base vertex offered to AccountingBook.AddLeaf", Witness: v.Witness})
		}
	}
	var kinds []string
	for k := range samples {
		kinds = append(kinds, k)
	}
	sort.Strings(kinds)
	// prefer one sample of each of the most characteristic kinds, at most 8
	pref := []string{"bitflip", "boundary-shift", "swap", "strip", "replace-signature", "addr-subst", "reseal", "truncate"}
	used := map[string]bool{}
	for _, k := range append(pref, kinds...) {
		if s, ok := samples[k]; ok && !used[k] && rep.SampleCount() < 8 {
			used[k] = true
			rep.Sample(s)
		}
	}
	for _, k := range keys { // accepted mutants are explored cases as well
		if rep.SampleCount() < 8 {
			w, _ := viol[k].Witness.(map[string]any)
			rep.Sample(map[string]any{"base": w["base"], "state": w["state"], "kind": w["kind"], "field": w["field"], "detail": w["mutation"], "outcome": "VIOLATION " + k})
		}
	}

	rep.Set("evaluations", evals)
	rep.Set("distinct_nontrivial", len(distinct))
	rep.Set("mutants_enumerated", generated)
	rep.Set("trivial_skipped", trivial)
	rep.Set("rejected_with_unchanged_ledger", rejected)
	rep.Set("violating_mutants", evals-rejected)
	rep.Set("corrupted_addresses_refused_by_AddressToPubKey", addrChecks)
	rep.Set("exhaustive", exhaustive)
	rep.Set("base_vertices", bases)
	rep.Set("base_vertices_accepted", basesAccepted)
	rep.Set("ledger_states", 2)
	rep.Set("per_kind_offered", perKind)
	rep.Set("per_kind_enumerated", genKind)
	rep.Set("per_kind_trivial", trivKind)
	rep.Set("per_base_offered", perBase)
	rep.Set("rejection_classes", perClass)
	rep.Set("refusal_reasons", perReason)
	rep.Set("controlled_executions", runs)
	rep.Set("workers", *procs)
	rep.Set("worker_wall_s_max", maxWall)
	rep.Set("rule", "PRODUCT driver, complete and deterministic (no sampling): for each of the base vertices (each shown to be admitted by AddLeaf on a fresh copy of its ledger state) every member of the declared mutation alphabet is constructed once: "+
		"single-bit flips of every bit of Hash, LeftParentHash, RightParentHash, Transaction.Hash, Weight, CreatedAt, Transaction.CreatedAt, Spice.Currency, Spice.SupplementaryCurrency, Signature, IssuerSignature, ReceiverSignature and of the first/last two bytes of Subject, Data and the three addresses (thorough: every bit of fields up to 128 bytes); "+
		"two-bit flips inside each hash and 64-bit field (quick: adjacent pairs, thorough: all pairs); truncate/extend by one byte at either end of every byte field; moving 1, 2 or all bytes across each adjacent boundary of the signed message subject|data|issuer|receiver in both directions; "+
		"every field (and parents, whole transaction, amounts, seal) taken from every other valid base of the same state; own-field exchanges; stripped signatures; valid signatures of other wallets over the same message; other cast wallets' addresses; "+
		"every single-character substitution (quick: 4 per position, thorough: all 57 + 4 non-alphabet), deletion and insertion (quick: 3 per position, thorough: 58) in the three addresses; well-formed addresses over keys of 0/1/31/33/64 bytes; transaction-field changes with recomputed transaction hash and vertex re-sealed by M. "+
		"Each mutant is offered to the real AccountingBook.AddLeaf (instrumented build, deterministic schedule) in the state in which its base is admissible. evaluations = mutants offered. A mutant is trivial (skipped, not offered) when the canonical encoding of all its fields equals the base's; "+
		"distinct_nontrivial = number of distinct sha256 digests (first 12 bytes) of (state, full length-prefixed encoding of every vertex and transaction field) among the offered mutants, all of which differ from their base in at least one signed field or signature.")
	rep.Assume("the instrumented copy built by bin/check differs from the repository only in scheduling hooks; wallet/serializer/crypto code is untouched; every violation key is re-executed on the un-instrumented packages during triage")
	rep.Assume("signature verification is memoised per (message, signature, hash, address) by the harness verifier (pure function); panics are not memoised")
	rep.Assume("one node, no concurrency: mutants are offered sequentially on the non-pre-emptive default schedule; after an admitted or panicking mutant the world is rebuilt")
	rep.Assume("mutants outside the declared alphabet (e.g. three-bit flips, forged signatures under small-order keys) are not covered")
	os.Exit(rep.Finish())
}
