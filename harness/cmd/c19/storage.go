package main

import (
	"context"
	"fmt"
	"math"
	"sort"
	"time"

	"github.com/bartossh/Computantis/src/accountant"
	"github.com/bartossh/Computantis/src/spice"
	"github.com/bartossh/Computantis/src/transaction"
	"verif.local/harness/common"
	"verif.local/harness/world"
	"verif.local/vsched"
)

// Storage part: the msgpack form as the NODE uses it. Vertices with boundary contents are written straight into a
// real ledger's checkpoint storage (the way truncation writes them) and read back through the public read path
// (ReadVertex / ReadTransactionByHash fall through the DAG to storage). Every look-up is made first; the answers are
// compared afterwards, so an answer must still be intact after the later look-ups (no shared read buffers), and a
// second pass over the same hashes must give the same answers.

type storedCase struct {
	name string
	v    accountant.Vertex
}

func storageCases() []storedCase {
	var l, r [32]byte
	copy(l[:], fillBytes(32, 41))
	copy(r[:], fillBytes(32, 42))
	mk := func(name string, t transaction.Transaction, w uint64, at time.Time) storedCase {
		v, err := accountant.NewVertex(t, l, r, w, actN)
		if err != nil {
			panic("c19 storage: NewVertex: " + err.Error())
		}
		v.CreatedAt = at
		v.Hash, v.Signature = actN.Sign(v.VerifDigestInput())
		return storedCase{name, v}
	}
	base := world.BaseTime.Add(2 * time.Hour)
	return []storedCase{
		mk("plain transfer", world.MakeTx(actA, actB.Addr, "transfer", nil, sp(10, 5), 7001), 1, base),
		mk("empty data slice", world.MakeTx(actA, actB.Addr, "transfer", []byte{}, sp(1, 0), 7002), 255, base.Add(time.Nanosecond)),
		mk("countersigned contract, 256 data bytes", world.CounterSign(world.MakeTx(actA, actB.Addr, "contract", fillBytes(256, 9), sp(0, 0), 7003), actB), 256, base.Add(time.Second)),
		mk("countersigned contract, 65536 data bytes, extreme amount", world.CounterSign(world.MakeTx(actA, actB.Addr, fillASCII(255, 1), fillBytes(65536, 9), spice.Melange{Currency: math.MaxUint64, SupplementaryCurrency: 999_999_999_999_999_999}, 7004), actB), 1<<32, base.Add(time.Minute)),
		mk("self transfer, multi-byte subject", world.MakeTx(actC, actC.Addr, "zażółć", []byte{0}, sp(1<<32, 1<<16), 7005), 1<<63, base.Add(time.Hour)),
		mk("one data byte", world.MakeTx(actB, actA.Addr, "x", []byte{0xff}, sp(0, 1), 7006), math.MaxUint64, time.Unix(1<<32, 1)),
		mk("31 data bytes", world.MakeTx(actB, actC.Addr, "contract", fillBytes(31, 3), sp(0, 0), 7007), 2, time.Unix(1, 0)),
		mk("33 data bytes, countersigned", world.CounterSign(world.MakeTx(actC, actA.Addr, "contract", fillBytes(33, 4), sp(0, 0), 7008), actA), 3, base.Add(3*time.Hour)),
	}
}

func storagePart(rep *common.Report) int {
	cases := storageCases()
	nodes := world.GetNodes("G")
	type answer struct {
		v    accountant.Vertex
		err  error
		t    transaction.Transaction
		terr error
	}
	passes := make([][]answer, 2)
	var storeErr error
	res := vsched.Run(vsched.Options{KeyFunc: world.KeyFunc, MaxSteps: 1 << 40}, func() {
		vsched.Quiet(true)
		world.NewLW(nodes, spice.Melange{Currency: 10}, 0)
		b := nodes[0].Book
		for i := range cases {
			v := cases[i].v
			if err := b.VerifStoreVertex(&v); err != nil {
				storeErr = fmt.Errorf("%s: %w", cases[i].name, err)
				return
			}
		}
		ctx := context.Background()
		for p := range passes {
			order := make([]int, len(cases))
			for i := range order {
				order[i] = i
				if p == 1 {
					order[i] = len(cases) - 1 - i
				}
			}
			passes[p] = make([]answer, len(cases))
			for _, i := range order {
				var a answer
				a.v, a.err = b.ReadVertex(ctx, cases[i].v.Hash)
				a.t, a.terr = b.ReadTransactionByHash(ctx, cases[i].v.Transaction.Hash)
				passes[p][i] = a
			}
		}
	})
	if storeErr != nil || !res.RootDone {
		fmt.Fprintf(os_stderr(), "c19 storage part: harness error: store=%v completed=%v\n", storeErr, res.RootDone)
		return 2
	}
	ver := world.NewVerifier()
	reads := 0
	for p := range passes {
		for i, c := range cases {
			a := passes[p][i]
			reads += 2
			name := fmt.Sprintf("stored vertex %q (pass %d, judged after all look-ups of the pass)", c.name, p+1)
			if a.err != nil {
				rep.Add(common.Violation{Predicate: "C19.storage-path", Key: "C19.storage/read-vertex-failed", What: name + ": ReadVertex failed: " + a.err.Error(), Witness: map[string]any{"mode": "storage", "case": c.name}})
				continue
			}
			var ds []diff
			orig := c.v
			cmpVertex(&ds, &orig, &a.v)
			ds = signedDiffs(ds)
			if len(ds) > 0 {
				var fs []string
				for _, d := range ds {
					fs = append(fs, fieldName[d.f])
				}
				sort.Strings(fs)
				rep.Add(common.Violation{Predicate: "C19.storage-path", Key: "C19.storage/field-changed/" + fs[0],
					What: fmt.Sprintf("%s: signed fields differ from what was stored: %v (first: %s %s -> %s)", name, fs, fieldName[ds[0].f], ds[0].before, ds[0].after), Witness: map[string]any{"mode": "storage", "case": c.name}})
			}
			if got := vertexVerdict(ver, &a.v); got != "accepted" {
				rep.Add(common.Violation{Predicate: "C19.storage-path", Key: "C19.storage/verify-changed", What: name + ": the vertex read back no longer verifies: " + got, Witness: map[string]any{"mode": "storage", "case": c.name}})
			}
			if a.terr != nil {
				rep.Add(common.Violation{Predicate: "C19.storage-path", Key: "C19.storage/read-transaction-failed", What: name + ": ReadTransactionByHash failed: " + a.terr.Error(), Witness: map[string]any{"mode": "storage", "case": c.name}})
				continue
			}
			var dt []diff
			cmpTrx(&dt, &orig.Transaction, &a.t)
			dt = signedDiffs(dt)
			if len(dt) > 0 {
				rep.Add(common.Violation{Predicate: "C19.storage-path", Key: "C19.storage/transaction-field-changed/" + fieldName[dt[0].f],
					What: fmt.Sprintf("%s: the transaction read by hash differs in %s: %s -> %s", name, fieldName[dt[0].f], dt[0].before, dt[0].after), Witness: map[string]any{"mode": "storage", "case": c.name}})
			}
		}
	}
	rep.Set("storage_path_vertices", len(cases))
	rep.Set("storage_path_reads", reads)
	return 0
}
