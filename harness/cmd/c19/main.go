// c19 decides property C19 ("vertices and transactions survive every
// transcoding unchanged") by PRODUCT enumeration: a declared finite alphabet
// of boundary values per field is enumerated completely (every single-field
// sweep, every pair of fields, a reduced 3-value product over all fields) and
// every constructed object is pushed through every transcoding path of the
// real code; the oracle compares every signed field, the signed byte strings
// and the verification verdict before and after.
//
//	vcheck C19                 run the check (tier from VERIF_TIER)
//	vcheck C19 --replay <file> re-evaluate the witness of a replay artefact
package main

import (
	"bytes"
	"encoding/hex"
	"encoding/json"
	"fmt"
	"math"
	"os"
	"reflect"
	"regexp"
	"runtime"
	"runtime/debug"
	"runtime/pprof"
	"sort"
	"strings"
	"sync"
	"sync/atomic"
	"time"

	"google.golang.org/protobuf/proto"

	"github.com/bartossh/Computantis/src/accountant"
	"github.com/bartossh/Computantis/src/gossip"
	"github.com/bartossh/Computantis/src/protobufcompiled"
	"github.com/bartossh/Computantis/src/spice"
	"github.com/bartossh/Computantis/src/transaction"
	"github.com/bartossh/Computantis/src/transformers"
	"verif.local/harness/common"
	"verif.local/harness/world"
)

// ---------------------------------------------------------------- fields

const (
	fSubject = iota
	fData
	fIssuer
	fReceiver
	fTCreated
	fCur
	fSupp
	fTHash
	fISig
	fRSig
	fSigner
	fVCreated
	fVSig
	fVHash
	fLeft
	fRight
	fWeight
	nFields
)

const nTrxFields = fRSig + 1

var fieldName = [nFields]string{
	"Subject", "Data", "IssuerAddress", "ReceiverAddress", "Transaction.CreatedAt",
	"Spice.Currency", "Spice.SupplementaryCurrency", "Transaction.Hash", "IssuerSignature", "ReceiverSignature",
	"SignerPublicAddress", "CreatedAt", "Signature", "Hash", "LeftParentHash", "RightParentHash", "Weight",
}

// val is one alphabet value of one field (only the member matching the field's type is used).
type val struct {
	label   string
	s       string
	b       []byte
	u       uint64
	t       time.Time
	h       [32]byte
	derived bool // computed by signing with the owning actor once the other fields are set
}

type spec [nFields]uint8 // index into alpha[f]; 0 is the nominal value

var (
	alpha [nFields][]val    // full alphabets; alpha[f][0] is nominal
	red   [nFields][3]uint8 // 3-value reduction per field (indices into alpha[f])
)

const (
	pVertexProto = iota
	pTrxProto
	pVertexMsgpack
	pTrxMsgpack
	pSpiceMsgpack
	pBalanceMsgpack
	nPaths
)

var pathName = [nPaths]string{"vertex-proto", "trx-proto", "vertex-msgpack", "trx-msgpack", "spice-msgpack", "balance-msgpack"}

// ---------------------------------------------------------------- alphabets

var lengths = []int{0, 1, 31, 32, 33, 255, 256, 65535, 65536}

var uints = []struct {
	l string
	v uint64
}{
	{"u0", 0}, {"u1", 1}, {"u2^7-1", 1<<7 - 1}, {"u2^7", 1 << 7}, {"u2^8-1", 1<<8 - 1}, {"u2^8", 1 << 8},
	{"u2^16-1", 1<<16 - 1}, {"u2^16", 1 << 16}, {"u2^32-1", 1<<32 - 1}, {"u2^32", 1 << 32},
	{"u2^63-1", 1<<63 - 1}, {"u2^63", 1 << 63}, {"u2^64-1", math.MaxUint64},
}

func fillBytes(n int, salt byte) []byte {
	b := make([]byte, n)
	x := uint32(0x9e3779b9) ^ uint32(salt)*0x01000193
	for i := range b {
		x ^= x << 13
		x ^= x >> 17
		x ^= x << 5
		b[i] = byte(x >> 11)
	}
	// make sure the interesting byte values occur at the edges
	if n > 0 {
		b[0] = 0xff
	}
	if n > 1 {
		b[n-1] = 0x00
	}
	return b
}

func fillASCII(n int, salt byte) string {
	const cs = "abcdefghijklmnopqrstuvwxyzABCDEFGHIJKLMNOPQRSTUVWXYZ0123456789-_ "
	b := make([]byte, n)
	for i := range b {
		b[i] = cs[(i*7+int(salt))%len(cs)]
	}
	return string(b)
}

func strLengths(salt byte) []val {
	var out []val
	for _, n := range lengths {
		out = append(out, val{label: fmt.Sprintf("len%d", n), s: fillASCII(n, salt)})
	}
	return out
}

func byteLengths(salt byte, skipZero bool) []val {
	var out []val
	for _, n := range lengths {
		if n == 0 && skipZero {
			continue
		}
		out = append(out, val{label: fmt.Sprintf("len%d", n), b: fillBytes(n, salt)})
	}
	return out
}

func uintAlpha(nominal uint64) []val {
	out := []val{{label: "nominal", u: nominal}}
	for _, u := range uints {
		out = append(out, val{label: u.l, u: u.v})
	}
	return out
}

func timeAlpha(nominal time.Time, now time.Time) []val {
	return []val{
		{label: "nominal", t: nominal},
		{label: "t-epoch", t: time.Unix(0, 0)},
		{label: "t-1ns", t: time.Unix(0, 1)},
		{label: "t-2^32s", t: time.Unix(1<<32, 0)},
		{label: "t-2^34s", t: time.Unix(1<<34, 0)},
		{label: "t-negative-1960", t: time.Date(1960, 2, 29, 23, 59, 59, 987654321, time.UTC)},
		{label: "t-maxint64ns", t: time.Unix(0, math.MaxInt64)},
		{label: "t-minint64ns", t: time.Unix(0, math.MinInt64)},
		{label: "t-zero", t: time.Time{}},
		{label: "t-nonUTC-location", t: time.Date(2023, 11, 14, 17, 30, 0, 123456789, time.FixedZone("X+0530", 5*3600+1800))},
		{label: "t-monotonic-now", t: now},
	}
}

func addrAlpha(nominal, other string) []val {
	return []val{
		{label: "nominal", s: nominal},
		{label: "other-cast-address", s: other},
		{label: "empty", s: ""},
		{label: "one-char", s: "x"},
		{label: "len300", s: fillASCII(300, 3)},
		{label: "non-utf8", s: "\xff\xfe\x80addr\xc3\x28\xa0\xa1"},
	}
}

func hashAlpha(nominal val) []val {
	var ff, rnd [32]byte
	for i := range ff {
		ff[i] = 0xff
	}
	copy(rnd[:], fillBytes(32, 77))
	return []val{nominal, {label: "h-zero"}, {label: "h-ff", h: ff}, {label: "h-fixed", h: rnd}}
}

var (
	actA, actB, actC, actN *world.Actor
	actors                 map[string]*world.Actor
)

func initAlphabets() {
	actA, actB, actC, actN = world.Cast("A"), world.Cast("B"), world.Cast("C"), world.Cast("N")
	actors = map[string]*world.Actor{actA.Addr: actA, actB.Addr: actB, actC.Addr: actC, actN.Addr: actN}
	now := time.Now()
	if !strings.Contains(now.String(), "m=") {
		panic("c19: time.Now() carries no monotonic reading")
	}

	alpha[fSubject] = append([]val{{label: "nominal", s: "transfer"}}, strLengths(1)...)
	alpha[fSubject] = append(alpha[fSubject],
		val{label: "non-utf8", s: "\xff\xfesubject\x80\xc3\x28"},
		val{label: "utf8-multibyte", s: "zażółć 日本 \U0001F600"})
	alpha[fData] = append([]val{{label: "nominal", b: []byte("payload\x00\xff")}, {label: "nil", b: nil}}, byteLengths(2, false)...)
	alpha[fIssuer] = addrAlpha(actA.Addr, actC.Addr)
	alpha[fReceiver] = addrAlpha(actB.Addr, actC.Addr)
	alpha[fTCreated] = timeAlpha(world.BaseTime, now)
	alpha[fCur] = uintAlpha(10)
	alpha[fSupp] = uintAlpha(5)
	alpha[fTHash] = hashAlpha(val{label: "nominal", derived: true})
	alpha[fISig] = append([]val{{label: "nominal", derived: true}, {label: "nil", b: nil}}, byteLengths(4, false)...)
	alpha[fRSig] = append([]val{{label: "nominal", b: []byte{}}, {label: "nil", b: nil}, {label: "countersigned", derived: true}}, byteLengths(5, true)...)
	alpha[fSigner] = addrAlpha(actN.Addr, actC.Addr)
	alpha[fVCreated] = timeAlpha(world.BaseTime.Add(time.Second+12345*time.Nanosecond), now.Add(time.Millisecond))
	alpha[fVSig] = append([]val{{label: "nominal", derived: true}, {label: "nil", b: nil}}, byteLengths(6, false)...)
	alpha[fVHash] = hashAlpha(val{label: "nominal", derived: true})
	var l, r [32]byte
	copy(l[:], fillBytes(32, 21))
	copy(r[:], fillBytes(32, 22))
	alpha[fLeft] = hashAlpha(val{label: "nominal", h: l})
	alpha[fRight] = hashAlpha(val{label: "nominal", h: r})
	alpha[fWeight] = uintAlpha(7)

	pick := func(f int, labels ...string) {
		for i, lb := range labels {
			red[f][i] = idx(f, lb)
		}
	}
	// 3-value reduction: one value per wire-format class of the field (fixstr/str8/str16, nil/bin8/bin16,
	// timestamp32/64/96, fixint/uint32+/uint64, ...). Signature/hash fields use fixed bytes (no signing).
	pick(fSubject, "len31", "len32", "len256")
	pick(fData, "nil", "len1", "len256")
	pick(fIssuer, "nominal", "one-char", "len300")
	pick(fReceiver, "nominal", "one-char", "len300")
	pick(fTCreated, "nominal", "t-1ns", "t-negative-1960")
	pick(fCur, "u0", "u2^32", "u2^64-1")
	pick(fSupp, "u1", "u2^16", "u2^63")
	pick(fTHash, "h-zero", "h-ff", "h-fixed")
	pick(fISig, "len1", "len32", "len256")
	pick(fRSig, "nil", "nominal", "len33")
	pick(fSigner, "nominal", "one-char", "len300")
	pick(fVCreated, "nominal", "t-2^32s", "t-minint64ns")
	pick(fVSig, "nil", "len33", "len256")
	pick(fVHash, "h-zero", "h-ff", "h-fixed")
	pick(fLeft, "h-zero", "h-ff", "nominal")
	pick(fRight, "h-zero", "h-fixed", "nominal")
	pick(fWeight, "u0", "u2^8", "u2^63")

	// the values of one field must be pairwise distinct, otherwise "distinct objects" would be over-counted
	for f := 0; f < nFields; f++ {
		if len(alpha[f]) > 255 {
			panic("alphabet too large")
		}
		for i := range alpha[f] {
			for j := i + 1; j < len(alpha[f]); j++ {
				a, b := alpha[f][i], alpha[f][j]
				a.label, b.label = "", ""
				if reflect.DeepEqual(a, b) {
					panic(fmt.Sprintf("c19: duplicate alphabet value %s: %s = %s", fieldName[f], alpha[f][i].label, alpha[f][j].label))
				}
			}
		}
	}
}

func idx(f int, label string) uint8 {
	for i, v := range alpha[f] {
		if v.label == label {
			return uint8(i)
		}
	}
	panic("c19: no alphabet value " + fieldName[f] + "=" + label)
}

// ---------------------------------------------------------------- construction

func actorFor(addr string, fallback *world.Actor) *world.Actor {
	if a, ok := actors[addr]; ok {
		return a
	}
	return fallback
}

func buildTrx(sp *spec) transaction.Transaction {
	t := transaction.Transaction{
		Subject:         alpha[fSubject][sp[fSubject]].s,
		Data:            alpha[fData][sp[fData]].b,
		IssuerAddress:   alpha[fIssuer][sp[fIssuer]].s,
		ReceiverAddress: alpha[fReceiver][sp[fReceiver]].s,
		CreatedAt:       alpha[fTCreated][sp[fTCreated]].t,
		Spice:           spice.Melange{Currency: alpha[fCur][sp[fCur]].u, SupplementaryCurrency: alpha[fSupp][sp[fSupp]].u},
	}
	hv, sv, rv := &alpha[fTHash][sp[fTHash]], &alpha[fISig][sp[fISig]], &alpha[fRSig][sp[fRSig]]
	t.Hash, t.IssuerSignature, t.ReceiverSignature = hv.h, sv.b, rv.b
	if hv.derived || sv.derived {
		h, s := actorFor(t.IssuerAddress, actA).Sign(t.GetMessage()) // exactly what world.MakeTx / transaction.New do
		if hv.derived {
			t.Hash = h
		}
		if sv.derived {
			t.IssuerSignature = s
		}
	}
	if rv.derived {
		_, s := actorFor(t.ReceiverAddress, actB).Sign(t.GetMessage()) // world.CounterSign
		t.ReceiverSignature = s
	}
	return t
}

func buildVertex(sp *spec) accountant.Vertex {
	v := accountant.Vertex{
		SignerPublicAddress: alpha[fSigner][sp[fSigner]].s,
		CreatedAt:           alpha[fVCreated][sp[fVCreated]].t,
		Transaction:         buildTrx(sp),
		LeftParentHash:      alpha[fLeft][sp[fLeft]].h,
		RightParentHash:     alpha[fRight][sp[fRight]].h,
		Weight:              alpha[fWeight][sp[fWeight]].u,
	}
	hv, sv := &alpha[fVHash][sp[fVHash]], &alpha[fVSig][sp[fVSig]]
	v.Hash, v.Signature = hv.h, sv.b
	if hv.derived || sv.derived {
		h, s := actorFor(v.SignerPublicAddress, actN).Sign(v.VerifDigestInput()) // exactly Vertex.sign
		if hv.derived {
			v.Hash = h
		}
		if sv.derived {
			v.Signature = s
		}
	}
	return v
}

// ---------------------------------------------------------------- paths

type pathErr struct {
	stage string
	panic bool
	err   string
}

func guard(stage *string, pe **pathErr) {
	if r := recover(); r != nil {
		*pe = &pathErr{stage: *stage, panic: true, err: fmt.Sprint(r)}
	}
}

func vertexProto(v *accountant.Vertex) (out accountant.Vertex, pe *pathErr) {
	stage := "to-proto"
	defer guard(&stage, &pe)
	pv := gossip.VerifVertexToProto(v)
	stage = "wire-marshal"
	wire, err := proto.Marshal(pv)
	if err != nil {
		return out, &pathErr{stage: stage, err: err.Error()}
	}
	stage = "wire-unmarshal"
	var pv2 protobufcompiled.Vertex
	if err := proto.Unmarshal(wire, &pv2); err != nil {
		return out, &pathErr{stage: stage, err: err.Error()}
	}
	stage = "from-proto"
	out = gossip.VerifProtoToVertex(&pv2)
	return out, nil
}

// documented validation of the transformers (src/transformers/transaction.go)
func documentedRefusalOut(t *transaction.Transaction) bool {
	return t.Subject == "" || t.IssuerAddress == "" || t.ReceiverAddress == "" || t.CreatedAt.IsZero() || len(t.IssuerSignature) == 0
}

func documentedRefusalIn(p *protobufcompiled.Transaction) bool {
	return p == nil || p.Subject == "" || p.IssuerAddress == "" || p.ReceiverAddress == "" || len(p.Hash) == 0 ||
		p.CreatedAt == 0 || len(p.IssuerSignature) == 0
}

// trxProto returns refused = "" (not refused), "outbound" or "inbound".
func trxProto(t *transaction.Transaction) (out transaction.Transaction, refused string, pe *pathErr) {
	stage := "to-proto"
	defer guard(&stage, &pe)
	pt, err := world.TrxToProto(*t)
	if err != nil {
		if documentedRefusalOut(t) {
			return out, "outbound", nil
		}
		return out, "", &pathErr{stage: stage, err: err.Error()}
	}
	stage = "wire-marshal"
	wire, err := proto.Marshal(pt)
	if err != nil {
		return out, "", &pathErr{stage: stage, err: err.Error()}
	}
	stage = "wire-unmarshal"
	var pt2 protobufcompiled.Transaction
	if err := proto.Unmarshal(wire, &pt2); err != nil {
		return out, "", &pathErr{stage: stage, err: err.Error()}
	}
	stage = "from-proto"
	out, err = transformers.ProtoTrxToTrx(&pt2)
	if err != nil {
		if documentedRefusalIn(&pt2) {
			return out, "inbound", nil
		}
		return out, "", &pathErr{stage: stage, err: err.Error()}
	}
	return out, "", nil
}

func vertexMsgpack(v *accountant.Vertex) (out accountant.Vertex, pe *pathErr) {
	stage := "encode"
	defer guard(&stage, &pe)
	buf, err := accountant.VerifEncodeVertex(v)
	if err != nil {
		return out, &pathErr{stage: stage, err: err.Error()}
	}
	stage = "decode"
	out, err = accountant.VerifDecodeVertex(buf)
	if err != nil {
		return out, &pathErr{stage: stage, err: err.Error()}
	}
	return out, nil
}

func trxMsgpack(t *transaction.Transaction) (out transaction.Transaction, pe *pathErr) {
	stage := "encode"
	defer guard(&stage, &pe)
	buf, err := t.Encode()
	if err != nil {
		return out, &pathErr{stage: stage, err: err.Error()}
	}
	stage = "decode"
	out, err = transaction.Decode(buf)
	if err != nil {
		return out, &pathErr{stage: stage, err: err.Error()}
	}
	return out, nil
}

func spiceMsgpack(m *spice.Melange) (out spice.Melange, pe *pathErr) {
	stage := "encode"
	defer guard(&stage, &pe)
	buf, err := m.Encode()
	if err != nil {
		return out, &pathErr{stage: stage, err: err.Error()}
	}
	stage = "decode"
	out, err = spice.Decode(buf)
	if err != nil {
		return out, &pathErr{stage: stage, err: err.Error()}
	}
	return out, nil
}

func balanceMsgpack(b *accountant.Balance) (out accountant.Balance, pe *pathErr) {
	stage := "encode"
	defer guard(&stage, &pe)
	buf, err := accountant.VerifEncodeBalance(b)
	if err != nil {
		return out, &pathErr{stage: stage, err: err.Error()}
	}
	stage = "decode"
	out, err = accountant.VerifDecodeBalance(buf)
	if err != nil {
		return out, &pathErr{stage: stage, err: err.Error()}
	}
	return out, nil
}

// ---------------------------------------------------------------- comparison

type diff struct {
	f        int // field index
	nilOnly  bool
	before   string
	after    string
	timeLike bool
}

func showBytes(b []byte) string {
	if b == nil {
		return "nil"
	}
	if len(b) <= 12 {
		return fmt.Sprintf("len=%d %x", len(b), b)
	}
	return fmt.Sprintf("len=%d %x..%x", len(b), b[:6], b[len(b)-4:])
}

func showStr(s string) string {
	if len(s) <= 24 {
		return fmt.Sprintf("len=%d %q", len(s), s)
	}
	return fmt.Sprintf("len=%d %q..", len(s), s[:16])
}

func showTime(t time.Time) string {
	return fmt.Sprintf("UnixNano=%d (%s)", t.UnixNano(), t.UTC().Format(time.RFC3339Nano))
}

func cmpBytes(ds *[]diff, f int, a, b []byte) {
	if !bytes.Equal(a, b) {
		*ds = append(*ds, diff{f: f, before: showBytes(a), after: showBytes(b)})
	} else if (a == nil) != (b == nil) {
		*ds = append(*ds, diff{f: f, nilOnly: true, before: showBytes(a), after: showBytes(b)})
	}
}

func cmpStr(ds *[]diff, f int, a, b string) {
	if a != b {
		*ds = append(*ds, diff{f: f, before: showStr(a), after: showStr(b)})
	}
}

func cmpU(ds *[]diff, f int, a, b uint64) {
	if a != b {
		*ds = append(*ds, diff{f: f, before: fmt.Sprint(a), after: fmt.Sprint(b)})
	}
}

func cmpTime(ds *[]diff, f int, a, b time.Time) {
	// only the signed quantity: CreatedAt.UnixNano(); location and monotonic reading are not signed
	if a.UnixNano() != b.UnixNano() {
		*ds = append(*ds, diff{f: f, before: showTime(a), after: showTime(b), timeLike: true})
	}
}

func cmpHash(ds *[]diff, f int, a, b [32]byte) {
	if a != b {
		*ds = append(*ds, diff{f: f, before: hex.EncodeToString(a[:]), after: hex.EncodeToString(b[:])})
	}
}

func cmpTrx(ds *[]diff, a, b *transaction.Transaction) {
	cmpStr(ds, fSubject, a.Subject, b.Subject)
	cmpBytes(ds, fData, a.Data, b.Data)
	cmpStr(ds, fIssuer, a.IssuerAddress, b.IssuerAddress)
	cmpStr(ds, fReceiver, a.ReceiverAddress, b.ReceiverAddress)
	cmpTime(ds, fTCreated, a.CreatedAt, b.CreatedAt)
	cmpU(ds, fCur, a.Spice.Currency, b.Spice.Currency)
	cmpU(ds, fSupp, a.Spice.SupplementaryCurrency, b.Spice.SupplementaryCurrency)
	cmpHash(ds, fTHash, a.Hash, b.Hash)
	cmpBytes(ds, fISig, a.IssuerSignature, b.IssuerSignature)
	cmpBytes(ds, fRSig, a.ReceiverSignature, b.ReceiverSignature)
}

func cmpVertex(ds *[]diff, a, b *accountant.Vertex) {
	cmpTrx(ds, &a.Transaction, &b.Transaction)
	cmpStr(ds, fSigner, a.SignerPublicAddress, b.SignerPublicAddress)
	cmpTime(ds, fVCreated, a.CreatedAt, b.CreatedAt)
	cmpBytes(ds, fVSig, a.Signature, b.Signature)
	cmpHash(ds, fVHash, a.Hash, b.Hash)
	cmpHash(ds, fLeft, a.LeftParentHash, b.LeftParentHash)
	cmpHash(ds, fRight, a.RightParentHash, b.RightParentHash)
	cmpU(ds, fWeight, a.Weight, b.Weight)
}

// inRange reports whether UnixNano() of t is well defined (t lies inside the int64-nanosecond range).
func inRange(t time.Time) bool { return time.Unix(0, t.UnixNano()).Equal(t) }

func trxVerdict(ver *world.MemoVerifier, t *transaction.Transaction) (s string) {
	defer func() {
		if r := recover(); r != nil {
			s = "panic: " + fmt.Sprint(r)
		}
	}()
	var err error
	if len(t.ReceiverSignature) != 0 { // the selection Vertex.verify makes
		err = t.VerifyIssuerReceiver(ver)
	} else {
		err = t.VerifyIssuer(ver)
	}
	if err != nil {
		return "rejected: " + err.Error()
	}
	return "accepted"
}

func vertexVerdict(ver *world.MemoVerifier, v *accountant.Vertex) (s string) {
	defer func() {
		if r := recover(); r != nil {
			s = "panic: " + fmt.Sprint(r)
		}
	}()
	if err := v.VerifVerify(ver); err != nil {
		return "rejected: " + err.Error()
	}
	return "accepted"
}

// ---------------------------------------------------------------- bookkeeping

type found struct {
	seq uint64
	n   int
	v   common.Violation
}

type stats struct {
	evals, compared, refused, failed [nPaths]int
	refusedOut, refusedIn            int
	objects                          map[string]int
	nontrivial                       int
	anyCompared                      int
	outOfRangeObjects                int
	verdicts                         int
	verdictAccepted                  int
	nilEmpty                         map[string]int
}

func newStats() *stats { return &stats{objects: map[string]int{}, nilEmpty: map[string]int{}} }

func (s *stats) merge(o *stats) {
	for p := 0; p < nPaths; p++ {
		s.evals[p] += o.evals[p]
		s.compared[p] += o.compared[p]
		s.refused[p] += o.refused[p]
		s.failed[p] += o.failed[p]
	}
	s.refusedOut += o.refusedOut
	s.refusedIn += o.refusedIn
	for k, v := range o.objects {
		s.objects[k] += v
	}
	for k, v := range o.nilEmpty {
		s.nilEmpty[k] += v
	}
	s.nontrivial += o.nontrivial
	s.anyCompared += o.anyCompared
	s.outOfRangeObjects += o.outOfRangeObjects
	s.verdicts += o.verdicts
	s.verdictAccepted += o.verdictAccepted
}

var (
	foundMu sync.Mutex
	founds  = map[string]*found{}

	// (path, stage, field, value) combinations that already fail in a single-field sweep; later phases
	// attribute failures of richer objects to them so that one cause has one key.
	singleMu     sync.RWMutex
	singleCauses = map[string]bool{}
)

func report(seq uint64, v common.Violation) {
	foundMu.Lock()
	defer foundMu.Unlock()
	f, ok := founds[v.Key]
	if !ok {
		founds[v.Key] = &found{seq: seq, n: 1, v: v}
		return
	}
	f.n++
	if seq < f.seq { // keep the simplest (earliest enumerated) witness, independent of scheduling
		f.seq, f.v = seq, v
	}
}

// meta describes the object under evaluation.
type meta struct {
	kind   string // "vertex" | "transaction" | ...
	phase  string // fixture | nominal | single | pair | product
	seq    uint64
	sp     *spec             // nil for fixtures
	n      int               // number of spec fields that belong to the object
	labels map[string]string // for fixtures
	verify bool
	trace  map[string]string // when non-nil, per-path outcomes are written here
	names  map[int]string    // field-name overrides (balance)
	// noDigest skips the comparison of the signed byte strings (vertex product only: they are a pure function
	// of the fields that are compared, and they are compared for every object of the other phases)
	noDigest bool
}

func (m *meta) fname(f int) string {
	if n, ok := m.names[f]; ok {
		return n
	}
	return fieldName[f]
}

func (m *meta) nonNominal() []int {
	var nn []int
	if m.sp == nil {
		return nil
	}
	for f := 0; f < m.n; f++ {
		if m.sp[f] != 0 {
			nn = append(nn, f)
		}
	}
	return nn
}

func (m *meta) describe() map[string]string {
	if m.sp == nil {
		return m.labels
	}
	out := map[string]string{}
	for _, f := range m.nonNominal() {
		out[fieldName[f]] = alpha[f][m.sp[f]].label
	}
	return out
}

func (m *meta) describeLine() string {
	d := m.describe()
	if len(d) == 0 {
		return "all fields nominal"
	}
	ks := make([]string, 0, len(d))
	for k := range d {
		ks = append(ks, k)
	}
	sort.Strings(ks)
	var parts []string
	for _, k := range ks {
		parts = append(parts, k+"="+d[k])
	}
	return strings.Join(parts, ", ") + "; other fields nominal"
}

func (m *meta) witness(path string, extra map[string]any) map[string]any {
	w := map[string]any{"kind": m.kind, "phase": m.phase, "path": path, "non_nominal_fields": m.describe()}
	if m.sp != nil {
		ix := make([]int, m.n)
		for i := range ix {
			ix[i] = int(m.sp[i])
		}
		w["spec_indices"] = ix
	}
	for k, v := range extra {
		w[k] = v
	}
	return w
}

var digitsRe = regexp.MustCompile(`[0-9]+`)

// cause names the structural reason of a failure at (path, stage) without concrete numbers.
func (m *meta) cause(path, stage string) string {
	nn := m.nonNominal()
	if m.sp == nil {
		if m.phase == "fixture" {
			return "fixture"
		}
		return "combination" // spice / balance: keyed by the normalised error text
	}
	lab := func(f int) string { return fieldName[f] + "-" + alpha[f][m.sp[f]].label }
	if len(nn) == 0 {
		return "nominal"
	}
	if len(nn) == 1 {
		singleMu.Lock()
		singleCauses[path+"|"+stage+"|"+lab(nn[0])] = true
		singleMu.Unlock()
		return lab(nn[0])
	}
	singleMu.RLock()
	defer singleMu.RUnlock()
	for _, f := range nn {
		if singleCauses[path+"|"+stage+"|"+lab(f)] {
			return lab(f)
		}
	}
	if len(nn) == 2 {
		return lab(nn[0]) + "+" + lab(nn[1])
	}
	return "combination"
}

func (m *meta) fail(st *stats, p int, pe *pathErr) {
	st.failed[p]++
	path := pathName[p]
	pred, verb := "C19.error", "returned an error"
	if pe.panic {
		pred, verb = "C19.panic", "panicked"
	}
	c := m.cause(path, pe.stage)
	if c == "combination" {
		c += "/" + digitsRe.ReplaceAllString(pe.err, "N")
	}
	key := fmt.Sprintf("%s/%s/%s/%s", pred, path, pe.stage, c)
	if m.trace != nil {
		m.trace[path] = fmt.Sprintf("%s at %s: %s", verb, pe.stage, pe.err)
	}
	report(m.seq, common.Violation{
		Predicate: pred, Key: key,
		What:    fmt.Sprintf("%s: stage %s %s (%s) for a %s with %s", path, pe.stage, verb, pe.err, m.kind, m.describeLine()),
		Witness: m.witness(path, map[string]any{"stage": pe.stage, "error": pe.err}),
	})
}

// judge evaluates the oracle for one completed round trip.
func (m *meta) judge(st *stats, p int, ds []diff, oor bool, digests [][2][]byte, digestNames []string, verdict func() (string, string)) {
	st.compared[p]++
	path := pathName[p]
	outcome := "identical"
	needVerdict := m.verify && verdict != nil
	for _, d := range ds {
		if d.nilOnly {
			st.nilEmpty[path+"/"+m.fname(d.f)]++
			needVerdict = true // nil and empty are equal only if the verdict is unaffected
			continue
		}
		pred, key := "C19.field-changed", fmt.Sprintf("C19.field-changed/%s/%s", path, m.fname(d.f))
		if oor && d.timeLike {
			pred, key = "C19.time-out-of-range", fmt.Sprintf("C19.time-out-of-range/%s/%s", path, m.fname(d.f))
		}
		outcome = "CHANGED " + m.fname(d.f)
		report(m.seq, common.Violation{
			Predicate: pred, Key: key,
			What: fmt.Sprintf("%s: signed field %s changed from [%s] to [%s] for a %s with %s",
				path, m.fname(d.f), d.before, d.after, m.kind, m.describeLine()),
			Witness: m.witness(path, map[string]any{"field": m.fname(d.f), "before": d.before, "after": d.after}),
		})
	}
	for i, dg := range digests {
		if !bytes.Equal(dg[0], dg[1]) {
			pred := "C19.digest-changed"
			if oor {
				pred = "C19.time-out-of-range"
			}
			outcome = "CHANGED " + digestNames[i]
			report(m.seq, common.Violation{
				Predicate: pred, Key: fmt.Sprintf("%s/%s/%s", pred, path, digestNames[i]),
				What: fmt.Sprintf("%s: the signed byte string %s differs after the round trip for a %s with %s",
					path, digestNames[i], m.kind, m.describeLine()),
				Witness: m.witness(path, map[string]any{"digest": digestNames[i], "before": showBytes(dg[0]), "after": showBytes(dg[1])}),
			})
		}
	}
	if needVerdict {
		before, after := verdict()
		st.verdicts++
		if before == "accepted" {
			st.verdictAccepted++
		}
		if before != after {
			pred := "C19.verify-changed"
			if oor {
				pred = "C19.time-out-of-range"
			}
			outcome = "VERDICT CHANGED"
			report(m.seq, common.Violation{
				Predicate: pred, Key: verifyKey(pred, path),
				What: fmt.Sprintf("%s: verification verdict changed from [%s] to [%s] for a %s with %s",
					path, before, after, m.kind, m.describeLine()),
				Witness: m.witness(path, map[string]any{"before": before, "after": after}),
			})
		}
		if m.trace != nil {
			outcome += "; verdict " + before + " -> " + after
		}
	}
	if m.trace != nil {
		m.trace[path] = outcome
	}
}

// verifyKey: C19.verify-changed/<path>, or C19.time-out-of-range/<path>/verify for undefined timestamps.
func verifyKey(pred, path string) string {
	if pred == "C19.verify-changed" {
		return pred + "/" + path
	}
	return pred + "/" + path + "/verify"
}

type worker struct {
	st  *stats
	ver *world.MemoVerifier
}

func newWorker() *worker { return &worker{st: newStats(), ver: world.NewVerifier()} }

func (w *worker) finishObject(m *meta, paths, compared int, oor bool) {
	w.st.objects[m.kind+"/"+m.phase]++
	if compared == paths {
		w.st.nontrivial++
	}
	if compared > 0 {
		w.st.anyCompared++
	}
	if oor {
		w.st.outOfRangeObjects++
	}
}

func (w *worker) evalTrx(t transaction.Transaction, m *meta) {
	st := w.st
	oor := !inRange(t.CreatedAt)
	msg0 := t.GetMessage()
	verdict0 := ""
	v0 := func() string {
		if verdict0 == "" {
			verdict0 = trxVerdict(w.ver, &t)
		}
		return verdict0
	}
	compared := 0

	st.evals[pTrxProto]++
	out, refused, pe := trxProto(&t)
	switch {
	case pe != nil:
		m.fail(st, pTrxProto, pe)
	case refused != "":
		st.refused[pTrxProto]++
		if refused == "outbound" {
			st.refusedOut++
		} else {
			st.refusedIn++
		}
		if m.trace != nil {
			m.trace[pathName[pTrxProto]] = "refused by documented validation (" + refused + ")"
		}
	default:
		compared++
		var ds []diff
		cmpTrx(&ds, &t, &out)
		m.judge(st, pTrxProto, ds, oor, [][2][]byte{{msg0, out.GetMessage()}}, []string{"Transaction.GetMessage"},
			func() (string, string) { return v0(), trxVerdict(w.ver, &out) })
	}

	st.evals[pTrxMsgpack]++
	out2, pe := trxMsgpack(&t)
	if pe != nil {
		m.fail(st, pTrxMsgpack, pe)
	} else {
		compared++
		var ds []diff
		cmpTrx(&ds, &t, &out2)
		m.judge(st, pTrxMsgpack, ds, oor, [][2][]byte{{msg0, out2.GetMessage()}}, []string{"Transaction.GetMessage"},
			func() (string, string) { return v0(), trxVerdict(w.ver, &out2) })
	}
	w.finishObject(m, 2, compared, oor)
}

func (w *worker) evalVertex(v accountant.Vertex, m *meta) {
	st := w.st
	oor := !inRange(v.CreatedAt) || !inRange(v.Transaction.CreatedAt)
	var msg0, dig0 []byte
	if !m.noDigest {
		msg0, dig0 = v.Transaction.GetMessage(), v.VerifDigestInput()
	}
	verdict0 := ""
	v0 := func() string {
		if verdict0 == "" {
			verdict0 = vertexVerdict(w.ver, &v)
		}
		return verdict0
	}
	names := []string{"Transaction.GetMessage", "Vertex.digest-input"}
	compared := 0
	for _, p := range []int{pVertexProto, pVertexMsgpack} {
		st.evals[p]++
		var out accountant.Vertex
		var pe *pathErr
		if p == pVertexProto {
			out, pe = vertexProto(&v)
		} else {
			out, pe = vertexMsgpack(&v)
		}
		if pe != nil {
			m.fail(st, p, pe)
			continue
		}
		compared++
		var ds []diff
		cmpVertex(&ds, &v, &out)
		var dgs [][2][]byte
		if !m.noDigest {
			dgs = [][2][]byte{{msg0, out.Transaction.GetMessage()}, {dig0, out.VerifDigestInput()}}
		}
		m.judge(st, p, ds, oor, dgs, names,
			func() (string, string) { return v0(), vertexVerdict(w.ver, &out) })
	}
	w.finishObject(m, 2, compared, oor)
}

// ---------------------------------------------------------------- enumeration

// classA lists every spec over the first n fields with at most two non-nominal fields, each exactly once:
// the nominal object, every single-field sweep, every pair of fields over the full alphabets.
func classA(n int) (specs []spec, phase []string) {
	specs = append(specs, spec{})
	phase = append(phase, "nominal")
	for f := 0; f < n; f++ {
		for i := 1; i < len(alpha[f]); i++ {
			var s spec
			s[f] = uint8(i)
			specs = append(specs, s)
			phase = append(phase, "single")
		}
	}
	for f := 0; f < n; f++ {
		for g := f + 1; g < n; g++ {
			for i := 1; i < len(alpha[f]); i++ {
				for j := 1; j < len(alpha[g]); j++ {
					var s spec
					s[f], s[g] = uint8(i), uint8(j)
					specs = append(specs, s)
					phase = append(phase, "pair")
				}
			}
		}
	}
	return
}

func parallel(nw int, n uint64, chunk uint64, deadline time.Time, fn func(w *worker, lo, hi uint64)) (agg *stats, done uint64) {
	var next, completed atomic.Uint64
	var wg sync.WaitGroup
	ws := make([]*worker, nw)
	for i := range ws {
		ws[i] = newWorker()
		wg.Add(1)
		go func(w *worker) {
			defer wg.Done()
			for {
				if !deadline.IsZero() && time.Now().After(deadline) {
					return
				}
				lo := next.Add(chunk) - chunk
				if lo >= n {
					return
				}
				hi := lo + chunk
				if hi > n {
					hi = n
				}
				fn(w, lo, hi)
				completed.Add(hi - lo)
			}
		}(ws[i])
	}
	wg.Wait()
	agg = newStats()
	for _, w := range ws {
		agg.merge(w.st)
	}
	return agg, completed.Load()
}

func pow3(k int) uint64 {
	n := uint64(1)
	for i := 0; i < k; i++ {
		n *= 3
	}
	return n
}

// productSpec decodes linear index i of the reduced product over `fields`; ok is false when the spec has at
// most two non-nominal fields (then it is already part of classA and is skipped so that objects stay distinct).
func productSpec(i uint64, fields []int) (s spec, ok bool) {
	nn := 0
	for _, f := range fields {
		s[f] = red[f][i%3]
		i /= 3
		if s[f] != 0 {
			nn++
		}
	}
	return s, nn > 2
}

// ---------------------------------------------------------------- main

func main() {
	if len(os.Args) < 2 || os.Args[1] != "C19" {
		fmt.Fprintln(os.Stderr, "usage: vcheck C19 [--replay <file>]")
		os.Exit(2)
	}
	initAlphabets()
	if len(os.Args) >= 4 && (os.Args[2] == "--replay" || os.Args[2] == "-replay") {
		os.Exit(replay(os.Args[3]))
	}
	os.Exit(run())
}

func os_stderr() *os.File { return os.Stderr }

func run() int {
	// the live heap is tiny (the alphabets) while every round trip allocates: let the heap grow between collections
	gcp := 800
	if s := os.Getenv("VERIF_GCPERCENT"); s != "" {
		fmt.Sscan(s, &gcp)
	}
	debug.SetGCPercent(gcp)
	if f := os.Getenv("VERIF_CPUPROFILE"); f != "" {
		if fh, err := os.Create(f); err == nil {
			pprof.StartCPUProfile(fh)
			defer pprof.StopCPUProfile()
		}
	}
	rep := common.NewReport("C19", "exploration")
	tier := common.Tier()
	nw := runtime.GOMAXPROCS(0)
	if nw > 16 {
		nw = 16
	}
	deadline := common.Deadline(55*time.Second, 8*time.Minute+30*time.Second)
	total := newStats()
	var seqBase uint64

	// ---- phase 0: properly signed fixtures built with the harness' own constructors
	if code := fixtures(total, &seqBase); code != 0 {
		return code
	}

	// ---- phase 0b: the storage read path of a real ledger (boundary vertices written to the checkpoint storage)
	if code := storagePart(rep); code != 0 {
		return code
	}

	// ---- phase 0c: answers of the notary service that carry several transactions at once
	if code := batchPart(rep); code != 0 {
		return code
	}

	// ---- phase 1+2: nominal, single sweeps, pairs (full alphabets), with verification verdicts
	type job struct {
		kind string
		n    int
	}
	for _, ph := range []string{"nominal", "single", "pair"} { // barriers: singles complete before pairs (cause attribution)
		for _, jb := range []job{{"transaction", nTrxFields}, {"vertex", nFields}} {
			specs, phases := classA(jb.n)
			var sel []int
			for i, p := range phases {
				if p == ph {
					sel = append(sel, i)
				}
			}
			base := seqBase
			st, _ := parallel(nw, uint64(len(sel)), 8, time.Time{}, func(w *worker, lo, hi uint64) {
				for i := lo; i < hi; i++ {
					sp := specs[sel[i]]
					m := &meta{kind: jb.kind, phase: ph, seq: base + i, sp: &sp, n: jb.n, verify: true}
					if jb.kind == "vertex" {
						w.evalVertex(buildVertex(&sp), m)
					} else {
						w.evalTrx(buildTrx(&sp), m)
					}
				}
			})
			seqBase += uint64(len(sel))
			total.merge(st)
		}
	}
	if total.objects["vertex/nominal"] != 1 || total.objects["transaction/nominal"] != 1 {
		fmt.Fprintln(os.Stderr, "c19: nominal objects missing")
		return 2
	}

	// ---- phase 3: reduced 3-value product
	trxFields := make([]int, nTrxFields)
	for i := range trxFields {
		trxFields[i] = i
	}
	var vtxFields []int
	if tier == "thorough" {
		for f := 0; f < nFields; f++ {
			vtxFields = append(vtxFields, f)
		}
	} else {
		// all seven vertex-level fields x seven transaction fields (one per encoding class: string, bytes, time,
		// integer, hash, signature, nil-able signature); IssuerAddress, ReceiverAddress and SupplementaryCurrency
		// share their class with a field that is in and are covered by the complete 3^10 transaction product;
		// they stay nominal here. (Hash and both signatures are in, so no object of this product needs signing.)
		vtxFields = []int{fSubject, fData, fTCreated, fCur, fTHash, fISig, fRSig, fSigner, fVCreated, fVSig, fVHash, fLeft, fRight, fWeight}
	}
	exhaustive := true
	productInfo := map[string]any{}
	for _, jb := range []struct {
		kind   string
		n      int
		fields []int
	}{{"transaction", nTrxFields, trxFields}, {"vertex", nFields, vtxFields}} {
		n := pow3(len(jb.fields))
		base := seqBase
		t0 := time.Now()
		var skipped atomic.Uint64
		st, done := parallel(nw, n, 2048, deadline, func(w *worker, lo, hi uint64) {
			for i := lo; i < hi; i++ {
				sp, ok := productSpec(i, jb.fields)
				if !ok {
					skipped.Add(1)
					continue
				}
				m := &meta{kind: jb.kind, phase: "product", seq: base + i, sp: &sp, n: jb.n, noDigest: jb.kind == "vertex"}
				if jb.kind == "vertex" {
					w.evalVertex(buildVertex(&sp), m)
				} else {
					w.evalTrx(buildTrx(&sp), m)
				}
			}
		})
		seqBase += n
		total.merge(st)
		var names []string
		for _, f := range jb.fields {
			names = append(names, fieldName[f])
		}
		productInfo[jb.kind] = map[string]any{"fields": names, "k": len(jb.fields), "size": n, "completed": done,
			"already_covered_by_pairs": skipped.Load(), "wall_s": time.Since(t0).Seconds()}
		if done != n {
			exhaustive = false
		}
	}

	// ---- spice and balance: complete products
	w := newWorker()
	for i := range alpha[fCur] {
		for j := range alpha[fSupp] {
			evalSpice(w, spice.Melange{Currency: alpha[fCur][i].u, SupplementaryCurrency: alpha[fSupp][j].u},
				alpha[fCur][i].label, alpha[fSupp][j].label, seqBase)
			seqBase++
		}
	}
	walletAlpha := append(append([]val{}, alpha[fIssuer]...), strLengths(9)[1:]...) // addresses + length sweep (len0 = "empty" already)
	for ti := range alpha[fTCreated] {
		for ai := range walletAlpha {
			for i := range alpha[fCur] {
				for j := range alpha[fSupp] {
					b := accountant.Balance{AccountedAt: alpha[fTCreated][ti].t, WalletPublicAddress: walletAlpha[ai].s,
						Spice: spice.Melange{Currency: alpha[fCur][i].u, SupplementaryCurrency: alpha[fSupp][j].u}}
					evalBalance(w, b, map[string]string{"AccountedAt": alpha[fTCreated][ti].label, "WalletPublicAddress": walletAlpha[ai].label,
						"Spice.Currency": alpha[fCur][i].label, "Spice.SupplementaryCurrency": alpha[fSupp][j].label}, seqBase)
					seqBase++
				}
			}
		}
	}
	total.merge(w.st)

	// ---- evidence
	foundMu.Lock()
	occ := map[string]int{}
	for k, f := range founds {
		occ[k] = f.n
		for i := 0; i < f.n; i++ { // Add keeps the first (= our simplest) witness and counts occurrences
			rep.Add(f.v)
		}
	}
	foundMu.Unlock()

	evals, refused := 0, 0
	perPath := map[string]any{}
	for p := 0; p < nPaths; p++ {
		evals += total.evals[p]
		refused += total.refused[p]
		perPath[pathName[p]] = map[string]int{"round_trips": total.evals[p], "fully_compared": total.compared[p],
			"documented_refusals": total.refused[p], "errors_or_panics": total.failed[p]}
	}
	sizes := map[string]int{}
	for f := 0; f < nFields; f++ {
		sizes[fieldName[f]] = len(alpha[f])
	}
	reduced := map[string][]string{}
	for f := 0; f < nFields; f++ {
		for _, i := range red[f] {
			reduced[fieldName[f]] = append(reduced[fieldName[f]], alpha[f][i].label)
		}
	}
	objs := 0
	for _, n := range total.objects {
		objs += n
	}
	rep.Set("evaluations", evals)
	rep.Set("distinct_nontrivial", total.nontrivial)
	rep.Set("distinct_objects", objs)
	rep.Set("objects_with_some_path_compared", total.anyCompared)
	rep.Set("objects_by_kind_and_phase", total.objects)
	rep.Set("per_path", perPath)
	rep.Set("documented_refusals", refused)
	rep.Set("documented_refusals_outbound_TrxToProtoTrx", total.refusedOut)
	rep.Set("documented_refusals_inbound_ProtoTrxToTrx_only", total.refusedIn)
	rep.Set("objects_with_out_of_range_time", total.outOfRangeObjects)
	rep.Set("verdict_comparisons", total.verdicts)
	rep.Set("verdict_comparisons_on_accepted_objects", total.verdictAccepted)
	rep.Set("nil_vs_empty_normalisations_with_unchanged_verdict", total.nilEmpty)
	rep.Set("violation_occurrences", occ)
	rep.Set("alphabet_sizes_incl_nominal", sizes)
	rep.Set("reduced_alphabets", reduced)
	rep.Set("reduced_product", productInfo)
	rep.Set("exhaustive", exhaustive)
	rep.Set("workers", nw)
	rep.Set("rule", "PRODUCT enumeration, no sampling. Objects: transactions over 10 fields and vertices over 17 fields (7 own + the embedded transaction's 10); "+
		"every field has a declared alphabet (alphabet_sizes_incl_nominal; index 0 = nominal, for hash/signature fields nominal = really signed by the cast actor that owns the address). "+
		"Enumerated, each spec exactly once: (1) the all-nominal object, (2) every single-field sweep, (3) every pair of fields over the FULL alphabets "+
		"(no restriction for the 65535/65536 lengths: all pairs including big x big are run), (4) the full product over the 3-value reduction per field "+
		"(reduced_alphabets; transactions 3^10; vertices: quick 3^14 = 7 vertex fields x {Subject, Data, Transaction.CreatedAt, Currency, Transaction.Hash, IssuerSignature, ReceiverSignature}, thorough 3^17 = all fields; the field list actually used is in reduced_product), "+
		"minus specs with <=2 non-nominal fields which are already in (3); plus signed fixtures from world.MakeTx/CounterSign + accountant.NewVertex; "+
		"plus the complete products for spice.Melange (14x14) and accountant.Balance (time x address/length x 14 x 14). "+
		"Each object goes through each path that applies to its kind (vertex: vertex->proto->wire->vertex, vertex msgpack; transaction: trx->proto->wire->trx, trx msgpack; spice; balance) = one evaluation. "+
		"Oracle per round trip: every signed field equal (times by UnixNano, location/monotonic ignored; nil vs empty slices equal only if the verification verdict is equal, which is then computed), "+
		"GetMessage()/digest-input bytes equal (all objects except the vertex reduced product, where they are implied by the compared fields), and for phases (1)-(3) and fixtures the verify verdict equal; msgpack/wire errors and panics are violations; "+
		"refusals by the transformers' documented validation are counted (documented_refusals). "+
		"distinct_nontrivial = number of distinct objects (distinct by construction: distinct spec vectors over duplicate-free alphabets, counted by the workers) "+
		"for which EVERY applicable path completed and compared all fields (none refused, none failed); objects refused on trx->proto are therefore not counted although their msgpack path was compared.")
	rep.Assume("the 3-value reduction of the product is a declared abstraction: interactions of three or more fields are only covered for the reduced values")
	rep.Assume("times outside the int64-nanosecond range (zero time, 2^34 s) have an undefined UnixNano by the Go specification; they are run, and only a change of the signed bytes/verdict would be reported (C19.time-out-of-range)")
	rep.Assume("wrong-length hashes and nil sub-messages on the inbound side belong to C15 and are not fed here; inputs to the inbound mappers are only what the outbound mappers and the protobuf wire codec produced")
	rep.Assume("AddLeaf acceptance before/after (DESIGN section 7) is represented by Vertex.verify + signed bytes, the only inputs of AddLeaf that depend on the transcoded value")
	if !exhaustive {
		rep.Assume("the reduced product did not complete inside the time budget; see reduced_product.completed")
	}

	for _, s := range samples() {
		rep.Sample(s)
	}
	return rep.Finish()
}

// ---------------------------------------------------------------- spice / balance

func evalSpice(w *worker, m spice.Melange, lc, ls string, seq uint64) {
	st := w.st
	mt := &meta{kind: "spice", phase: "product", seq: seq, labels: map[string]string{"Spice.Currency": lc, "Spice.SupplementaryCurrency": ls}}
	st.evals[pSpiceMsgpack]++
	out, pe := spiceMsgpack(&m)
	compared := 0
	if pe != nil {
		mt.fail(st, pSpiceMsgpack, pe)
	} else {
		compared = 1
		var ds []diff
		cmpU(&ds, fCur, m.Currency, out.Currency)
		cmpU(&ds, fSupp, m.SupplementaryCurrency, out.SupplementaryCurrency)
		mt.judge(st, pSpiceMsgpack, ds, false, nil, nil, nil)
	}
	w.finishObject(mt, 1, compared, false)
}

func evalBalance(w *worker, b accountant.Balance, labels map[string]string, seq uint64) {
	st := w.st
	mt := &meta{kind: "balance", phase: "product", seq: seq, labels: labels,
		names: map[int]string{fIssuer: "WalletPublicAddress", fVCreated: "AccountedAt"}}
	oor := !inRange(b.AccountedAt)
	st.evals[pBalanceMsgpack]++
	out, pe := balanceMsgpack(&b)
	compared := 0
	if pe != nil {
		mt.fail(st, pBalanceMsgpack, pe)
	} else {
		compared = 1
		var ds []diff
		cmpU(&ds, fCur, b.Spice.Currency, out.Spice.Currency)
		cmpU(&ds, fSupp, b.Spice.SupplementaryCurrency, out.Spice.SupplementaryCurrency)
		cmpStr(&ds, fIssuer, b.WalletPublicAddress, out.WalletPublicAddress)
		cmpTime(&ds, fVCreated, b.AccountedAt, out.AccountedAt)
		mt.judge(st, pBalanceMsgpack, ds, oor, nil, nil, nil)
	}
	w.finishObject(mt, 1, compared, oor)
}

// ---------------------------------------------------------------- fixtures

func sp(c, s uint64) spice.Melange { return spice.Melange{Currency: c, SupplementaryCurrency: s} }

type fixture struct {
	name string
	tx   transaction.Transaction
}

func fixtureList() []fixture {
	return []fixture{
		{"plain transfer", world.MakeTx(actA, actB.Addr, "transfer", nil, sp(10, 5), 0)},
		{"transfer, empty data", world.MakeTx(actA, actB.Addr, "transfer", []byte{}, sp(1, 0), 1)},
		{"countersigned contract", world.CounterSign(world.MakeTx(actA, actB.Addr, "contract", fillBytes(256, 9), sp(0, 0), 2), actB)},
		{"countersigned big contract with extreme amount", world.CounterSign(world.MakeTx(actA, actB.Addr, fillASCII(255, 1), fillBytes(65536, 9), sp(math.MaxUint64, 1<<63), 3), actB)},
		{"self transfer, multi-byte subject", world.MakeTx(actC, actC.Addr, "zażółć", []byte{0}, sp(1<<32, 1<<16), 4)},
	}
}

func fixtures(total *stats, seqBase *uint64) int {
	w := newWorker()
	var l, r [32]byte
	copy(l[:], fillBytes(32, 31))
	copy(r[:], fillBytes(32, 32))
	for i, fx := range fixtureList() {
		t := fx.tx
		m := &meta{kind: "transaction", phase: "fixture", seq: *seqBase, labels: map[string]string{"fixture": fx.name}, verify: true}
		if got := trxVerdict(w.ver, &t); got != "accepted" {
			fmt.Fprintf(os.Stderr, "c19: harness error: fixture transaction %q does not verify: %s\n", fx.name, got)
			return 2
		}
		w.evalTrx(t, m)
		*seqBase++
		v, err := accountant.NewVertex(fx.tx, l, r, uint64(i)*255+1, actN) // CreatedAt = time.Now() with monotonic reading
		if err != nil {
			fmt.Fprintln(os.Stderr, "c19: harness error: NewVertex:", err)
			return 2
		}
		if got := vertexVerdict(w.ver, &v); got != "accepted" {
			fmt.Fprintf(os.Stderr, "c19: harness error: fixture vertex %q does not verify: %s\n", fx.name, got)
			return 2
		}
		mv := &meta{kind: "vertex", phase: "fixture", seq: *seqBase, labels: map[string]string{"fixture": fx.name + " sealed by accountant.NewVertex"}, verify: true}
		w.evalVertex(v, mv)
		*seqBase++
	}
	// the all-nominal spec objects must verify as well (they are the base of every sweep)
	var s0 spec
	v := buildVertex(&s0)
	if got := vertexVerdict(w.ver, &v); got != "accepted" {
		fmt.Fprintln(os.Stderr, "c19: harness error: nominal vertex does not verify:", got)
		return 2
	}
	total.merge(w.st)
	return 0
}

// ---------------------------------------------------------------- samples and replay

func traceSpec(kind string, s spec) map[string]any {
	w := newWorker()
	n := nFields
	if kind == "transaction" {
		n = nTrxFields
	}
	m := &meta{kind: kind, phase: "sample", seq: math.MaxUint64, sp: &s, n: n, verify: true, trace: map[string]string{}}
	var obj any
	if kind == "vertex" {
		v := buildVertex(&s)
		obj = renderVertex(&v)
		w.evalVertex(v, m)
	} else {
		t := buildTrx(&s)
		obj = renderTrx(&t)
		w.evalTrx(t, m)
	}
	d := m.describe()
	if len(d) == 0 {
		d = map[string]string{"(all)": "nominal"}
	}
	return map[string]any{"kind": kind, "non_nominal_fields": d, "object": obj, "outcome_per_path": m.trace}
}

func renderTrx(t *transaction.Transaction) map[string]string {
	return map[string]string{
		"Subject": showStr(t.Subject), "Data": showBytes(t.Data), "IssuerAddress": showStr(t.IssuerAddress),
		"ReceiverAddress": showStr(t.ReceiverAddress), "CreatedAt": showTime(t.CreatedAt),
		"Spice": fmt.Sprintf("%d/%d", t.Spice.Currency, t.Spice.SupplementaryCurrency), "Hash": hex.EncodeToString(t.Hash[:8]) + "..",
		"IssuerSignature": showBytes(t.IssuerSignature), "ReceiverSignature": showBytes(t.ReceiverSignature),
	}
}

func renderVertex(v *accountant.Vertex) map[string]any {
	return map[string]any{
		"SignerPublicAddress": showStr(v.SignerPublicAddress), "CreatedAt": showTime(v.CreatedAt), "Signature": showBytes(v.Signature),
		"Hash": hex.EncodeToString(v.Hash[:8]) + "..", "LeftParentHash": hex.EncodeToString(v.LeftParentHash[:8]) + "..",
		"RightParentHash": hex.EncodeToString(v.RightParentHash[:8]) + "..", "Weight": fmt.Sprint(v.Weight),
		"Transaction": renderTrx(&v.Transaction),
	}
}

// samples re-evaluates a few of the explored specs single-threaded with tracing (deterministic choice).
func samples() []any {
	var out []any
	var s spec
	out = append(out, traceSpec("vertex", s)) // nominal
	s = spec{}
	s[fData] = idx(fData, "len65536")
	out = append(out, traceSpec("transaction", s)) // single sweep
	s = spec{}
	s[fSubject] = idx(fSubject, "len0")
	out = append(out, traceSpec("transaction", s)) // documented refusal
	s = spec{}
	s[fTCreated], s[fWeight] = idx(fTCreated, "t-minint64ns"), idx(fWeight, "u2^64-1")
	out = append(out, traceSpec("vertex", s)) // pair
	s = spec{}
	s[fRSig], s[fVCreated] = idx(fRSig, "countersigned"), idx(fVCreated, "t-zero")
	out = append(out, traceSpec("vertex", s)) // pair with out-of-range time
	ps, _ := productSpec(pow3(nTrxFields)-1, []int{0, 1, 2, 3, 4, 5, 6, 7, 8, 9})
	out = append(out, traceSpec("transaction", ps)) // last element of the 3^10 product
	m := spice.Melange{Currency: 1 << 63, SupplementaryCurrency: math.MaxUint64}
	o, pe := spiceMsgpack(&m)
	out = append(out, map[string]any{"kind": "spice", "object": fmt.Sprintf("%d/%d", m.Currency, m.SupplementaryCurrency),
		"outcome_per_path": map[string]string{"spice-msgpack": fmt.Sprintf("decoded %d/%d err=%v", o.Currency, o.SupplementaryCurrency, pe)}})
	b := accountant.Balance{AccountedAt: time.Unix(0, math.MinInt64), WalletPublicAddress: actA.Addr, Spice: m}
	ob, pe := balanceMsgpack(&b)
	out = append(out, map[string]any{"kind": "balance", "object": map[string]string{"AccountedAt": showTime(b.AccountedAt), "WalletPublicAddress": showStr(b.WalletPublicAddress)},
		"outcome_per_path": map[string]string{"balance-msgpack": fmt.Sprintf("decoded AccountedAt %s address-equal=%v err=%v", showTime(ob.AccountedAt), ob.WalletPublicAddress == b.WalletPublicAddress, pe)}})
	return out
}

// replay re-evaluates the witness stored in a replay artefact and prints the per-path outcome.
func replay(path string) int {
	raw, err := os.ReadFile(path)
	if err != nil {
		fmt.Fprintln(os.Stderr, err)
		return 2
	}
	var v struct {
		Key     string `json:"key"`
		Witness struct {
			Kind string `json:"kind"`
			Spec []int  `json:"spec_indices"`
		} `json:"witness"`
	}
	if err := json.Unmarshal(raw, &v); err != nil {
		fmt.Fprintln(os.Stderr, err)
		return 2
	}
	if len(v.Witness.Spec) == 0 || (v.Witness.Kind != "vertex" && v.Witness.Kind != "transaction") {
		// fixture, storage-path, spice and balance witnesses: replayed by running the check again and looking for the key
		if err := common.ReplayByRerun(path); err != nil {
			fmt.Fprintln(os.Stderr, err)
			return 2
		}
		return run()
	}
	var s spec
	for i, x := range v.Witness.Spec {
		if i >= nFields || x < 0 || x >= len(alpha[i]) {
			fmt.Fprintln(os.Stderr, "c19: spec does not fit the alphabets of this build")
			return 2
		}
		s[i] = uint8(x)
	}
	out := traceSpec(v.Witness.Kind, s)
	b, _ := json.MarshalIndent(out, "", " ")
	fmt.Println(string(b))
	foundMu.Lock()
	defer foundMu.Unlock()
	if _, ok := founds[v.Key]; ok {
		fmt.Printf("VIOLATION property=C19 replay=%s\n  key=%s reproduced\n", path, v.Key)
		return 1
	}
	fmt.Printf("C19: key %s not reproduced\n", v.Key)
	return 0
}
