package main

import (
	"os"
	"context"
	"fmt"
	"sort"

	"google.golang.org/protobuf/proto"

	"github.com/bartossh/Computantis/src/protobufcompiled"
	"github.com/bartossh/Computantis/src/spice"
	"github.com/bartossh/Computantis/src/transaction"
	"github.com/bartossh/Computantis/src/transformers"
	"verif.local/harness/common"
	"verif.local/harness/world"
	"verif.local/vsched"
)

// Batch part: the wire form as the notary service produces it. Several transactions leave the node in ONE answer
// (Waiting: awaiting contracts of an address; TransactionsInDAG: sealed transfers of an address); each element of the
// answer goes through the real protobuf wire codec and back and must equal, field by field, what was proposed, and
// still verify.
func batchPart(rep *common.Report) int {
	full := world.GetFullNodes("G")
	type got struct {
		waiting []*protobufcompiled.Transaction
		history []*protobufcompiled.Transaction
		werr    error
		herr    error
	}
	var g got
	var setupErr error
	contracts := []transaction.Transaction{
		// already countersigned by the receiver when proposed, listed before contracts that are not: a decoder that
		// leaves absent fields untouched would hand the signature (or the longer data) on to the next entry
		world.CounterSign(world.MakeTx(actA, actB.Addr, "batch contract countersigned", fillBytes(300, 9), spice.Melange{}, 7100), actB),
		world.MakeTx(actA, actB.Addr, "batch contract 0", []byte("contract-0"), spice.Melange{}, 7101),
		world.MakeTx(actA, actB.Addr, "batch contract 1", fillBytes(33, 7), spice.Melange{}, 7102),
		world.MakeTx(actC, actB.Addr, "batch contract 2", fillBytes(256, 8), spice.Melange{}, 7103),
	}
	R := world.Cast("R")
	transfers := []transaction.Transaction{
		world.MakeTx(R, actA.Addr, "batch transfer 0", nil, spice.Melange{Currency: 1}, 7111),
		world.MakeTx(R, actA.Addr, "batch transfer 1", nil, spice.Melange{Currency: 2, SupplementaryCurrency: 5}, 7112),
		world.MakeTx(R, actA.Addr, "batch transfer 2", nil, spice.Melange{SupplementaryCurrency: 999_999_999_999_999_999}, 7113),
	}
	res := vsched.Run(vsched.Options{KeyFunc: world.KeyFunc, MaxSteps: 1 << 40}, func() {
		vsched.Quiet(true)
		f := full[0]
		world.NewLW([]*world.Node{f.Node}, spice.Melange{Currency: 10}, 0)
		ctx := context.Background()
		f.ResetServices(ctx)
		vsched.Settle()
		for _, t := range append(append([]transaction.Transaction(nil), contracts...), transfers...) {
			pt, err := world.TrxToProto(t)
			if err == nil {
				// as gRPC hands it to the handler: through the wire (absent and empty byte fields both arrive as nil)
				var raw []byte
				if raw, err = proto.Marshal(pt); err == nil {
					pt = &protobufcompiled.Transaction{}
					err = proto.Unmarshal(raw, pt)
				}
			}
			if err == nil {
				_, err = f.Notary.Propose(ctx, pt)
			}
			if err != nil {
				setupErr = fmt.Errorf("propose %q: %w", t.Subject, err)
				return
			}
			vsched.Settle()
		}
		ask := func(who *world.Actor) *protobufcompiled.SignedHash {
			blob, err := f.Notary.Data(ctx, &protobufcompiled.Address{Public: who.Addr})
			if err != nil {
				setupErr = fmt.Errorf("data: %w", err)
				return nil
			}
			d, s := who.Sign(blob.Blob)
			return &protobufcompiled.SignedHash{Address: who.Addr, Data: blob.Blob, Hash: d[:], Signature: s}
		}
		if sh := ask(actB); sh != nil {
			ts, err := f.Notary.Waiting(ctx, sh)
			g.werr = err
			if ts != nil {
				g.waiting = ts.Array
			}
		}
		if sh := ask(actA); sh != nil {
			ts, err := f.Notary.TransactionsInDAG(ctx, sh)
			g.herr = err
			if ts != nil {
				g.history = ts.Array
			}
		}
	})
	if setupErr != nil || !res.RootDone {
		fmt.Fprintf(os_stderr(), "c19 batch part: harness error: %v completed=%v\n", setupErr, res.RootDone)
		return 2
	}
	ver := world.NewVerifier()
	judge := func(rpc string, err error, answer []*protobufcompiled.Transaction, want []transaction.Transaction) {
		if err != nil {
			rep.Add(common.Violation{Predicate: "C19.batch", Key: "C19.batch/" + rpc + "/refused", What: fmt.Sprintf("%s refused an authorised caller: %v", rpc, err), Witness: map[string]any{"mode": "batch"}})
			return
		}
		byHash := map[[32]byte]transaction.Transaction{}
		var decoded []transaction.Transaction
		for i, pt := range answer {
			raw, merr := proto.Marshal(pt)
			if merr != nil {
				rep.Add(common.Violation{Predicate: "C19.batch", Key: "C19.batch/" + rpc + "/wire-marshal", What: fmt.Sprintf("%s: element %d of the answer does not marshal: %v", rpc, i, merr), Witness: map[string]any{"mode": "batch"}})
				continue
			}
			var back protobufcompiled.Transaction
			if uerr := proto.Unmarshal(raw, &back); uerr != nil {
				continue
			}
			t, terr := transformers.ProtoTrxToTrx(&back)
			if terr != nil {
				rep.Add(common.Violation{Predicate: "C19.batch", Key: "C19.batch/" + rpc + "/decode", What: fmt.Sprintf("%s: element %d of the answer is refused by the decoder: %v", rpc, i, terr), Witness: map[string]any{"mode": "batch"}})
				continue
			}
			decoded = append(decoded, t)
			byHash[t.Hash] = t
			if os.Getenv("C19_DEBUG") != "" {
				fmt.Fprintf(os_stderr(), "c19 batch %s[%d] %q data=%d rsig=%d\n", rpc, i, t.Subject, len(t.Data), len(t.ReceiverSignature))
			}
		}
		if len(decoded) != len(want) {
			rep.Add(common.Violation{Predicate: "C19.batch", Key: "C19.batch/" + rpc + "/count", What: fmt.Sprintf("%s answered %d transactions, %d were proposed", rpc, len(decoded), len(want)), Witness: map[string]any{"mode": "batch"}})
		}
		for _, w := range want {
			w := w
			t, ok := byHash[w.Hash]
			if !ok {
				rep.Add(common.Violation{Predicate: "C19.batch", Key: "C19.batch/" + rpc + "/hash-changed", What: fmt.Sprintf("%s: no element of the answer carries the hash of %q after the wire round trip (an answer with several transactions must keep each one's own hash)", rpc, w.Subject), Witness: map[string]any{"mode": "batch"}})
				continue
			}
			var ds []diff
			cmpTrx(&ds, &w, &t)
			ds = signedDiffs(ds)
			if len(ds) > 0 {
				var fs []string
				for _, d := range ds {
					fs = append(fs, fieldName[d.f])
				}
				sort.Strings(fs)
				rep.Add(common.Violation{Predicate: "C19.batch", Key: "C19.batch/" + rpc + "/field-changed/" + fs[0], What: fmt.Sprintf("%s: %q differs after the wire round trip in %v", rpc, w.Subject, fs), Witness: map[string]any{"mode": "batch"}})
			}
			if v := trxVerdict(ver, &t); v != "accepted" {
				rep.Add(common.Violation{Predicate: "C19.batch", Key: "C19.batch/" + rpc + "/verify-changed", What: fmt.Sprintf("%s: %q no longer verifies after the wire round trip: %s", rpc, w.Subject, v), Witness: map[string]any{"mode": "batch"}})
			}
		}
	}
	judge("Waiting", g.werr, g.waiting, contracts)
	judge("TransactionsInDAG", g.herr, g.history, transfers)
	rep.Set("batch_answers", map[string]int{"Waiting": len(g.waiting), "TransactionsInDAG": len(g.history)})
	return 0
}

// signedDiffs drops the differences that are only nil versus empty (not a difference of the signed content).
func signedDiffs(ds []diff) []diff {
	var out []diff
	for _, d := range ds {
		if !d.nilOnly {
			out = append(out, d)
		}
	}
	return out
}
