package main

import (
	"fmt"
	"strings"

	"verif.local/harness/common"
	"verif.local/harness/sched"
	"verif.local/harness/world"
	"verif.local/vsched"
)

// Part B: concurrent duplicates. Two client tasks issue one write call each against the same node;
// every interleaving of their visible steps (locks, channel operations, badger / bigcache calls,
// goroutines spawned by the handlers) within the pre-emption bound is executed on the real code.

type dupScenario struct {
	name   string
	setup  []string  // calls made sequentially first
	calls  [2]string // the two concurrent clients; a client makes its calls (separated by ",") one after the other
	target string    // transaction the scenario is about
	after  []string  // calls made sequentially once the concurrent ones have returned (the repetition that comes later)
}

var dupScenarios = []dupScenario{
	{"Confirm||Confirm", []string{"Propose:c1"}, [2]string{"Confirm:B", "Confirm:B"}, "c1", nil},
	{"Confirm||Reject", []string{"Propose:c1"}, [2]string{"Confirm:B", "Reject:B"}, "c1", nil},
	{"Reject||Reject", []string{"Propose:c1"}, [2]string{"Reject:B", "Reject:B"}, "c1", nil},
	{"Propose(c1)||Propose(c1)", nil, [2]string{"Propose:c1", "Propose:c1"}, "c1", nil},
	{"Propose(s1)||Propose(s1)", nil, [2]string{"Propose:s1", "Propose:s1"}, "s1", nil},
	// paid contract (data and spice): concurrent proposals must leave it awaiting, unsealed
	{"Propose(m1)||Propose(m1)", nil, [2]string{"Propose:m1", "Propose:m1"}, "m1", nil},
	// the second client re-proposes the contract and confirms again while the first confirmation is in flight:
	// the only way two confirmations of one contract can both get past the awaiting cache and reach CreateLeaf
	{"Confirm||Propose(c1),Confirm", []string{"Propose:c1"}, [2]string{"Confirm:B", "Propose:c1,Confirm:B"}, "c1", nil},
	// ... and the call is repeated once more afterwards: what a refused concurrent call left behind shows in the repetition
	{"Propose(s1)||Propose(s1);Propose(s1)", nil, [2]string{"Propose:s1", "Propose:s1"}, "s1", []string{"Propose:s1"}},
	{"Confirm||Propose(c1),Confirm;Propose(c1),Confirm", []string{"Propose:c1"}, [2]string{"Confirm:B", "Propose:c1,Confirm:B"}, "c1", []string{"Propose:c1", "Confirm:B"}},
}

var schedFx *fixture

type dupOutcome struct {
	results  [2]string
	panics   [2]string
	sealedN  int
	awaiting bool
	final    snapshot
	// the second seal attempt passed CreateLeaf's unlocked index pre-check and was refused by saveTrxInVertex under the lock
	guardInsideLock bool
}

func dupBody(sc dupScenario) func(x *sched.X) {
	return func(x *sched.X) {
		fx := schedFx
		vsched.Quiet(true)
		fx.init()
		for _, ev := range sc.setup {
			rp := fx.send(fx.buildWrite(ev))
			vsched.Settle()
			if rp.class != "ok" {
				panic("c16: scenario set-up call " + ev + " failed: " + rp.class + " " + rp.errText)
			}
		}
		vsched.Quiet(false)
		o := &dupOutcome{}
		x.Vars["o"] = o
		var hs []*vsched.Handle
		for i := range sc.calls {
			i := i
			var rqs []*request
			for _, ev := range strings.Split(sc.calls[i], ",") {
				rqs = append(rqs, fx.buildWrite(ev))
			}
			hs = append(hs, vsched.GoClient(fmt.Sprintf("C%d", i), func() {
				var cls []string
				for _, rq := range rqs {
					rp := fx.send(rq)
					cls = append(cls, rp.class)
					if rp.panicked != "" {
						o.panics[i] = rp.panicked
					}
				}
				o.results[i] = strings.Join(cls, ",")
			}))
		}
		vsched.Join(hs...)
		vsched.Settle()
		vsched.Quiet(true)
		for _, ev := range sc.after {
			fx.send(fx.buildWrite(ev))
			vsched.Settle()
		}
		o.final = fx.snap()
		o.sealedN = count(o.final.ledger, sc.target)
		o.awaiting = count(o.final.trxs, sc.target) > 0 || count(o.final.lists["A"], sc.target) > 0 || count(o.final.lists["B"], sc.target) > 0
		for _, e := range fx.f.Log.Errors {
			if strings.Contains(e, "vertex create failed saving transaction") {
				o.guardInsideLock = true
			}
		}
		x.Obsf("%s=%s %s=%s sealed=%d awaiting=%v refused-by-guard-under-lock=%v %s", sc.calls[0], o.results[0], sc.calls[1], o.results[1], o.sealedN, o.awaiting, o.guardInsideLock, o.final.stateOf())
	}
}

func dupOracle(sc dupScenario) func(x *sched.X, r *vsched.Result) []common.Violation {
	return func(x *sched.X, r *vsched.Result) []common.Violation {
		var out []common.Violation
		add := func(pred, key, what string) {
			out = append(out, common.Violation{Predicate: pred, Key: key, What: sc.name + ": " + what})
		}
		if !r.RootDone {
			what := "deadlock"
			if len(r.Panics) > 0 {
				what = "panic " + r.Panics[0].Value + " in " + r.Panics[0].Where
			}
			add("C16.completes", "C16.incomplete/"+sc.name, "concurrent calls did not complete: "+what+"; blocked: "+sched.BlockedSummary(r))
			return out
		}
		o := x.Vars["o"].(*dupOutcome)
		anyOK := false
		reproposes := false
		for i, cs := range o.results {
			evs := strings.Split(sc.calls[i], ",")
			for j, c := range strings.Split(cs, ",") {
				// success of a sealing call (everything except the proposal of a contract)
				if c == "ok" && !(isContractProposal(evs[j]) && len(sc.setup) > 0) {
					anyOK = true
				}
				if c == "panic" {
					add("C16.no-panic", "C16.panic/"+rpcOf(evs[j]), fmt.Sprintf("%s panicked: %s", evs[j], o.panics[i]))
				}
			}
			if len(sc.setup) > 0 && strings.Contains(sc.calls[i], "Propose:c1") {
				reproposes = true
			}
		}
		for _, p := range r.Panics {
			add("C16.no-panic", "C16.panic/goroutine/"+sc.name, "a goroutine spawned by the handlers panicked: "+p.Value+" in "+p.Where)
		}
		sealing := !isContractProposal(sc.calls[0])
		switch {
		case o.sealedN > 1:
			add("C16.sealed-once", "C16.sealed-twice/"+sc.name, fmt.Sprintf("%s is sealed in %d vertices (answers %v)", sc.target, o.sealedN, o.results))
		case !sealing && o.sealedN > 0:
			add("C16.receiver-acts", "C16.sealed-without-receiver/Propose/on-proposal", fmt.Sprintf("contract %s was sealed by concurrent proposals", sc.target))
		}
		if sc.target != "s1" { // contracts
			// (a contract proposed again after it was sealed is held as awaiting again - also sequentially, see RefNotary)
			if o.sealedN >= 1 && o.awaiting && !reproposes {
				add("C16.awaiting-consistent", "C16.awaiting-after-sealed/"+sc.name, fmt.Sprintf("%s is sealed and still awaiting (answers %v): %s", sc.target, o.results, o.final.stateOf()))
			}
			if o.sealedN == 0 && !o.awaiting && anyOK {
				add("C16.not-lost", "C16.lost-while-success-reported/"+sc.name, fmt.Sprintf("%s is neither awaiting nor sealed although a call reported success (answers %v)", sc.target, o.results))
			}
		}
		if sealing && anyOK && o.sealedN == 0 {
			add("C16.success-means-sealed", "C16.success-but-not-sealed/"+sc.name, fmt.Sprintf("a call reported success but %s is not in the ledger (answers %v)", sc.target, o.results))
		}
		return out
	}
}

func isContractProposal(ev string) bool {
	return strings.HasPrefix(ev, "Propose:c1") || strings.HasPrefix(ev, "Propose:m1")
}

func c16Scenarios() map[string]*sched.Scenario {
	m := map[string]*sched.Scenario{}
	opt := vsched.Options{BranchSched: true, BranchData: true, KeyFunc: world.KeyFunc}
	for _, sc := range dupScenarios {
		sc := sc
		m[sc.name] = &sched.Scenario{Name: sc.name, Params: []int{0}, Opt: opt, Body: dupBody(sc), Oracle: dupOracle(sc),
			Setup: func() {
				if schedFx == nil {
					schedFx = newFixture()
				}
				schedFx.setup()
				schedFx.f.Log.Keep = true
			},
			// non-vacuity: executions in which both calls got past the unlocked "transaction already in a vertex"
			// pre-check of CreateLeaf, so that only the index guard under the ledger lock refused the second seal
			Interesting: func(x *sched.X, r *vsched.Result) bool {
				o, _ := x.Vars["o"].(*dupOutcome)
				return o != nil && o.guardInsideLock
			}}
	}
	return m
}
