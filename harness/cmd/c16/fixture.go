package main

import (
	"context"
	"encoding/hex"
	"errors"
	"fmt"
	"sort"
	"strings"
	"time"

	"google.golang.org/protobuf/proto"

	"github.com/bartossh/Computantis/src/notaryserver"
	"github.com/bartossh/Computantis/src/protobufcompiled"
	"github.com/bartossh/Computantis/src/spice"
	"github.com/bartossh/Computantis/src/transaction"
	"github.com/bartossh/Computantis/src/transformers"
	"verif.local/harness/world"
	"verif.local/vsched"
)

// fixture is the closed system shared by the SPACE model and the SCHED scenarios:
// one full node "G" (ledger, awaiting cache, flashback, challenge provider, notary
// service wired as cmd/node does), the cast I=A (issuer), Rc=B (receiver), X
// (attacker) and a fixed menu of pre-signed transactions.
type fixture struct {
	f   *world.FullNode
	w   *world.LW
	ctx context.Context

	A, B, X, R *world.Actor

	fund transaction.Transaction // R -> A 5 (set-up only, gives the issuer funds)
	c1   transaction.Transaction // contract (data) A -> B
	s1   transaction.Transaction // pure spice transfer A -> B 1
	c1x  transaction.Transaction // contract claiming issuer A, signed by X (invalid issuer signature)
	m1   transaction.Transaction // paid contract A -> B: data AND spice 1 (must behave like a contract, not like a transfer)

	labels map[[32]byte]string
	byName map[string]transaction.Transaction
}

func newFixture() *fixture {
	fx := &fixture{ctx: context.Background(), A: world.Cast("A"), B: world.Cast("B"), X: world.Cast("X"), R: world.Cast("R")}
	fx.fund = world.MakeTx(fx.R, fx.A.Addr, "c16-fund", nil, spice.Melange{Currency: 5}, 1601)
	fx.c1 = world.MakeTx(fx.A, fx.B.Addr, "c16-contract", []byte("contract: A sells B a bridge"), spice.Melange{}, 1602)
	fx.s1 = world.MakeTx(fx.A, fx.B.Addr, "c16-spice", nil, spice.Melange{Currency: 1}, 1603)
	fx.m1 = world.MakeTx(fx.A, fx.B.Addr, "c16-paid-contract", []byte("paid"), spice.Melange{Currency: 1}, 1605)
	// forged contract: claims issuer A, but digest and signature are produced with X's key
	forged := transaction.Transaction{
		CreatedAt:         world.BaseTime.Add(1604 * time.Millisecond),
		IssuerAddress:     fx.A.Addr,
		ReceiverAddress:   fx.B.Addr,
		Subject:           "c16-forged-contract",
		Data:              []byte("contract: A owes X everything"),
		ReceiverSignature: []byte{},
	}
	forged.Hash, forged.IssuerSignature = fx.X.Sign(forged.GetMessage())
	fx.c1x = forged
	// replays under a foreign hash: the content and signatures of s1 / c1, but a Hash field that is not their digest
	s1h, c1h := fx.s1, fx.c1
	s1h.Hash[0] ^= 0xff
	c1h.Hash[31] ^= 0x0f
	fx.labels = map[[32]byte]string{fx.fund.Hash: "fund", fx.c1.Hash: "c1", fx.s1.Hash: "s1", fx.c1x.Hash: "c1x", fx.m1.Hash: "m1", s1h.Hash: "s1h", c1h.Hash: "c1h"}
	fx.byName = map[string]transaction.Transaction{"fund": fx.fund, "c1": fx.c1, "s1": fx.s1, "c1x": fx.c1x, "m1": fx.m1, "s1h": s1h, "c1h": c1h}
	return fx
}

// setup boots the process-wide node (outside any execution).
func (fx *fixture) setup() {
	if fx.f == nil {
		fx.f = world.GetFullNodes("G")[0]
	}
}

// init resets the node and funds the issuer through the real Propose handler (inside an execution).
func (fx *fixture) init() {
	fx.w = world.NewLW([]*world.Node{fx.f.Node}, spice.Melange{Currency: 10}, 0)
	for l, t := range fx.byName {
		fx.w.Ref.LabelTx(l, t)
	}
	fx.f.ResetServices(fx.ctx)
	vsched.Settle()
	pt, err := world.TrxToProto(fx.fund)
	if err != nil {
		panic(err)
	}
	if _, err := fx.f.Notary.Propose(fx.ctx, pt); err != nil {
		panic("c16: funding the issuer failed: " + err.Error())
	}
	vsched.Settle()
}

func (fx *fixture) actor(name string) *world.Actor {
	switch name {
	case "A":
		return fx.A
	case "B":
		return fx.B
	case "X":
		return fx.X
	}
	panic("c16: unknown actor " + name)
}

func other(addr string) string {
	if addr == "A" {
		return "B"
	}
	return "A"
}

func (fx *fixture) label(h []byte) string {
	if len(h) == 32 {
		if l, ok := fx.labels[[32]byte(h)]; ok {
			return l
		}
	}
	if len(h) == 32 && fx.w != nil && [32]byte(h) == fx.w.Genesis.Transaction.Hash {
		return "gen"
	}
	n := len(h)
	if n > 4 {
		n = 4
	}
	return "?" + hex.EncodeToString(h[:n])
}

// signedHash builds the request message of the read / reject RPCs: `signer` signs `data`, the request claims `addr`.
func signedHash(signer *world.Actor, addr string, data []byte) *protobufcompiled.SignedHash {
	d, s := signer.Sign(data)
	return &protobufcompiled.SignedHash{Address: addr, Data: append([]byte(nil), data...), Hash: d[:], Signature: s}
}

// reply is what one RPC returned.
type reply struct {
	class    string
	errText  string
	txs      []string // labels of returned transactions (Waiting, TransactionsInDAG, Saved)
	blob     []byte   // Data
	spice    string   // Balance
	panicked string
}

func errClass(err error) string {
	switch {
	case err == nil:
		return "ok"
	case errors.Is(err, notaryserver.ErrVerification):
		return "verification"
	case errors.Is(err, notaryserver.ErrNoDataPresent):
		return "no-data"
	case errors.Is(err, notaryserver.ErrProcessing):
		return "processing"
	case errors.Is(err, notaryserver.ErrThrottle):
		return "throttle"
	case errors.Is(err, notaryserver.ErrRequestIsEmpty), errors.Is(err, notaryserver.ErrDataEmpty), errors.Is(err, transformers.ErrTrxIsEmpty):
		return "empty"
	}
	s := err.Error()
	if len(s) > 40 {
		s = s[:40]
	}
	return "other(" + strings.ReplaceAll(s, " ", "-") + ")"
}

// request is one well-formed RPC message, ready to be sent.
type request struct {
	rpc string
	trx *protobufcompiled.Transaction
	sh  *protobufcompiled.SignedHash
	adr *protobufcompiled.Address
}

func (fx *fixture) protoTx(t transaction.Transaction) *protobufcompiled.Transaction {
	pt, err := world.TrxToProto(t)
	if err != nil {
		panic(err)
	}
	return pt
}

// buildWrite builds the Propose / Confirm / Reject requests of the alphabet.
func (fx *fixture) buildWrite(ev string) *request {
	p := strings.Split(ev, ":")
	switch p[0] {
	case "Propose":
		return &request{rpc: "Propose", trx: fx.protoTx(fx.byName[p[1]])}
	case "Confirm": // Confirm:<who countersigns>[:<contract>]
		t := fx.contractOf(p, 2)
		switch p[1] {
		case "B": // honest receiver countersigns
			t = world.CounterSign(t, fx.B)
		case "X": // the attacker "countersigns" with its own key
			t = world.CounterSign(t, fx.X)
		case "none": // issuer-signed content only
		case "echo": // the issuer's own signature copied into the receiver-signature field
			t.ReceiverSignature = append([]byte(nil), t.IssuerSignature...)
		}
		return &request{rpc: "Confirm", trx: fx.protoTx(t)}
	case "Reject": // Reject:<who signs>[:<contract>]
		ct := fx.contractOf(p, 2)
		h := ct.Hash[:]
		switch p[1] {
		case "B": // the receiver signs the hash
			return &request{rpc: "Reject", sh: signedHash(fx.B, fx.B.Addr, h)}
		case "A": // the issuer signs the hash under its own address (valid signature, not the receiver)
			return &request{rpc: "Reject", sh: signedHash(fx.A, fx.A.Addr, h)}
		case "X": // the attacker signs, claiming to be the receiver (invalid signature)
			return &request{rpc: "Reject", sh: signedHash(fx.X, fx.B.Addr, h)}
		case "XX": // the attacker signs under its own address (valid signature, not the receiver)
			return &request{rpc: "Reject", sh: signedHash(fx.X, fx.X.Addr, h)}
		}
	}
	panic("c16: not a write event: " + ev)
}

// contractOf returns the contract named by the optional field i of an event (default c1).
func (fx *fixture) contractOf(p []string, i int) transaction.Transaction {
	if len(p) > i {
		return fx.byName[p[i]]
	}
	return fx.c1
}

func contractLabel(p []string, i int) string {
	if len(p) > i {
		return p[i]
	}
	return "c1"
}

// send performs one RPC on the real handler (under recover). The caller lets the goroutines the handler
// spawned run to quiescence (vsched.Settle) - not done here because concurrent clients must not settle.
func (fx *fixture) send(rq *request) (rp reply) {
	defer func() {
		if r := recover(); r != nil {
			if !vsched.Active() {
				panic(r) // execution is being torn down
			}
			rp.class = "panic"
			rp.panicked = fmt.Sprint(r)
		}
	}()
	n := fx.f.Notary
	var err error
	switch rq.rpc {
	case "Propose":
		_, err = n.Propose(fx.ctx, proto.Clone(rq.trx).(*protobufcompiled.Transaction))
	case "Confirm":
		_, err = n.Confirm(fx.ctx, proto.Clone(rq.trx).(*protobufcompiled.Transaction))
	case "Reject":
		_, err = n.Reject(fx.ctx, proto.Clone(rq.sh).(*protobufcompiled.SignedHash))
	case "Data":
		var b *protobufcompiled.DataBlob
		b, err = n.Data(fx.ctx, rq.adr)
		if err == nil && b != nil {
			rp.blob = append([]byte(nil), b.Blob...)
		}
	case "Waiting", "TransactionsInDAG":
		var ts *protobufcompiled.Transactions
		if rq.rpc == "Waiting" {
			ts, err = n.Waiting(fx.ctx, proto.Clone(rq.sh).(*protobufcompiled.SignedHash))
		} else {
			ts, err = n.TransactionsInDAG(fx.ctx, proto.Clone(rq.sh).(*protobufcompiled.SignedHash))
		}
		if err == nil && ts != nil {
			for _, t := range ts.Array {
				rp.txs = append(rp.txs, fx.label(t.Hash))
			}
			sort.Strings(rp.txs)
		}
	case "Saved":
		var t *protobufcompiled.Transaction
		t, err = n.Saved(fx.ctx, proto.Clone(rq.sh).(*protobufcompiled.SignedHash))
		if err == nil && t != nil {
			rp.txs = []string{fx.label(t.Hash)}
		}
	case "Balance":
		var s *protobufcompiled.Spice
		s, err = n.Balance(fx.ctx, proto.Clone(rq.sh).(*protobufcompiled.SignedHash))
		if err == nil && s != nil {
			rp.spice = fmt.Sprintf("%d.%018d", s.Currency, s.SupplementaryCurrency)
		}
	default:
		panic("c16: unknown rpc " + rq.rpc)
	}
	rp.class = errClass(err)
	if err != nil {
		rp.errText = err.Error()
	}
	return rp
}

// snapshot is the part of the node state the property talks about, read directly
// (ledger hook and cache dump), never through the notary API.
type snapshot struct {
	ledger   []string            // labels of the transactions of all live + checkpointed vertices, sorted, with multiplicity
	trxs     []string            // labels of the transactions held in the awaiting cache
	lists    map[string][]string // "A"/"B"/"X" -> labels listed as awaiting for that address (entries with a live transaction)
	balances []string            // addresses with a cached balance
	flash    []string            // addresses recorded by the flashback memory (throttle set)
	// addresses whose raw list value contains a separator (more than one entry was ever listed at once). Hidden
	// cache state that decides a later answer: the cache's remove() then never yields an empty value again, so
	// once nothing is awaiting an authorised Waiting answers "ok, empty list" instead of "processing". The flag
	// is absorbing (add() and remove() keep a separator), so it is a finite abstraction of the raw value.
	residue []string
}

func (fx *fixture) snap() snapshot {
	var s snapshot
	ls := fx.f.Book.VerifSnapshot()
	for _, v := range ls.Vertices {
		s.ledger = append(s.ledger, fx.label(v.Transaction.Hash[:]))
	}
	for _, v := range ls.Stored {
		s.ledger = append(s.ledger, fx.label(v.Transaction.Hash[:]))
	}
	sort.Strings(s.ledger)
	s.lists = map[string][]string{}
	dump := fx.f.Cache.VerifDump()
	live := map[string]bool{}
	for k := range dump {
		if strings.HasPrefix(k, "trx-") {
			h, err := hex.DecodeString(k[4:])
			if err == nil {
				l := fx.label(h)
				live[hex.EncodeToString(h)] = true
				s.trxs = append(s.trxs, l)
			}
		}
	}
	for k, v := range dump {
		switch {
		case strings.HasPrefix(k, "trx-"):
		case strings.HasPrefix(k, "address-"):
			name := world.AddrName(k[len("address-"):])
			if strings.Contains(v, ",") {
				s.residue = append(s.residue, name)
			}
			for _, hx := range strings.Split(v, ",") {
				if hx == "" || !live[hx] {
					continue
				}
				h, _ := hex.DecodeString(hx)
				s.lists[name] = append(s.lists[name], fx.label(h))
			}
			sort.Strings(s.lists[name])
		default:
			s.balances = append(s.balances, world.AddrName(k))
		}
	}
	for k := range fx.f.Flash.VerifDump() {
		s.flash = append(s.flash, world.AddrName(k))
	}
	sort.Strings(s.trxs)
	sort.Strings(s.balances)
	sort.Strings(s.flash)
	sort.Strings(s.residue)
	return s
}

// stateOf renders the ledger + awaiting part of a snapshot (what an invalid request must leave unchanged).
func (s snapshot) stateOf() string {
	var names []string
	for n := range s.lists {
		names = append(names, n)
	}
	sort.Strings(names)
	var ls []string
	for _, n := range names {
		if len(s.lists[n]) > 0 {
			ls = append(ls, n+"="+strings.Join(s.lists[n], ","))
		}
	}
	return "L[" + strings.Join(s.ledger, " ") + "] T[" + strings.Join(s.trxs, " ") + "] W[" + strings.Join(ls, " ") + "]"
}

func count(xs []string, x string) int {
	n := 0
	for _, y := range xs {
		if y == x {
			n++
		}
	}
	return n
}
