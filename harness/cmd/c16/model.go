package main

import (
	"bytes"
	"crypto/sha256"
	"encoding/hex"
	"fmt"
	"sort"
	"strings"
	"time"

	"github.com/bartossh/Computantis/src/protobufcompiled"
	"verif.local/harness/common"
	"verif.local/vsched"
)

// ---------------------------------------------------------------------------------------------
// RefNotary - the reference state machine (deliberately boring).
//
// Property-level content: a contract is awaiting after a validly signed proposal and is sealed
// only by its receiver's confirm / reject, at most once; a pure spice transfer is sealed on a
// valid issuer signature; invalid signatures change nothing; reads answer only to a proof of key
// ownership over the current unexpired server-issued challenge (balance: over the own address).
//
// Mirrored from the implementation, because the property does not fix them and the response
// class cannot be predicted otherwise: which error class a refusal carries; an authorised Waiting
// with an empty list answers "processing"; re-proposing a sealed contract makes it awaiting again
// (the later confirm is then refused at the ledger); challenges are reusable until they expire or
// are superseded by a newer one; the throttle (flashback) set: the first Balance / TransactionsInDAG
// call for an address records it - whoever calls, valid or not -, later calls are throttled until
// a seal involving the address clears it (Propose / Confirm clear issuer and receiver, Reject
// clears the issuer only).
// ---------------------------------------------------------------------------------------------

type challenge struct {
	blob  []byte
	epoch int // logical-clock epoch in which it was issued; it expires when the epoch advances (2 min > 60 s)
}

type refNotary struct {
	awaiting map[string]bool      // contract label -> held as awaiting
	sealed   map[string]string    // tx label -> how it was sealed ("propose", "confirm", "reject")
	chal     map[string]challenge // address name -> challenge currently stored by the server
	used     map[string][]byte    // address name -> challenge most recently presented by that address ("replay" material)
	throttle map[string]bool      // address names recorded by the flashback memory
	epoch    int
	// replayFor: addresses for which presented challenges are remembered as replay material (quick tier: the
	// issuer only, which keeps the canonical state space small; thorough: both)
	replayFor map[string]bool
}

func newRef(thorough bool) *refNotary {
	return &refNotary{replayFor: map[string]bool{"A": true, "B": thorough}, awaiting: map[string]bool{}, sealed: map[string]string{}, chal: map[string]challenge{}, used: map[string][]byte{}, throttle: map[string]bool{}}
}

// parties of the menu transactions (all of them are A -> B).
var txIssuer = map[string]string{"c1": "A", "s1": "A", "c1x": "A", "m1": "A", "fund": "R", "s1h": "A", "c1h": "A"}
var txReceiver = map[string]string{"c1": "B", "s1": "B", "c1x": "B", "m1": "B", "fund": "A", "s1h": "B", "c1h": "B"}

func (r *refNotary) awaitingOf(addr string) []string {
	var out []string
	for l := range r.awaiting {
		if txIssuer[l] == addr || txReceiver[l] == addr {
			out = append(out, l)
		}
	}
	sort.Strings(out)
	return out
}

func (r *refNotary) historyOf(addr string) []string {
	out := []string{}
	if addr == "A" {
		out = append(out, "fund")
	}
	for l := range r.sealed {
		if txIssuer[l] == addr || txReceiver[l] == addr {
			out = append(out, l)
		}
	}
	sort.Strings(out)
	return out
}

// proofDefect says why a read request built as (addr, kind) is NOT a proof of ownership of addr's key over
// the current, unexpired, server-issued challenge ("" = it is a proof).
func (r *refNotary) proofDefect(addr, kind string) string {
	c, issued := r.chal[addr]
	switch kind {
	case "wrongkey":
		return "wrong-key"
	case "balshape":
		return "signed-own-address-not-a-challenge"
	case "other":
		return "foreign-challenge"
	case "cur":
		if !issued {
			return "no-challenge"
		}
		if c.epoch != r.epoch {
			return "stale-challenge"
		}
		return ""
	case "replay":
		if !issued || !bytes.Equal(r.used[addr], c.blob) {
			return "superseded-challenge"
		}
		if c.epoch != r.epoch {
			return "stale-challenge"
		}
		return ""
	}
	return "unknown-kind"
}

// expectation of the reference for one call.
type expectation struct {
	class      string
	alt        string   // a second acceptable class ("" = none), where the property leaves the answer open
	txs        []string // expected transactions in the answer (Waiting / TransactionsInDAG / Saved), nil = not compared
	compareTxs bool
	invalidSig bool   // the request carries a signature that does not verify for the key it claims
	noProof    string // read RPCs: why the caller did not prove ownership ("" = proved / not a guarded read)
	guarded    bool   // Waiting / TransactionsInDAG / Balance: data may be returned only on proof
	sealsBy    string // writes: "receiver" if the request is a valid receiver action on c1, "issuer" if a valid spice proposal
}

// step advances the reference by one event and returns what it expects the server to answer.
// (Data: the blob is stored afterwards by the caller, it is chosen by the server.)
func (r *refNotary) step(ev string) expectation {
	p := strings.Split(ev, ":")
	var e expectation
	seal := func(l, how string, clear ...string) {
		r.sealed[l] = how
		for _, a := range clear {
			delete(r.throttle, a)
		}
	}
	switch p[0] {
	case "Propose":
		switch p[1] {
		case "c1", "m1": // carries data (m1: data and spice): held as awaiting, never sealed by the proposal
			if r.awaiting[p[1]] {
				e.class = "processing"
			} else {
				r.awaiting[p[1]] = true
				e.class = "ok"
			}
		case "s1":
			e.sealsBy = "issuer"
			if _, done := r.sealed["s1"]; done {
				e.class = "processing"
			} else {
				seal("s1", "propose", "A", "B")
				e.class = "ok"
			}
		case "c1x", "s1h", "c1h": // forged issuer signature; genuine content under a hash that is not its digest
			e.invalidSig = true
			e.class = "verification"
		}
	case "Confirm":
		if p[1] != "B" {
			e.invalidSig = true
			e.class = "verification"
			break
		}
		e.sealsBy = "receiver"
		ct := contractLabel(p, 2)
		switch {
		case !r.awaiting[ct]:
			e.class = "no-data"
		default:
			delete(r.awaiting, ct)
			if _, done := r.sealed[ct]; done {
				e.class = "processing" // taken off the awaiting list, refused by the ledger: never sealed twice
			} else {
				seal(ct, "confirm", "A", "B")
				e.class = "ok"
			}
		}
	case "Reject":
		ct := contractLabel(p, 2)
		switch p[1] {
		case "B":
			e.sealsBy = "receiver"
			if !r.awaiting[ct] {
				e.class = "no-data"
				break
			}
			delete(r.awaiting, ct)
			if _, done := r.sealed[ct]; done {
				e.class = "processing"
			} else {
				seal(ct, "reject", "A")
				e.class = "ok"
			}
		case "A", "XX": // validly signed, but not by the receiver
			if !r.awaiting[ct] {
				e.class = "no-data"
			} else {
				e.class = "processing"
			}
		case "X":
			e.invalidSig = true
			e.class = "processing"
		}
	case "Data":
		e.class = "ok"
	case "Waiting":
		addr, kind := p[1], p[2]
		e.guarded = true
		e.noProof = r.proofDefect(addr, kind)
		e.invalidSig = kind == "wrongkey"
		if kind == "cur" && r.replayFor[addr] {
			r.used[addr] = r.chal[addr].blob
		}
		if e.noProof != "" {
			e.class = "verification"
			break
		}
		e.txs, e.compareTxs = r.awaitingOf(addr), true
		if len(e.txs) == 0 {
			// nothing awaiting: the code answers "processing" (list key absent or empty) or, when the cache's
			// remove() left separator residue in the list value, "ok" with an empty list; the property asks for neither
			e.class, e.alt = "processing", "ok"
		} else {
			e.class = "ok"
		}
	case "TransactionsInDAG":
		addr, kind := p[1], p[2]
		e.guarded = true
		e.noProof = r.proofDefect(addr, kind)
		e.invalidSig = kind == "wrongkey"
		if kind == "cur" && r.replayFor[addr] {
			r.used[addr] = r.chal[addr].blob
		}
		was := r.throttle[addr]
		r.throttle[addr] = true
		switch {
		case was:
			e.class = "throttle"
		case e.noProof != "":
			e.class = "verification"
		default:
			e.class = "ok"
			e.txs, e.compareTxs = r.historyOf(addr), true
		}
	case "Balance":
		e.guarded = true
		switch p[1] {
		case "X":
			e.noProof, e.invalidSig = "wrong-key", true
		case "mismatch":
			e.noProof = "data-not-address"
		}
		was := r.throttle["A"]
		r.throttle["A"] = true
		switch {
		case was:
			e.class = "throttle"
		case e.noProof != "":
			e.class = "verification"
		default:
			e.class = "ok"
		}
	case "Saved":
		l, who := p[1], p[2]
		if who == "X" {
			e.invalidSig = true
			e.class = "verification"
			break
		}
		// who == "A" (a party) or "XX" (the attacker under its own address): the code asks for any valid signature
		if _, done := r.sealed[l]; done {
			e.class = "ok"
			e.txs, e.compareTxs = []string{l}, true
		} else {
			e.class = "processing"
		}
	case "Clock":
		r.epoch++
		e.class = "ok"
	default:
		panic("c16: unknown event " + ev)
	}
	return e
}

// ---------------------------------------------------------------------------------------------
// The SPACE model.
// ---------------------------------------------------------------------------------------------

type model struct {
	fx       *fixture
	ref      *refNotary
	thorough bool
	capture  bool
	// diverged: an earlier call of the path was answered differently from the reference. The violation was
	// reported at that call (minimal witness); the path is not extended, so one defect does not cascade
	// into a violation at every later call.
	diverged bool
	issued   map[string][]challenge // every challenge the server handed out on this path, per address
	revived  string                 // address whose expired challenge the last Data call handed out again
	pre      snapshot
	post     snapshot
	exp      expectation
	rp       reply
	counters map[string]int
}

func newModel(thorough bool) *model {
	return &model{fx: newFixture(), thorough: thorough, counters: map[string]int{}}
}

func (m *model) Setup() { m.fx.setup() }

func (m *model) Init() {
	m.fx.init()
	m.ref = newRef(m.thorough)
	m.capture = false
	m.diverged = false
	m.issued = map[string][]challenge{}
	m.revived = ""
}

// Enabled lists the calls a client can make in the current state.
func (m *model) Enabled() []string {
	if m.diverged {
		return nil
	}
	out := []string{
		"Propose:c1", "Propose:s1", "Propose:c1x", "Propose:s1h", "Propose:c1h",
		"Confirm:B", "Confirm:X", "Confirm:none", "Confirm:echo",
		"Reject:B", "Reject:A", "Reject:X",
		"Data:A", "Data:B",
		"Saved:s1:A", "Saved:c1:A", "Saved:c1:X",
		"Balance:A", "Balance:X", "Balance:mismatch",
		// the paid contract m1 (data and spice)
		"Propose:m1", "Confirm:B:m1", "Confirm:X:m1", "Reject:B:m1", "Saved:m1:A",
	}
	if m.thorough {
		out = append(out, "Reject:XX", "Saved:c1:XX", "Saved:s1:X")
	}
	out = append(out, "Waiting:A:balshape", "TransactionsInDAG:A:balshape")
	if m.thorough {
		out = append(out, "Waiting:B:balshape")
	}
	for _, a := range []string{"A", "B"} {
		c, ok := m.ref.chal[a]
		if ok {
			out = append(out, "Waiting:"+a+":cur")
			if a == "A" || m.thorough {
				out = append(out, "Waiting:"+a+":wrongkey")
			}
		}
		if _, ok2 := m.ref.chal[other(a)]; ok2 {
			out = append(out, "Waiting:"+a+":other")
		}
		// a replay is a distinct request only if the presented challenge is no longer the stored one
		if u, ok3 := m.ref.used[a]; ok3 && !(ok && bytes.Equal(u, c.blob)) && (a == "A" || m.thorough) {
			out = append(out, "Waiting:"+a+":replay")
		}
	}
	if _, ok := m.ref.chal["A"]; ok {
		out = append(out, "TransactionsInDAG:A:cur")
		if m.thorough {
			out = append(out, "TransactionsInDAG:A:wrongkey")
		}
	}
	if _, ok := m.ref.chal["B"]; ok && m.thorough {
		out = append(out, "TransactionsInDAG:B:cur")
	}
	maxEpoch := 1
	if m.thorough {
		maxEpoch = 2
	}
	if m.ref.epoch < maxEpoch {
		out = append(out, "Clock")
	}
	return out
}

func (m *model) BeforeLast(string) { m.capture = true }

// buildRead builds a read request from the challenges the server handed out on this path.
func (m *model) buildRead(ev string) *request {
	fx := m.fx
	p := strings.Split(ev, ":")
	switch p[0] {
	case "Data":
		return &request{rpc: "Data", adr: &protobufcompiled.Address{Public: fx.actor(p[1]).Addr}}
	case "Waiting", "TransactionsInDAG":
		a := fx.actor(p[1])
		var blob []byte
		signer := a
		switch p[2] {
		case "cur":
			blob = m.ref.chal[p[1]].blob
		case "other":
			blob = m.ref.chal[other(p[1])].blob
		case "replay":
			blob = m.ref.used[p[1]]
		case "wrongkey":
			blob = m.ref.chal[p[1]].blob
			signer = fx.X
		case "balshape":
			// cross-wired: byte for byte a valid Balance request of this address (the signed data is the address
			// itself, no server challenge involved), sent to another read endpoint
			blob = []byte(a.Addr)
		}
		return &request{rpc: p[0], sh: signedHash(signer, a.Addr, blob)}
	case "Saved":
		h := fx.byName[p[1]].Hash
		switch p[2] {
		case "A":
			return &request{rpc: "Saved", sh: signedHash(fx.A, fx.A.Addr, h[:])}
		case "X": // attacker claims to be A
			return &request{rpc: "Saved", sh: signedHash(fx.X, fx.A.Addr, h[:])}
		case "XX": // attacker under its own address
			return &request{rpc: "Saved", sh: signedHash(fx.X, fx.X.Addr, h[:])}
		}
	case "Balance":
		switch p[1] {
		case "A":
			return &request{rpc: "Balance", sh: signedHash(fx.A, fx.A.Addr, []byte(fx.A.Addr))}
		case "X": // attacker asks for A's balance
			return &request{rpc: "Balance", sh: signedHash(fx.X, fx.A.Addr, []byte(fx.A.Addr))}
		case "mismatch": // validly signed, but the signed data is not the address asked about
			return &request{rpc: "Balance", sh: signedHash(fx.A, fx.A.Addr, []byte(fx.B.Addr))}
		}
	}
	panic("c16: not a read event: " + ev)
}

// Apply performs one call on the real notary handlers and steps the reference.
func (m *model) Apply(ev string) string {
	kind := ev
	if i := strings.Index(ev, ":"); i >= 0 {
		kind = ev[:i]
	}
	capture := m.capture
	m.capture = false
	if capture {
		m.pre = m.fx.snap()
	}
	var rp reply
	if kind == "Clock" {
		m.exp = m.ref.step(ev)
		vsched.AdvanceClock(2 * time.Minute)
		rp.class = "ok"
	} else {
		var rq *request
		switch kind {
		case "Propose", "Confirm", "Reject":
			rq = m.fx.buildWrite(ev)
		default:
			rq = m.buildRead(ev)
		}
		m.exp = m.ref.step(ev)
		rp = m.fx.send(rq)
		vsched.Settle()
		if kind == "Data" && rp.class == "ok" {
			who := strings.Split(ev, ":")[1]
			// a challenge that was issued in an earlier clock epoch has expired; if the server hands the same bytes out
			// again, every request once signed for it is valid again
			for _, old := range m.issued[who] {
				if old.epoch != m.ref.epoch && bytes.Equal(old.blob, rp.blob) {
					m.revived = who
				}
			}
			m.issued[who] = append(m.issued[who], challenge{blob: rp.blob, epoch: m.ref.epoch})
			m.ref.chal[who] = challenge{blob: rp.blob, epoch: m.ref.epoch}
		}
	}
	m.rp = rp
	if !sameVerdict(rp.class, m.exp.class, m.exp.alt) {
		m.diverged = true
	}
	if capture {
		m.post = m.fx.snap()
	}
	// a write that was accepted must have had the effect the reference expects; otherwise the path has diverged
	// (reported by Check at this call) and is not extended
	if (kind == "Propose" || kind == "Confirm" || kind == "Reject") && rp.class == "ok" && !m.diverged {
		sn := m.post
		if !capture {
			sn = m.fx.snap()
		}
		want := []string{"fund", "gen"}
		for l := range m.ref.sealed {
			want = append(want, l)
		}
		sort.Strings(want)
		var aw []string
		for l := range m.ref.awaiting {
			aw = append(aw, l)
		}
		sort.Strings(aw)
		if strings.Join(want, " ") != strings.Join(sn.ledger, " ") || strings.Join(aw, " ") != strings.Join(sn.trxs, " ") {
			m.diverged = true
		}
	}
	return rp.class
}

// Key is the canonical state: real ledger / awaiting / throttle / balance-cache contents by label,
// which addresses hold a valid or expired challenge, whether the last presented challenge is still the
// stored one, and the clock epoch. The random challenge bytes are not part of it.
func (m *model) Key() string {
	s := m.fx.snap()
	var ch []string
	for _, a := range []string{"A", "B"} {
		c, ok := m.ref.chal[a]
		st := "-"
		if ok {
			st = "valid"
			if c.epoch != m.ref.epoch {
				st = "expired"
			}
		}
		u := "-"
		if ub, ok2 := m.ref.used[a]; ok2 {
			u = "superseded"
			if ok && bytes.Equal(ub, c.blob) {
				u = "current"
			}
		}
		ch = append(ch, a+":"+st+"/"+u)
	}
	k := fmt.Sprintf("%s R[%s] B[%s] F[%s] C[%s] E%d", s.stateOf(), strings.Join(s.residue, " "), strings.Join(s.balances, " "), strings.Join(s.flash, " "), strings.Join(ch, " "), m.ref.epoch)
	h := sha256.Sum256([]byte(k))
	return hex.EncodeToString(h[:12])
}

func (m *model) Counters() map[string]int {
	c := m.counters
	m.counters = map[string]int{}
	return c
}

func rpcOf(ev string) string {
	if i := strings.Index(ev, ":"); i >= 0 {
		return ev[:i]
	}
	return ev
}

// verdict reduces a response class to answered / refused.
func verdict(class string) string {
	if class == "ok" {
		return "ok"
	}
	return "refused"
}

// sameVerdict reports whether the answer has the verdict of the reference class or of its alternative.
func sameVerdict(got, class, alt string) bool {
	return verdict(got) == verdict(class) || alt != "" && verdict(got) == verdict(alt)
}

func variantOf(ev string) string {
	if i := strings.Index(ev, ":"); i >= 0 {
		return ev[i+1:]
	}
	return ""
}

// Check evaluates the oracles for the call just made.
func (m *model) Check(ev, res string) []common.Violation {
	var out []common.Violation
	rpc, variant := rpcOf(ev), variantOf(ev)
	e, rp := m.exp, m.rp
	add := func(pred, key, what string) {
		out = append(out, common.Violation{Predicate: pred, Key: key, What: what,
			Witness: map[string]any{"call": ev, "answer": rp.class, "error": rp.errText, "reference": e.class, "before": m.pre.stateOf(), "after": m.post.stateOf()}})
	}
	m.counters["calls"]++
	if m.revived != "" {
		add("C16.unexpired-challenge", "C16.expired-challenge-issued-again/Data",
			fmt.Sprintf("%s handed out, for %s, the very challenge it had issued before the clock passed its life time: requests signed for the expired challenge are valid again", ev, m.revived))
		m.revived = ""
	}
	m.counters["answer/"+rpc+"="+rp.class]++
	if rpc == "Clock" {
		return nil
	}
	if rp.class == "panic" {
		add("C16.no-panic", "C16.panic/"+rpc, fmt.Sprintf("%s panicked: %s", ev, rp.panicked))
		return out
	}
	// 1. the verdict (answered / refused) agrees with the reference. WHICH error a refusal carries is not part of
	// the property: a different error class is counted, not flagged.
	if (e.class == "throttle" || rp.class == "throttle") && rp.class != e.class {
		// throttling is a rate limiter outside the property: when the node throttles where the mirror did not expect it
		// (or the other way round) the reference can no longer predict this path; it is counted and not extended
		m.counters["throttle-prediction-differs/"+rpc]++
		m.diverged = true
	} else if e.guarded && rp.class != "ok" && !sameVerdict(rp.class, e.class, e.alt) {
		// a guarded read that the reference would answer was refused: the property only says to whom data may be
		// returned, not that it must be
		m.counters["guarded-read-refused-although-authorised/"+rpc]++
	} else if !sameVerdict(rp.class, e.class, e.alt) {
		add("C16.response-class", fmt.Sprintf("C16.response-class-differs/%s/%s->%s", rpc, verdict(e.class), verdict(rp.class)),
			fmt.Sprintf("%s answered %q (%s), the reference says %q", ev, rp.class, rp.errText, e.class))
	} else if rp.class != e.class && rp.class != e.alt {
		m.counters["refusal-class-differs/"+rpc+"/"+e.class+"->"+rp.class]++
	}
	// 2. awaiting lists (read from the cache directly) agree with the reference
	for _, a := range []string{"A", "B"} {
		want := strings.Join(m.ref.awaitingOf(a), ",")
		got := strings.Join(m.post.lists[a], ",")
		if want != got {
			cause := "unexpected-entry"
			if len(got) < len(want) {
				cause = "missing-entry"
			}
			add("C16.awaiting", "C16.awaiting-differs/"+rpc+"/"+cause,
				fmt.Sprintf("after %s the awaiting list of %s is [%s], the reference says [%s]", ev, a, got, want))
		}
	}
	if l := m.post.lists["X"]; len(l) > 0 {
		add("C16.awaiting", "C16.awaiting-differs/"+rpc+"/attacker-list", fmt.Sprintf("after %s the attacker has an awaiting list %v", ev, l))
	}
	// 3. the ledger holds exactly the transactions the reference sealed, each at most once
	wantLedger := []string{"fund", "gen"}
	for l := range m.ref.sealed {
		wantLedger = append(wantLedger, l)
	}
	sort.Strings(wantLedger)
	for _, l := range []string{"c1", "s1", "c1x", "m1", "s1h", "c1h"} {
		if n := count(m.post.ledger, l); n > 1 {
			add("C16.sealed-once", "C16.sealed-twice/"+rpc, fmt.Sprintf("after %s transaction %s is sealed in %d vertices", ev, l, n))
		}
	}
	if strings.Join(wantLedger, " ") != strings.Join(m.post.ledger, " ") {
		cause := "unexpected-seal"
		if len(m.post.ledger) < len(wantLedger) {
			cause = "missing-seal"
		}
		add("C16.ledger", "C16.ledger-differs/"+rpc+"/"+cause,
			fmt.Sprintf("after %s the ledger holds [%s], the reference says [%s]", ev, strings.Join(m.post.ledger, " "), strings.Join(wantLedger, " ")))
	}
	// 4. property-level sealing rule, independent of the class prediction: what this call newly sealed
	for _, l := range []string{"c1", "c1x", "m1", "s1", "s1h", "c1h"} {
		if count(m.post.ledger, l) <= count(m.pre.ledger, l) {
			continue
		}
		m.counters["sealed/"+l+"/by-"+rpc]++
		contract := l != "s1"
		who := strings.Split(variant, ":")[0]
		acted := (rpc == "Confirm" || rpc == "Reject") && e.sealsBy == "receiver" && contractLabel(strings.Split(ev, ":"), 2) == l
		switch {
		case contract && !acted:
			cause := variant
			switch {
			case rpc == "Confirm" && who == "X":
				cause = "wrong-key"
			case rpc == "Confirm" && who == "none":
				cause = "unsigned"
			case rpc == "Confirm" && who == "echo":
				cause = "issuer-signature-echoed"
			case rpc == "Reject" && who == "A":
				cause = "signed-by-issuer"
			case rpc == "Reject" && who == "X":
				cause = "wrong-key"
			case rpc == "Reject" && who == "XX":
				cause = "signed-by-stranger"
			case rpc == "Propose":
				cause = "on-proposal"
			case !acted && e.sealsBy == "receiver":
				cause = "other-contract"
			}
			add("C16.receiver-acts", "C16.sealed-without-receiver/"+rpc+"/"+cause,
				fmt.Sprintf("%s sealed contract %s although the receiver did not act on it", ev, l))
		case !contract && !(rpc == "Propose" && e.sealsBy == "issuer"):
			add("C16.issuer-signs", "C16.sealed-without-issuer/"+rpc, fmt.Sprintf("%s sealed spice transfer %s without a valid issuer proposal", ev, l))
		}
	}
	// 5. a request with an invalid signature changes neither the ledger nor any awaiting list
	if e.invalidSig {
		m.counters["invalid-signature-requests"]++
		if m.pre.stateOf() != m.post.stateOf() {
			add("C16.invalid-changes-nothing", "C16.state-changed-by-invalid-request/"+rpc,
				fmt.Sprintf("%s carries an invalid signature but changed the state: %s -> %s", ev, m.pre.stateOf(), m.post.stateOf()))
		}
	}
	// 6. data returned => the caller proved ownership of the key of the address asked about
	if e.guarded {
		if rp.class == "ok" {
			m.counters["guarded-reads-answered"]++
			if e.noProof != "" {
				add("C16.reads-need-proof", "C16.data-without-proof/"+rpc+"/"+e.noProof,
					fmt.Sprintf("%s returned data (txs %v balance %q) although the caller gave no proof of ownership: %s", ev, rp.txs, rp.spice, e.noProof))
			}
		} else {
			m.counters["guarded-reads-refused/"+rp.class]++
			if e.noProof == "" && rp.class != "throttle" && !(rpc == "Waiting" && rp.class == "processing") {
				m.counters["honest-read-refused"]++
			}
		}
		if m.pre.stateOf() != m.post.stateOf() {
			add("C16.reads-are-reads", "C16.state-changed-by-read/"+rpc, fmt.Sprintf("%s changed the state: %s -> %s", ev, m.pre.stateOf(), m.post.stateOf()))
		}
	}
	// 7. content of the answer
	if rp.class == "ok" && (e.class == "ok" || e.alt == "ok") && e.compareTxs {
		if strings.Join(rp.txs, ",") != strings.Join(e.txs, ",") {
			add("C16.response-content", "C16.response-content-differs/"+rpc,
				fmt.Sprintf("%s returned %v, the reference says %v", ev, rp.txs, e.txs))
		}
	}
	if rpc == "Saved" && rp.class == "ok" && strings.HasSuffix(variant, ":XX") {
		m.counters["observation/saved-transaction-returned-to-non-party"]++ // not guarded by the property text (Saved is not listed)
	}
	// 8. harness self-check: the throttle mirror agrees with the flashback memory
	var th []string
	for a := range m.ref.throttle {
		th = append(th, a)
	}
	sort.Strings(th)
	if strings.Join(th, " ") != strings.Join(m.post.flash, " ") {
		// not a property violation: the path is no longer extended (the reference's throttle predictions would be off)
		m.counters["harness/throttle-mirror-differs/"+rpc]++
		m.diverged = true
	}
	return out
}
