// c16 decides property C16: "Contracts need the receiver; reads need proof of key ownership".
//
// Part A (SPACE): explicit-state breadth-first search over sequences of notary API calls made by an
// honest issuer A, an honest receiver B and an attacker X against one real full node (ledger, awaiting
// cache, flashback memory, challenge provider and notary service wired as cmd/node does). Every call is
// one real handler invocation inside a controlled execution; successors are obtained by replaying the
// path on a reset node plus one call; states are de-duplicated by a canonical key. After every call the
// answer class, the awaiting lists (cache dump), the ledger (snapshot hook) and the read authorisation
// are compared with the reference state machine RefNotary (model.go).
//
// Part B (SCHED): the concurrent duplicates Confirm||Confirm, Confirm||Reject, Reject||Reject,
// Propose||Propose (contract, paid contract, spice): all interleavings of two client calls within a pre-emption bound.
//
// usage: vcheck C16 [-procs n] [-depth d] [-part space|sched|all] [-scenario prefix]
package main

import (
	"flag"
	"fmt"
	"os"
	"runtime"
	"sort"
	"strings"
	"time"

	"verif.local/harness/common"
	"verif.local/harness/sched"
	"verif.local/harness/space"
	"verif.local/harness/world"
)

func main() {
	if len(os.Args) < 2 || os.Args[1] != "C16" {
		fmt.Fprintln(os.Stderr, "usage: vcheck C16 [args]")
		os.Exit(2)
	}
	os.Exit(c16Main(os.Args[2:]))
}

func c16Main(args []string) int {
	fs := flag.NewFlagSet("C16", flag.ExitOnError)
	procs := fs.Int("procs", runtime.NumCPU(), "worker processes")
	depthF := fs.Int("depth", 0, "override the SPACE depth")
	part := fs.String("part", "all", "space | sched | all")
	only := fs.String("scenario", "", "SCHED: only scenarios with this prefix")
	replayF := fs.String("replay", "", "violation artefact: re-run the check and report whether its key is still produced")
	fs.Parse(args)
	if *replayF != "" {
		if err := common.ReplayByRerun(*replayF); err != nil {
			fmt.Fprintln(os.Stderr, err)
			return 2
		}
	}
	thorough := common.Tier() == "thorough"
	if fs.NArg() >= 2 && fs.Arg(0) == "worker" {
		switch fs.Arg(1) {
		case "space":
			space.Opt.KeyFunc = world.KeyFunc
			space.WorkerMain(newModel(thorough))
		case "sched":
			sched.WorkerMain(c16Scenarios())
		default:
			fmt.Fprintln(os.Stderr, "unknown worker kind", fs.Arg(1))
			return 2
		}
		return 0
	}
	rep := common.NewReport("C16", "model_checking")
	diverged := 0
	exhaustive := true

	// ---- Part A ----
	if *part == "all" || *part == "space" {
		// the bound is generous on purpose: the canonical state space is finite and small, the search normally
		// stops earlier because the frontier is empty (fixpoint: every reachable canonical state expanded)
		depth := 40
		if thorough {
			depth = 80
		}
		if *depthF > 0 {
			depth = *depthF
		}
		deadline := common.Deadline(110*time.Second, 16*time.Minute)
		t0 := time.Now()
		st := space.Search(rep, []string{"C16", "worker", "space"}, depth, *procs, deadline, 97)
		space.FillEvidence(rep, st)
		rep.Set("space_depth_bound", depth)
		rep.Set("space_fixpoint_reached", st.Exhaustive && st.FrontierLeft == 0 && st.DepthDone < depth)
		rep.Set("space_wall_s", time.Since(t0).Seconds())
		diverged += st.Diverged
		if !st.Exhaustive {
			exhaustive = false
		}
		fmt.Printf("C16 SPACE: depth %d/%d states=%d transitions=%d executions=%d levels=%v exhaustive=%v %s (%.1fs)\n",
			st.DepthDone, depth, st.States, st.Transitions, st.Executions, st.LevelSizes, st.Exhaustive, st.CapHit, time.Since(t0).Seconds())
	}

	// ---- Part B ----
	if *part == "all" || *part == "sched" {
		pre, sd, budget, shards := 2, 3, 50.0, 8
		if thorough {
			pre, sd, budget, shards = 3, 4, 600, 16
		}
		scs := c16Scenarios()
		var names []string
		for n := range scs {
			if strings.HasPrefix(n, *only) {
				names = append(names, n)
			}
		}
		sort.Strings(names)
		var jobs []sched.Job
		for s := 0; s < shards; s++ {
			for _, n := range names {
				p, d := pre, sd
				if strings.Contains(n, ",") { // three calls: one pre-emption less keeps it inside the budget
					p, d = pre-1, sd-1
				}
				jobs = append(jobs, sched.Job{Scenario: n, Preempt: p, Data: 1, Sched: d, ShardI: s, ShardN: shards, BudgetS: budget})
			}
		}
		// the part as a whole stays inside a wall-clock budget whatever the number of cores (jobs that finish early
		// leave their share unused; a job that hits its share is reported as capped)
		totalBudget := 90.0
		if thorough {
			totalBudget = 900
		}
		minShare := 10.0
		if thorough {
			minShare = 20
		}
		sched.SpreadBudget(jobs, totalBudget, *procs, minShare)
		t0 := time.Now()
		tot := sched.RunAll(rep, jobs, []string{"C16", "worker", "sched"}, *procs)
		rep.Set("sched_executions", tot.Executions)
		rep.Set("sched_distinct_outcomes", len(tot.Outcomes))
		rep.Set("sched_choice_points", int(tot.Points))
		rep.Set("sched_steps", int(tot.Steps))
		rep.Set("sched_bound", map[string]any{"preemptions": pre, "schedule_deviations(preemptions+non-default blocking switches)": sd, "data_deviations": 1,
			"note": "the three-call scenario Confirm||Propose(c1),Confirm runs with one pre-emption / schedule deviation less"})
		rep.Set("sched_exhaustive_within_bound", tot.Exhaustive)
		rep.Set("sched_caps_hit", tot.Caps)
		rep.Set("sched_per_scenario", tot.PerScenario)
		rep.Set("sched_deadlocks", tot.Deadlocks)
		rep.Set("sched_leaks", tot.Leaks)
		rep.Set("sched_panics", tot.Panics)
		rep.Set("sched_executions_second_seal_refused_only_by_index_guard_under_lock", tot.Interesting)
		rep.Set("sched_wall_s", time.Since(t0).Seconds())
		diverged += tot.Diverged
		if !tot.Exhaustive {
			exhaustive = false
		}
		if *part == "sched" { // keep the evidence file well-formed for a partial run
			rep.Set("states", len(tot.Outcomes))
			rep.Set("transitions", int(tot.Steps))
			rep.Set("traces_validated_against_impl", tot.Executions)
		}
		fmt.Printf("C16 SCHED: executions=%d outcomes=%d exhaustive-within-bound=%v caps=%v (%.1fs)\n", tot.Executions, len(tot.Outcomes), tot.Exhaustive, tot.Caps, time.Since(t0).Seconds())
	}
	rep.Set("exhaustive", exhaustive)
	rep.Set("exhaustive_note", "true = every call sequence up to space_depth_bound (canonical-state BFS; with space_fixpoint_reached every reachable canonical state was expanded, i.e. sequences of any length) and every schedule within sched_bound was executed; no cap or deadline was hit")
	rep.Set("alphabet", "Propose{c1 contract, m1 paid contract (data+spice), s1 spice, c1x forged issuer} Confirm c1{receiver, attacker key, unsigned} Confirm m1{receiver, attacker key} Reject c1{receiver, issuer, attacker claiming receiver} Reject m1{receiver} Data{A,B} Waiting{A,B}x{current, foreign, superseded replay, wrong key} TransactionsInDAG{A current|stale} Saved{s1,c1}x{A, attacker claiming A} Saved{m1 by A} Balance{A, attacker, data!=address} Clock(+2min)")
	rep.Assume("each API call is atomic in Part A: the handler and the goroutines it spawns run to quiescence under the default schedule before the next call; interleavings are explored in Part B only for the duplicate write calls")
	rep.Assume("challenge expiry follows the logical clock (dataprovider is instrumented); the flashback / awaiting-cache life windows (bigcache, wall clock, 20 s / 5 min) do not elapse during an execution")
	rep.Assume("error classes of refusals, the 'processing' answer of an authorised Waiting with an empty list, challenge re-use until expiry/supersession and the throttle set are mirrored from the code in the reference; the property-level oracles (sealed only by the receiver's act, at most once, invalid requests change nothing, data only on proof) do not depend on that mirror")
	rep.Assume("Saved is not among the reads the property guards (it has no challenge in the code); it is explored and its answers compared with the reference, but returning a sealed transaction to a non-party is only counted")
	rep.Assume("only well-formed messages are sent (malformed ones belong to C15); one node, no peers: gossip of accepted items is a no-op")
	if diverged > 0 {
		fmt.Fprintf(os.Stderr, "C16: %d executions diverged while replaying a prefix (nondeterminism not owned)\n", diverged)
		rep.Finish()
		return 2
	}
	return rep.Finish()
}
