package main

import (
	"context"
	"flag"
	"fmt"
	"math"
	"os"
	"runtime"
	"sort"
	"strings"

	"github.com/bartossh/Computantis/src/accountant"
	"github.com/bartossh/Computantis/src/spice"
	"verif.local/harness/common"
	"verif.local/harness/sched"
	"verif.local/harness/world"
	"verif.local/vsched"
)

func init() { checks["C08"] = c08Main }

var sp = func(c, s uint64) spice.Melange { return spice.Melange{Currency: c, SupplementaryCurrency: s} }

// buildShape constructs the ledger for a C08 scenario and returns the world.
type c08TipT struct {
	hash   [32]byte
	weight uint64
	dup    accountant.Vertex // one vertex sealed by M on that tip, for deliveries of the SAME vertex by several clients
}

// c08Tip records, per world, a tip of node 0 at the end of the set-up phase.
var c08Tip = map[*world.LW]c08TipT{}

func c08World(shape string, nodes ...string) *world.LW {
	w := c08WorldRaw(shape, nodes...)
	for k := range c08Tip {
		delete(c08Tip, k)
	}
	snap := w.Nodes[0].Book.VerifSnapshot()
	l := snap.Leaves[0]
	for _, v := range snap.Vertices {
		if v.Hash == l {
			c08Tip[w] = c08TipT{hash: l, weight: v.Weight,
				dup: w.Craft(world.Cast("M"), w.Tx("op-dup", world.Cast("R"), world.Cast("A"), 1, 0), l, l, v.Weight+1)}
		}
	}
	return w
}

func c08WorldRaw(shape string, nodes ...string) *world.LW {
	nd := world.GetNodes(nodes...)
	supply := sp(100, 0)
	if shape == "overflow" {
		supply = sp(math.MaxUint64, 0)
	}
	w := world.NewLW(nd, supply, 0)
	R, A, B, M := world.Cast("R"), world.Cast("A"), world.Cast("B"), world.Cast("M")
	ctx := context.Background()
	must := func(_ accountant.Vertex, err error) {
		if err != nil {
			panic("c08 setup: " + err.Error())
		}
	}
	switch shape {
	case "chain4":
		for i := 0; i < 4; i++ {
			must(w.Propose(ctx, 0, w.Tx(fmt.Sprintf("s%d", i), R, A, 1, 0)))
		}
	case "chain6":
		for i := 0; i < 6; i++ {
			must(w.Propose(ctx, 0, w.Tx(fmt.Sprintf("s%d", i), R, A, 1, 0)))
		}
	case "diamond":
		a, err := w.Propose(ctx, 0, w.Tx("s0", R, A, 1, 0))
		must(a, err)
		b := w.Craft(M, w.Tx("m0", R, B, 1, 0), w.Genesis.Hash, w.Genesis.Hash, 1)
		if err := w.Deliver(ctx, 0, b); err != nil {
			panic("c08 setup deliver: " + err.Error())
		}
		must(w.Propose(ctx, 0, w.Tx("s1", R, A, 1, 0)))
		must(w.Propose(ctx, 0, w.Tx("s2", R, A, 1, 0)))
	case "two-leaves":
		// a chain of four plus a vertex sealed by M on an inner vertex of the chain: the ledger has two leaves whose
		// histories overlap, so a DAG stream walks the second leaf while the channel still holds vertices of the first
		var inner accountant.Vertex
		for i := 0; i < 4; i++ {
			v, err := w.Propose(ctx, 0, w.Tx(fmt.Sprintf("s%d", i), R, A, 1, 0))
			must(v, err)
			if i == 1 {
				inner = v
			}
		}
		side := w.Craft(M, w.Tx("m0", R, B, 1, 0), inner.Hash, inner.Hash, inner.Weight+1)
		if err := w.Deliver(ctx, 0, side); err != nil {
			panic("c08 setup deliver: " + err.Error())
		}
	case "overflow":
		h := uint64(1) << 63
		must(w.Propose(ctx, 0, w.Tx("o1", R, A, h, 0)))
		must(w.Propose(ctx, 0, w.Tx("o2", A, R, h, 0)))
		must(w.Propose(ctx, 0, w.Tx("o3", R, A, h, 0)))
		// the next validation of tip o3 (issuer R) overflows R's outflow at ancestor o1, i.e. in the middle of the walk
	}
	return w
}

// c08Op performs the operation under test with the given context and returns an observation.
func c08Op(w *world.LW, op string, ctx context.Context) string {
	R, A, M := world.Cast("R"), world.Cast("A"), world.Cast("M")
	b := w.Nodes[0].Book
	switch op {
	case "balance":
		_, err := b.CalculateBalance(ctx, A.Addr)
		return "balance=" + world.ErrClass(err)
	case "balanceR":
		_, err := b.CalculateBalance(ctx, R.Addr)
		return "balance=" + world.ErrClass(err)
	case "history":
		_, err := b.ReadDAGTransactionsByAddress(ctx, A.Addr)
		return "history=" + world.ErrClass(err)
	case "create-overflow":
		_, err := w.Propose(ctx, 0, w.Tx("op-create", A, R, 1, 0))
		return "create=" + world.ErrClass(err)
	case "create":
		_, err := w.Propose(ctx, 0, w.Tx("op-create", R, A, 1, 0))
		return "create=" + world.ErrClass(err)
	case "add":
		// crafted on the tip the set-up phase left (recorded there): a snapshot taken here could observe the middle of
		// a concurrent admission, which is an artefact of the harness hook, not of the node
		l, wt := c08Tip[w].hash, c08Tip[w].weight
		v := w.Craft(M, w.Tx("op-add", R, A, 1, 0), l, l, wt+1)
		err := w.Deliver(ctx, 0, v)
		return "add=" + world.ErrClass(err)
	case "add-dup":
		// the same vertex as every other add-dup client delivers (two peers relaying one vertex)
		v := c08Tip[w].dup
		err := w.Deliver(ctx, 0, v)
		return "add-dup=" + world.ErrClass(err)
	case "truncate":
		err := b.VerifTruncate(ctx)
		return "truncate=" + world.ErrClass(err)
	case "stream-abandon":
		// a consumer that takes one vertex and then walks away (peer disconnected): the node must stay usable
		ch := b.StreamDAG(ctx)
		v, _ := vsched.Recv2(ch)
		return fmt.Sprintf("stream-abandon=%v", v != nil)
	case "stream":
		ch := b.StreamDAG(ctx)
		n := 0
		for {
			v, ok := vsched.Recv2(ch)
			if !ok || v == nil {
				break
			}
			n++
		}
		return fmt.Sprintf("stream=%d", n)
	}
	panic("unknown op " + op)
}

func c08Probe(w *world.LW, x *sched.X) {
	R, A := world.Cast("R"), world.Cast("A")
	x.Vars["phase"] = "probe"
	_, err := w.Propose(context.Background(), 0, w.Tx("probe", R, A, 1, 0))
	x.Obsf("probe.create=%s", world.ErrClass(err))
	_, err = w.Nodes[0].Book.CalculateBalance(context.Background(), A.Addr)
	x.Obsf("probe.balance=%s", world.ErrClass(err))
	x.Vars["phase"] = "done"
}

func c08Single(op, shape string) func(x *sched.X) {
	return func(x *sched.X) {
		vsched.Quiet(true)
		w := c08World(shape, "G")
		x.Vars["w"] = w
		x.Vars["phase"] = "op"
		vsched.Quiet(false)
		cctx := world.NewCountCtx(x.Param)
		h := vsched.GoClient("T0", func() { x.Obs = append(x.Obs, c08Op(w, op, cctx)) })
		vsched.Join(h)
		x.Vars["cancelled"] = cctx.Cancelled()
		x.Obsf("polls=%d cancelled=%v", cctx.N, cctx.Cancelled())
		vsched.Quiet(true)
		c08Probe(w, x)
	}
}

// c08PausedStream: a stream consumer (a syncing peer) takes k vertices and then pauses - it neither reads nor goes
// away - while a client proposes; the consumer resumes only after the proposal returned. Whatever the stream producer
// is doing at the moment the consumer pauses (in particular: parked on a full channel between two leaves), it must not
// hold anything the proposal needs. k ranges over every position of the stream of the two-leaf ledger.
func c08PausedStream(shape string, k int) func(x *sched.X) {
	return func(x *sched.X) {
		vsched.Quiet(true)
		w := c08World(shape, "G")
		x.Vars["w"] = w
		x.Vars["phase"] = "op"
		vsched.Quiet(false)
		resume := vsched.MakeChan[int](0)
		obs := make([]string, 2)
		// the proposer is created first: under the default order the consumer and the stream producer run until both
		// are parked before the proposal starts; schedule deviations move the proposal to earlier points
		hc := vsched.GoClient("T0-create", func() {
			obs[0] = c08Op(w, "create", context.Background())
			vsched.Close(resume)
		})
		hs := vsched.GoClient("T1-paused-consumer", func() {
			ch := w.Nodes[0].Book.StreamDAG(context.Background())
			n := 0
			for n < k {
				v, ok := vsched.Recv2(ch)
				if !ok || v == nil {
					break
				}
				n++
			}
			taken := n
			vsched.Recv2(resume)
			for {
				v, ok := vsched.Recv2(ch)
				if !ok || v == nil {
					break
				}
				n++
			}
			obs[1] = fmt.Sprintf("stream-paused-after=%d total=%d", taken, n)
		})
		vsched.Join(hc, hs)
		x.Obs = append(x.Obs, obs...)
		vsched.Quiet(true)
		c08Probe(w, x)
	}
}

func c08Multi(shape string, ops []string, nodes ...string) func(x *sched.X) {
	return func(x *sched.X) {
		vsched.Quiet(true)
		if len(nodes) == 0 {
			nodes = []string{"G"}
		}
		w := c08World(shape, nodes...)
		x.Vars["w"] = w
		x.Vars["phase"] = "op"
		vsched.Quiet(false)
		obs := make([]string, len(ops))
		var hs []*vsched.Handle
		for i, op := range ops {
			i, op := i, op
			hs = append(hs, vsched.GoClient(fmt.Sprintf("T%d", i), func() {
				if op == "sync" {
					n1 := w.Nodes[1]
					// a fresh (not loaded) second node loads the DAG streamed by node 0
					n1.Reset(w.Ctx, 0)
					var cause error
					n1.Book.LoadDag(func(e error) {
						if cause == nil {
							cause = e
						}
					}, w.Nodes[0].Book.StreamDAG(context.Background()))
					obs[i] = fmt.Sprintf("sync=%s loaded=%v", world.ErrClass(cause), n1.Book.DagLoaded())
					return
				}
				obs[i] = c08Op(w, op, context.Background())
			}))
		}
		vsched.Join(hs...)
		x.Obs = append(x.Obs, obs...)
		vsched.Quiet(true)
		c08Probe(w, x)
	}
}

// c08Trigger: the real truncation trigger (weight signal -> runTruncate daemon) with the threshold scaled to 4,
// on a chain of 6 with a late shallow side tip delivered by an outside sealer.
func c08Trigger(withSide bool) func(x *sched.X) {
	return func(x *sched.X) {
		vsched.Quiet(true)
		nd := world.GetNodes("G")
		w := world.NewLW(nd, sp(100, 0), 4)
		x.Vars["w"] = w
		x.Vars["phase"] = "op"
		R, A, B, M := world.Cast("R"), world.Cast("A"), world.Cast("B"), world.Cast("M")
		ctx := context.Background()
		for i := 0; i < 5; i++ {
			if _, err := w.Propose(ctx, 0, w.Tx(fmt.Sprintf("s%d", i), R, A, 1, 0)); err != nil {
				panic(err)
			}
			vsched.Settle()
		}
		if withSide {
			side := w.Craft(M, w.Tx("side", R, B, 1, 0), w.Genesis.Hash, w.Genesis.Hash, 1)
			if err := w.Deliver(ctx, 0, side); err != nil {
				panic(err)
			}
			vsched.Settle()
		}
		vsched.Quiet(false)
		// the next admissions raise the weight past the threshold: the daemon truncates, choosing a tip.
		// They arrive by gossip (sealed by M on the chain tip), so a shallow side tip is not merged away first.
		for i := 0; i < 3; i++ {
			snap := nd[0].Book.VerifSnapshot()
			var tip accountant.Vertex
			for _, v := range snap.Vertices {
				if v.Weight >= tip.Weight {
					for _, l := range snap.Leaves {
						if l == v.Hash {
							tip = v
						}
					}
				}
			}
			v := w.Craft(M, w.Tx(fmt.Sprintf("u%d", i), R, A, 1, 0), tip.Hash, tip.Hash, tip.Weight+1)
			err := w.Deliver(ctx, 0, v)
			x.Obsf("deliver=%s", world.ErrClass(err))
			vsched.Settle()
		}
		snap := nd[0].Book.VerifSnapshot()
		x.Obsf("live=%d stored=%d fatals=%d", len(snap.Vertices), len(snap.Stored), len(nd[0].Log.Fatals))
		vsched.Quiet(true)
		c08Probe(w, x)
	}
}

func c08Oracle(name string) func(x *sched.X, r *vsched.Result) []common.Violation {
	return func(x *sched.X, r *vsched.Result) []common.Violation {
		var out []common.Violation
		phase, _ := x.Vars["phase"].(string)
		exit := "normal"
		if c, _ := x.Vars["cancelled"].(bool); c {
			exit = "ctx-cancel"
		}
		for _, p := range r.Panics {
			out = append(out, common.Violation{Predicate: "C08.returns", Key: fmt.Sprintf("C08.panic/%s/%s/%s", name, exit, panicClass(p)),
				What: fmt.Sprintf("%s: panic %q in %s", name, p.Value, p.Where), Witness: p.Stack})
		}
		if !r.RootDone && len(r.Panics) == 0 {
			pred := "C08.returns"
			if phase == "probe" {
				pred = "C08.probe"
			}
			out = append(out, common.Violation{Predicate: pred, Key: fmt.Sprintf("C08.wedge/%s/%s/%s", name, exit, blockedClass(r)),
				What: fmt.Sprintf("%s: node wedged in phase %s (%s): %s", name, phase, exit, sched.BlockedSummary(r))})
		}
		if r.RootDone {
			for _, b := range r.Blocked {
				// property: no goroutine parked in the graph walker, no lock held by an abandoned task.
				// (A stream producer parked on its output channel without any lock is a plain goroutine leak and is counted, not flagged.)
				if b.Class == vsched.Child && (strings.Contains(b.Where, "walkAncestors") || len(b.Holds) > 0) {
					out = append(out, common.Violation{Predicate: "C08.leak", Key: fmt.Sprintf("C08.leak/%s/%s/%s", name, exit, frameFn(b.Where)),
						What: fmt.Sprintf("%s: goroutine left parked after the operation returned (%s): %s %s in %s", name, exit, b.Op, b.Obj, b.Where)})
					break
				}
			}
		}
		if w, ok := x.Vars["w"].(*world.LW); ok {
			for _, n := range w.Nodes {
				if len(n.Log.Fatals) > 0 {
					out = append(out, common.Violation{Predicate: "C08.nofatal", Key: fmt.Sprintf("C08.fatal/%s/%s", name, exit),
						What: fmt.Sprintf("%s: node would terminate: %s", name, n.Log.Fatals[0])})
				}
			}
		}
		if len(r.Fatal) > 0 {
			out = append(out, common.Violation{Predicate: "C08.returns", Key: fmt.Sprintf("C08.runtime-fatal/%s", name), What: r.Fatal[0]})
		}
		return out
	}
}

func frameFn(where string) string {
	f := where
	if i := strings.Index(f, " < "); i >= 0 {
		f = f[:i]
	}
	return f
}

func panicClass(p vsched.PanicInfo) string {
	v := p.Value
	for _, k := range []string{"send on closed channel", "close of closed channel", "nil pointer", "index out of range", "slice bounds", "unlock of unlocked"} {
		if strings.Contains(v, k) {
			return strings.ReplaceAll(k, " ", "-") + "@" + frameFn(p.Where)
		}
	}
	if len(v) > 30 {
		v = v[:30]
	}
	return strings.ReplaceAll(v, " ", "-") + "@" + frameFn(p.Where)
}

func blockedClass(r *vsched.Result) string {
	set := map[string]bool{}
	for _, b := range r.Blocked {
		if b.Class == vsched.Daemon || b.Task == "root" {
			continue
		}
		set[fmt.Sprintf("%s:%s", b.Op, frameFn(b.Where))] = true
	}
	var ks []string
	for k := range set {
		ks = append(ks, k)
	}
	sort.Strings(ks)
	return strings.Join(ks, "+")
}

func c08Scenarios() map[string]*sched.Scenario {
	m := map[string]*sched.Scenario{}
	opt := vsched.Options{BranchSched: true, BranchData: true, KeyFunc: world.KeyFunc}
	cancels := []int{-1, 0, 1, 2, 3, 4, 5, 6}
	add := func(name string, params []int, body func(x *sched.X)) {
		m[name] = &sched.Scenario{Name: name, Params: params, Opt: opt, Body: body, Oracle: c08Oracle(name),
			Setup:       func() { world.GetNodes("G", "N1") },
			Interesting: func(x *sched.X, r *vsched.Result) bool { c, _ := x.Vars["cancelled"].(bool); return c || !r.RootDone }}
	}
	for _, shape := range []string{"chain4", "diamond"} {
		for _, op := range []string{"balance", "history", "create", "add", "truncate", "stream"} {
			add("S1/"+op+"/"+shape, cancels, c08Single(op, shape))
		}
	}
	add("S2/truncate-break/chain6", []int{-1}, c08Single("truncate", "chain6"))
	add("S2/create-overflow", []int{-1}, c08Single("create-overflow", "overflow"))
	add("S2/balance-overflow", []int{-1}, c08Single("balanceR", "overflow"))
	add("S3/stream+create+add/diamond", []int{-1}, c08Multi("diamond", []string{"stream", "create", "add"}))
	add("S3/stream+create/chain4", []int{-1}, c08Multi("chain4", []string{"stream", "create"}))
	add("S4/truncate+create+balance/chain4", []int{-1}, c08Multi("chain4", []string{"truncate", "create", "balance"}))
	add("S5/sync+create/chain4", []int{-1}, c08Multi("chain4", []string{"sync", "create"}, "G", "N1"))
	add("S7/real-trigger-truncate/chain", []int{-1}, c08Trigger(false))
	add("S7/real-trigger-truncate/chain+shallow-side-tip", []int{-1}, c08Trigger(true))
	add("S8/history+create/chain4", []int{-1}, c08Multi("chain4", []string{"history", "create"}))
	add("S8/history+add/diamond", []int{-1}, c08Multi("diamond", []string{"history", "add"}))
	add("S8/balance+create+add/chain4", []int{-1}, c08Multi("chain4", []string{"balance", "create", "add"}))
	add("S9/same-vertex-delivered-twice/chain4", []int{-1}, c08Multi("chain4", []string{"add-dup", "add-dup"}))
	add("S9/same-vertex-delivered-twice+create/diamond", []int{-1}, c08Multi("diamond", []string{"add-dup", "add-dup", "create"}))
	add("S6/stream-abandoned/chain6", []int{-1}, c08Single("stream-abandon", "chain6"))
	add("S6/stream-abandoned+create/chain6", []int{-1}, c08Multi("chain6", []string{"stream-abandon", "create"}))
	ks := []int{1, 2, 3, 4}
	if common.Tier() == "thorough" {
		ks = []int{0, 1, 2, 3, 4, 5, 6}
	}
	for _, k := range ks {
		add(fmt.Sprintf("S10/stream-paused-after-%d+create/two-leaves", k), []int{-1}, c08PausedStream("two-leaves", k))
	}
	return m
}

func c08Main(args []string) int {
	fs := flag.NewFlagSet("C08", flag.ExitOnError)
	only := fs.String("scenario", "", "run only scenarios with this prefix")
	procs := fs.Int("procs", runtime.NumCPU(), "worker processes")
	replay := fs.String("replay", "", "replay a violation artefact")
	fs.Parse(args)
	scs := c08Scenarios()
	if fs.NArg() > 0 && fs.Arg(0) == "worker" {
		sched.WorkerMain(scs)
		return 0
	}
	if fs.NArg() > 0 && fs.Arg(0) == "syncworker" {
		return c08SyncWorker()
	}
	syncReplay := false
	if *replay != "" {
		if b, err := os.ReadFile(*replay); err == nil && strings.Contains(string(b), "C08.wedge/client-sync/") {
			// client-sync findings are reproduced by running that part again
			if err := common.ReplayByRerun(*replay); err != nil {
				fmt.Fprintln(os.Stderr, err)
				return 2
			}
			syncReplay = true
		} else {
			return sched.ReplayFile("C08", scs, *replay)
		}
	}
	rep := common.NewReport("C08", "model_checking")
	if syncReplay {
		if c08SyncPart(rep) {
			return 2
		}
		return rep.Finish()
	}
	pre, sd := 1, 2
	budget := 45.0
	if common.Tier() == "thorough" {
		pre, sd, budget = 2, 4, 900
	}
	var names []string
	for n := range scs {
		if strings.HasPrefix(n, *only) {
			names = append(names, n)
		}
	}
	sort.Strings(names)
	var jobs []sched.Job
	for _, n := range names {
		sc := scs[n]
		p := pre
		shards := 1
		if strings.HasPrefix(n, "S3") || strings.HasPrefix(n, "S4") || strings.HasPrefix(n, "S5") || strings.HasPrefix(n, "S8") {
			shards = 8
		}
		if common.Tier() == "thorough" {
			shards *= 2
		}
		sdn := sd + (p - pre)
		if strings.HasPrefix(n, "S5") && common.Tier() != "thorough" {
			sdn = 1 // the two-node sync scenario has ~150 choice points per execution: one schedule deviation in the quick tier
		}
		for _, param := range sc.Params {
			for s := 0; s < shards; s++ {
				jobs = append(jobs, sched.Job{Scenario: n, Param: param, Preempt: p, Data: 1, Sched: sdn, ShardI: s, ShardN: shards, BudgetS: budget})
			}
		}
	}
	totalBudget := 100.0
	if common.Tier() == "thorough" {
		totalBudget = 1500
	}
	sched.SpreadBudget(jobs, totalBudget, *procs, 35)
	tot := sched.RunAll(rep, jobs, []string{"C08", "worker"}, *procs)
	c08Evidence(rep, tot, pre, sd)
	if *only == "" || *only == "sync" {
		if c08SyncPart(rep) {
			fmt.Fprintln(os.Stderr, "C08: client-sync part incomplete, no verdict")
			return 2
		}
	}
	if tot.Diverged > 0 {
		fmt.Fprintf(os.Stderr, "C08: %d executions diverged during replay of a prefix (nondeterminism not owned)\n", tot.Diverged)
		return 2
	}
	return rep.Finish()
}

func c08Evidence(rep *common.Report, tot *sched.Totals, pre, sd int) {
	rep.Set("states", len(tot.Outcomes))
	rep.Set("transitions", int(tot.Steps))
	rep.Set("traces_validated_against_impl", tot.Executions)
	rep.Set("executions", tot.Executions)
	rep.Set("choice_points", int(tot.Points))
	rep.Set("distinct_outcomes", len(tot.Outcomes))
	rep.Set("deadlocks", tot.Deadlocks)
	rep.Set("leaks", tot.Leaks)
	rep.Set("panics", tot.Panics)
	rep.Set("interesting_executions", tot.Interesting)
	rep.Set("exhaustive", tot.Exhaustive)
	rep.Set("caps_hit", tot.Caps)
	rep.Set("bound_completed", map[string]any{"preemptions": pre, "preemptions_multi_client": pre + 1, "data_deviations": 1, "schedule_deviations(preemptions+non-default blocking switches)": sd, "cancel_points": "-1(never),0..6"})
	rep.Set("per_scenario", tot.PerScenario)
	rep.Set("states_note", "states = distinct end states (observations + blocked-task summary) over all executions; every execution is a run of the instrumented implementation")
	rep.Assume("the shim's model of sync.RWMutex/channels/select is faithful (litmus tests in engine/vsched)")
	rep.Assume("badger and bigcache calls are atomic terminating library steps")
	rep.Assume(fmt.Sprintf("truncateDiff scaled to %d and the DAG-stream channel capacity scaled to 2 (shipped: 100) in the explored build, so that a stalled stream consumer is reachable with a 7-vertex ledger", accountant.VerifTruncateDiff()))
}
