package main

import (
	"context"
	"fmt"

	"github.com/bartossh/Computantis/src/spice"
	"github.com/bartossh/Computantis/src/transaction"
	"verif.local/harness/common"
	"verif.local/harness/sched"
	"verif.local/harness/world"
	"verif.local/vsched"
)

// SCHED part of C11: the origin's own first hop. Clients propose several transactions back to back at a node whose
// gossip loop, per-peer sender goroutines and awaiting-transaction loop run concurrently (all schedules within the
// bound); nothing is delivered. At quiescence the virtual network must hold, for every peer, exactly one message
// per vertex (per awaiting transaction) the origin accepted - each carrying that item and the origin's own valid
// gossiper entry.

type c11First struct {
	net   *world.Net
	g     *world.FullNode
	peers []string
}

func c11Body(peers []string, clients [][]string) func(x *sched.X) {
	return func(x *sched.X) {
		vsched.Quiet(true)
		names := append([]string{"G"}, peers...)
		full := world.GetFullNodes(names...)
		var base []*world.Node
		for _, f := range full {
			base = append(base, f.Node)
		}
		world.NewLW(base, spice.Melange{Currency: 10}, 0)
		ctx := context.Background()
		for _, n := range full {
			n.ResetServices(ctx)
		}
		var edges [][2]string
		for _, p := range peers {
			edges = append(edges, [2]string{"G", p})
		}
		net := world.NewNet(full, edges)
		vsched.Settle()
		R, A, B := world.Cast("R"), world.Cast("A"), world.Cast("B")
		txs := map[string]transaction.Transaction{
			"v1": world.MakeTx(R, A.Addr, "c11s-1", nil, spice.Melange{Currency: 1}, 9301),
			"v2": world.MakeTx(R, B.Addr, "c11s-2", nil, spice.Melange{Currency: 1}, 9302),
			"v3": world.MakeTx(R, A.Addr, "c11s-3", nil, spice.Melange{Currency: 1}, 9303),
			"c1": world.MakeTx(A, B.Addr, "c11s-c1", []byte("contract-1"), spice.Melange{}, 9304),
			"c2": world.MakeTx(A, B.Addr, "c11s-c2", []byte("contract-2"), spice.Melange{}, 9305),
		}
		x.Vars["f"] = &c11First{net: net, g: full[0], peers: peers}
		x.Vars["txs"] = txs
		vsched.Quiet(false)
		var hs []*vsched.Handle
		for i, ops := range clients {
			ops := ops
			hs = append(hs, vsched.GoClient(fmt.Sprintf("client%d", i), func() {
				for _, op := range ops {
					pt, err := world.TrxToProto(txs[op])
					if err != nil {
						panic(err)
					}
					// a refused proposal is not an accepted item: the oracle only speaks about what the origin holds
					full[0].Notary.Propose(ctx, pt)
				}
			}))
		}
		vsched.Join(hs...)
		vsched.Settle()
		vsched.Quiet(true)
		x.Obsf("messages=%d", len(net.Bag))
	}
}

func c11Oracle(name string) func(x *sched.X, r *vsched.Result) []common.Violation {
	return func(x *sched.X, r *vsched.Result) []common.Violation {
		var out []common.Violation
		if !r.RootDone {
			out = append(out, common.Violation{Predicate: "C11.completes", Key: "C11.incomplete/first-hop/" + name, What: name + ": did not complete: " + sched.BlockedSummary(r)})
			return out
		}
		f := x.Vars["f"].(*c11First)
		txs := x.Vars["txs"].(map[string]transaction.Transaction)
		// items the origin accepted: its non-genesis vertices, and the awaiting contracts
		type item struct {
			kind string
			hash [32]byte
		}
		var items []item
		s := f.g.Book.VerifSnapshot()
		for _, v := range s.Vertices {
			if v.LeftParentHash != [32]byte{} || v.RightParentHash != [32]byte{} {
				items = append(items, item{"vertex", v.Hash})
			}
		}
		for _, l := range []string{"c1", "c2"} {
			h := txs[l].Hash
			if _, ok := f.g.Cache.VerifDump()["trx-"+fmt.Sprintf("%x", h[:])]; ok {
				items = append(items, item{"trx", h})
			}
		}
		count := map[string]int{}
		for _, m := range f.net.Bag {
			if m.From != "G" {
				continue
			}
			it := m.Item()
			kind := "vertex"
			if m.Trx != nil {
				kind = "trx"
			}
			count[fmt.Sprintf("%s/%s/%x", m.To, kind, it[:])]++
			own := false
			for _, v := range world.ValidGossipers(it, m.Gossipers()) {
				if v == f.g.Name {
					own = true
				}
			}
			if !own {
				out = append(out, common.Violation{Property: "C11", Predicate: "C11.signed", Key: "C11.first-hop/without-own-valid-entry/" + kind,
					What: fmt.Sprintf("%s: the origin sent a %s to %s without a valid gossiper entry of its own for that item", name, kind, m.To)})
			}
		}
		for _, p := range f.peers {
			for _, it := range items {
				n := count[fmt.Sprintf("%s/%s/%x", p, it.kind, it.hash[:])]
				switch {
				case n == 0:
					out = append(out, common.Violation{Property: "C11", Predicate: "C11.reaches-everyone", Key: "C11.first-hop/accepted-item-never-sent/" + it.kind,
						What: fmt.Sprintf("%s: the origin accepted a %s but, with all its loops at rest, no message carrying it was sent to peer %s", name, it.kind, p)})
				case n > 1:
					out = append(out, common.Violation{Property: "C11", Predicate: "C11.once", Key: "C11.first-hop/item-sent-twice/" + it.kind,
						What: fmt.Sprintf("%s: the origin sent the same %s to peer %s %d times", name, it.kind, p, n)})
				}
			}
		}
		return out
	}
}

func c11Scenarios() map[string]*sched.Scenario {
	m := map[string]*sched.Scenario{}
	opt := vsched.Options{BranchSched: true, BranchData: false, KeyFunc: world.KeyFunc}
	add := func(name string, peers []string, clients ...[]string) {
		m[name] = &sched.Scenario{Name: name, Params: []int{0}, Opt: opt, Body: c11Body(peers, clients), Oracle: c11Oracle(name),
			Setup:       func() { world.GetFullNodes(append([]string{"G"}, peers...)...) },
			Interesting: func(x *sched.X, r *vsched.Result) bool { return true }}
	}
	add("first-hop/two-vertices-back-to-back/one-peer", []string{"N1"}, []string{"v1", "v2"})
	add("first-hop/three-vertices-back-to-back/two-peers", []string{"N1", "N2"}, []string{"v1", "v2", "v3"})
	add("first-hop/two-clients/one-peer", []string{"N1"}, []string{"v1"}, []string{"v2"})
	add("first-hop/contracts-and-vertex/one-peer", []string{"N1"}, []string{"c1", "c2"}, []string{"v1"})
	return m
}
