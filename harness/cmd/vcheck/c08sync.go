package main

import (
	"context"
	"encoding/json"
	"errors"
	"fmt"
	"net"
	"os"
	"os/exec"
	"sort"
	"strings"
	"time"

	"google.golang.org/grpc"
	"google.golang.org/grpc/codes"
	"google.golang.org/grpc/credentials/insecure"
	"google.golang.org/grpc/status"
	"google.golang.org/grpc/test/bufconn"
	"google.golang.org/protobuf/types/known/emptypb"

	"github.com/bartossh/Computantis/src/accountant"
	"github.com/bartossh/Computantis/src/gossip"
	pb "github.com/bartossh/Computantis/src/protobufcompiled"
	"verif.local/harness/common"
	"verif.local/harness/world"
	"verif.local/vsched"
)

// Client side of the DAG sync (C08: "... returns, and after it has returned - successfully, with an error, or because
// the caller cancelled - every later operation still completes"). The joining node runs the real updateDag against a
// peer served over an in-process bufconn listener (real gRPC; its goroutines are not controlled tasks, so this part
// runs in pass-through mode in a process of its own). The fault space is enumerated completely: for every prefix length
// k of the peer's stream, the stream (a) ends cleanly, (b) is failed by the peer with an RPC error, (c) continues with
// a vertex the wire check refuses, (d) stalls until the joining node's caller cancels. After updateDag has returned,
// the ledger's loader must finish and a balance query, a history query and a second sync attempt must return.
// Waiting is judged with a 90 s watchdog per step (a healthy step takes milliseconds).

type c08SyncServer struct {
	pb.UnimplementedGossipAPIServer
	script  []*pb.Vertex
	k       int
	kind    string
	stalled chan struct{}
}

func (e *c08SyncServer) LoadDag(_ *emptypb.Empty, st pb.GossipAPI_LoadDagServer) error {
	for i := 0; i < e.k && i < len(e.script); i++ {
		if err := st.Send(e.script[i]); err != nil {
			return err
		}
	}
	switch e.kind {
	case "peer-error":
		return status.Error(codes.Unavailable, "peer went away")
	case "refused-vertex":
		st.Send(&pb.Vertex{Hash: []byte{1, 2, 3}})
		return nil
	case "caller-cancels":
		select {
		case e.stalled <- struct{}{}:
		default:
		}
		<-st.Context().Done()
		return st.Context().Err()
	}
	return nil
}

type c08SyncBook struct {
	*accountant.AccountingBook
	done chan struct{}
}

func (j *c08SyncBook) LoadDag(cancel context.CancelCauseFunc, ch <-chan *accountant.Vertex) {
	defer func() { j.done <- struct{}{} }()
	j.AccountingBook.LoadDag(cancel, ch)
}

type c08SyncResult struct {
	Scenario string `json:"scenario"`
	Returned string `json:"returned"`
	Loaded   bool   `json:"loaded"`
	Stuck    string `json:"stuck,omitempty"`
	Err      string `json:"err,omitempty"`
}

const c08SyncWatchdog = 90 * time.Second

func c08SyncWorker() int {
	out := json.NewEncoder(os.Stdout)
	full := world.GetFullNodes("G", "N1")
	var valid []*pb.Vertex
	r := vsched.Run(vsched.Options{KeyFunc: world.KeyFunc, MaxSteps: 1 << 40}, func() {
		w := world.NewLW([]*world.Node{full[0].Node}, sp(10, 0), 0)
		R, A := world.Cast("R"), world.Cast("A")
		for i := 0; i < 3; i++ {
			if _, err := w.Propose(context.Background(), 0, w.Tx(fmt.Sprintf("c08sync%d", i), R, A, 1, 0)); err != nil {
				panic(err)
			}
			vsched.Settle()
		}
		vs := append([]accountant.Vertex{}, full[0].Book.VerifSnapshot().Vertices...)
		sort.Slice(vs, func(a, b int) bool { return vs[a].Weight > vs[b].Weight }) // as StreamDAG sends a chain: tip first
		for i := range vs {
			valid = append(valid, gossip.VerifVertexToProto(&vs[i]))
		}
	})
	if len(r.Panics) > 0 || !r.RootDone || len(valid) != 4 {
		out.Encode(c08SyncResult{Err: fmt.Sprintf("cannot build the source ledger: %d vertices, panics %+v", len(valid), r.Panics)})
		return 2
	}
	lis := bufconn.Listen(64 << 10)
	srv := grpc.NewServer()
	es := &c08SyncServer{script: valid, stalled: make(chan struct{}, 1)}
	pb.RegisterGossipAPIServer(srv, es)
	go srv.Serve(lis)
	defer srv.Stop()
	opts := []grpc.DialOption{
		grpc.WithTransportCredentials(insecure.NewCredentials()),
		grpc.WithContextDialer(func(ctx context.Context, _ string) (net.Conn, error) { return lis.DialContext(ctx) }),
	}
	fn := full[1]
	within := func(f func()) bool {
		ch := make(chan struct{}, 1)
		go func() { f(); ch <- struct{}{} }()
		select {
		case <-ch:
			return true
		case <-time.After(c08SyncWatchdog):
			return false
		}
	}
	for _, kind := range []string{"clean-end", "peer-error", "refused-vertex", "caller-cancels"} {
		for k := 0; k <= len(valid); k++ {
			name := fmt.Sprintf("%s-after-%d-of-%d", kind, k, len(valid))
			res := c08SyncResult{Scenario: name}
			ctx, cancel := context.WithCancel(context.Background())
			if err := fn.Book.VerifReset(ctx, 0); err != nil {
				out.Encode(c08SyncResult{Scenario: name, Err: "reset: " + err.Error()})
				cancel()
				return 2
			}
			jb := &c08SyncBook{AccountingBook: fn.Book, done: make(chan struct{}, 4)}
			fn.Cache.VerifReset()
			fn.Flash.VerifReset()
			g := gossip.NewVerifGossiper(fn.Log, time.Second, fn.Actor, fn.Ver, jb, fn.Cache, fn.Flash, fn.Pipe, fn.URL, opts)
			es.k, es.kind = k, kind
			select {
			case <-es.stalled:
			default:
			}
			callCtx, callCancel := context.WithCancel(ctx)
			if kind == "caller-cancels" {
				go func() {
					select {
					case <-es.stalled:
						callCancel()
					case <-ctx.Done():
					}
				}()
			}
			var err error
			if !within(func() { err = g.UpdateDag(callCtx, "passthrough:///bufnet") }) {
				res.Stuck = "updateDag did not return"
			}
			res.Returned = "ok"
			if err != nil {
				res.Returned = "error"
			}
			if res.Stuck == "" {
				select {
				case <-jb.done:
				case <-time.After(c08SyncWatchdog):
					res.Stuck = "the ledger's loader did not finish after updateDag had returned (" + res.Returned + ")"
				}
			}
			if res.Stuck == "" && !within(func() { fn.Book.CalculateBalance(context.Background(), world.Cast("A").Addr) }) {
				res.Stuck = "a balance query after the sync had returned (" + res.Returned + ") did not return"
			}
			if res.Stuck == "" && !within(func() { fn.Book.ReadDAGTransactionsByAddress(context.Background(), world.Cast("A").Addr) }) {
				res.Stuck = "a history query after the sync had returned (" + res.Returned + ") did not return"
			}
			if res.Stuck == "" {
				es.k, es.kind = len(valid), "clean-end"
				if !within(func() { g.UpdateDag(ctx, "passthrough:///bufnet") }) {
					res.Stuck = "a second sync attempt after the first had returned (" + res.Returned + ") did not return"
				}
			}
			res.Loaded = fn.Book.DagLoaded()
			callCancel()
			cancel()
			out.Encode(res)
			if res.Stuck != "" {
				return 0 // the node is wedged: nothing more can be decided in this process
			}
		}
	}
	return 0
}

// c08SyncPart runs the worker and turns its findings into violations.
func c08SyncPart(rep *common.Report) (broken bool) {
	self, err := os.Executable()
	if err != nil {
		fmt.Fprintln(os.Stderr, "C08:", err)
		return true
	}
	ctx, cancel := context.WithTimeout(context.Background(), 30*time.Minute)
	defer cancel()
	cmd := exec.CommandContext(ctx, self, "C08", "syncworker")
	cmd.Env = os.Environ()
	var stderr strings.Builder
	cmd.Stderr = &stderr
	outB, runErr := cmd.Output()
	scen, outcomes := 0, map[string]int{}
	dec := json.NewDecoder(strings.NewReader(string(outB)))
	for {
		var r c08SyncResult
		if err := dec.Decode(&r); err != nil {
			break
		}
		if r.Err != "" {
			fmt.Fprintln(os.Stderr, "C08 sync part:", r.Err)
			return true
		}
		scen++
		kind := r.Scenario[:strings.Index(r.Scenario, "-after-")]
		outcomes[fmt.Sprintf("%s: updateDag=%s loaded=%v", kind, r.Returned, r.Loaded)]++
		if r.Stuck != "" {
			rep.Add(common.Violation{Predicate: "C08.live-after-return", Key: "C08.wedge/client-sync/" + kind, Scenario: "client side of the DAG sync over real gRPC (bufconn), pass-through mode",
				What: fmt.Sprintf("%s: %s within %s", r.Scenario, r.Stuck, c08SyncWatchdog), Witness: map[string]any{"scenario": r.Scenario}})
		}
	}
	var ee *exec.ExitError
	if runErr != nil && (!errors.As(runErr, &ee) || scen == 0) {
		fmt.Fprintf(os.Stderr, "C08 sync part: worker failed: %v\n%s\n", runErr, tail(stderr.String(), 2000))
		return true
	}
	if runErr != nil {
		// the worker died after reporting some scenarios (an uncontrolled goroutine panicked): no verdict for the rest
		fmt.Fprintf(os.Stderr, "C08 sync part: worker ended early: %v\n%s\n", runErr, tail(stderr.String(), 2000))
		return true
	}
	rep.Set("client_sync_scenarios", scen)
	rep.Set("client_sync_outcomes", outcomes)
	rep.Set("client_sync_fault_space", "4 fault kinds (clean end, peer error, refused vertex, caller cancels) x every prefix length 0..4 of a 4-vertex stream; after each: loader finishes, balance and history queries return, a second sync attempt returns")
	return false
}

func tail(s string, n int) string {
	if len(s) > n {
		return s[len(s)-n:]
	}
	return s
}
