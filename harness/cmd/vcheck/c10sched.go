package main

import (
	"context"
	"fmt"
	"sort"
	"strings"

	"github.com/bartossh/Computantis/src/accountant"
	"verif.local/harness/common"
	"verif.local/harness/ledger"
	"verif.local/harness/sched"
	"verif.local/harness/world"
	"verif.local/vsched"
)

// SCHED part of C10 ("... and for ledgers obtained by syncing from a peer"): rule-breaking requests reach a node
// WHILE it loads the DAG streamed by a peer. The stream is fed vertex by vertex by its own task, so a request can
// land before the load started, between any two vertices, or after the load finished.

func c10Body(ops []string) func(x *sched.X) {
	return func(x *sched.X) {
		ops := ops // per execution: the "stream+" items are taken out below, which must not reach the next execution
		vsched.Quiet(true)
		src := world.GetNodes("G")
		w := world.NewLW(src, sp(10, 0), 0)
		x.Vars["w"] = w
		R, A, G, M := world.Cast("R"), world.Cast("A"), world.Cast("G"), world.Cast("M")
		ctx := context.Background()
		for i := 0; i < 2; i++ {
			if _, err := w.Propose(ctx, 0, w.Tx(fmt.Sprintf("b%d", i), R, A, 1, 0)); err != nil {
				panic(err)
			}
		}
		snap := src[0].Book.VerifSnapshot()
		vs := append([]accountant.Vertex(nil), snap.Vertices...)
		sort.Slice(vs, func(a, b int) bool { return vs[a].Weight < vs[b].Weight })
		tip := vs[len(vs)-1]
		joiner := world.GetNodes("N1")[0]
		joiner.Reset(ctx, 0)
		x.Vars["joiner"] = joiner
		// rule-breaking items: issued by the genesis wallet (data-only and spice), issued by the joining node's own
		// wallet, and an empty transaction; each as a proposal and as a vertex sealed by the outside node M on the tip
		gd := w.Contract("gd", G, A, []byte("d"))
		gs := w.Tx("gs", G, A, 1, 0)
		nd := w.Contract("nd", world.Cast("N1"), A, []byte("d"))
		te := w.Tx("te", R, A, 0, 0)
		vgd := w.Craft(M, w.Contract("vgd", G, A, []byte("d")), tip.Hash, tip.Hash, tip.Weight+1)
		vgs := w.Craft(M, w.Tx("vgs", G, A, 1, 0), tip.Hash, tip.Hash, tip.Weight+1)
		vte := w.Craft(M, w.Tx("vte", R, A, 0, 0), tip.Hash, tip.Hash, tip.Weight+1)
		// ops of the form "stream+<kind>": the serving peer is malicious and appends a rule-breaking vertex (sealed on
		// the tip, signatures valid) to the stream it sends to the joining node
		var real []string
		for _, op := range ops {
			switch op {
			case "stream+self-sealed":
				vs = append(vs, w.Craft(M, w.Tx("sself", M, A, 1, 0), tip.Hash, tip.Hash, tip.Weight+1))
			case "stream+self-sealed-contract":
				vs = append(vs, w.Craft(M, w.Contract("sselfc", M, A, []byte("d")), tip.Hash, tip.Hash, tip.Weight+1))
			case "stream+genesis-issued":
				vs = append(vs, w.Craft(M, w.Contract("sgen", G, A, []byte("d")), tip.Hash, tip.Hash, tip.Weight+1))
			case "stream+self-sealed-root":
				// the rule-breaking vertex names no parents at all: it becomes a second root next to the genesis vertex
				vs = append(vs, w.Craft(M, w.Tx("sselfr", M, A, 1, 0), [32]byte{}, [32]byte{}, tip.Weight+1))
			case "stream+self-sealed-half-root":
				// no left parent, right parent on the tip: LoadDag's edge loop stops at the zero hash, again a root
				vs = append(vs, w.Craft(M, w.Tx("sselfh", M, A, 1, 0), [32]byte{}, tip.Hash, tip.Weight+1))
			case "stream+self-sealed-contract-root":
				vs = append(vs, w.Craft(M, w.Contract("sselfcr", M, A, []byte("d")), [32]byte{}, [32]byte{}, tip.Weight+1))
			case "stream+genesis-issued-root":
				vs = append(vs, w.Craft(M, w.Contract("sgenr", G, A, []byte("d")), [32]byte{}, [32]byte{}, tip.Weight+1))
			case "stream+empty-root":
				vs = append(vs, w.Craft(M, w.Tx("semptyr", R, A, 0, 0), [32]byte{}, [32]byte{}, tip.Weight+1))
			case "stream+empty":
				vs = append(vs, w.Craft(M, w.Tx("sempty", R, A, 0, 0), tip.Hash, tip.Hash, tip.Weight+1))
			default:
				real = append(real, op)
			}
		}
		ops = real
		ch := vsched.MakeChan[*accountant.Vertex](0)
		vsched.Quiet(false)
		res := make([]string, len(ops))
		var hs []*vsched.Handle
		// the request tasks are created first: under the default order (most recently created task first) the sync
		// then runs to its end before them, and every schedule deviation moves a request to an earlier point of the sync
		for i, op := range ops {
			i, op := i, op
			hs = append(hs, vsched.GoClient(fmt.Sprintf("T%d-%s", i, op), func() {
				var err error
				switch op {
				case "create-gd":
					_, err = joiner.Book.CreateLeaf(ctx, &gd)
				case "create-gs":
					_, err = joiner.Book.CreateLeaf(ctx, &gs)
				case "create-nd":
					_, err = joiner.Book.CreateLeaf(ctx, &nd)
				case "create-te":
					_, err = joiner.Book.CreateLeaf(ctx, &te)
				case "add-vgd":
					c := vgd
					err = joiner.Book.AddLeaf(ctx, &c)
				case "add-vgs":
					c := vgs
					err = joiner.Book.AddLeaf(ctx, &c)
				case "add-vte":
					c := vte
					err = joiner.Book.AddLeaf(ctx, &c)
				}
				res[i] = op + "=" + world.ErrClass(err)
			}))
		}
		hs = append(hs, vsched.GoClient("feeder", func() {
			for i := range vs {
				v := vs[i]
				vsched.Send(ch, &v)
			}
			vsched.Close(ch)
		}))
		hs = append(hs, vsched.GoClient("loader", func() {
			joiner.Book.LoadDag(func(error) {}, ch)
		}))
		vsched.Join(hs...)
		vsched.Settle()
		// let the orphan buffer replay whatever was parked
		for k := 0; k < 2; k++ {
			if tk := joiner.RetryTicker; tk != nil && !tk.Stopped {
				tk.Fire()
				vsched.Settle()
			}
		}
		vsched.Quiet(true)
		x.Obs = append(x.Obs, res...)
		x.Obsf("loaded=%v", joiner.Book.DagLoaded())
	}
}

func c10Oracle(name string) func(x *sched.X, r *vsched.Result) []common.Violation {
	return func(x *sched.X, r *vsched.Result) []common.Violation {
		var out []common.Violation
		if !r.RootDone {
			out = append(out, common.Violation{Predicate: "C10.completes", Key: "C10.incomplete/" + name, What: name + ": did not complete: " + sched.BlockedSummary(r)})
			return out
		}
		w := x.Vars["w"].(*world.LW)
		if !x.Vars["joiner"].(*world.Node).Book.DagLoaded() {
			return out // the load was refused: the node is not in service (what a refused load leaves behind is C14's subject)
		}
		for _, v := range ledger.SnapshotOracles(w, x.Vars["joiner"].(*world.Node), "C10") {
			v.What = name + " (requests racing the sync): " + v.What
			v.Key += "/during-sync"
			out = append(out, v)
		}
		return out
	}
}

func c10Scenarios() map[string]*sched.Scenario {
	m := map[string]*sched.Scenario{}
	opt := vsched.Options{BranchSched: true, BranchData: false, KeyFunc: world.KeyFunc}
	add := func(name string, ops ...string) {
		opt := opt
		if strings.HasPrefix(name, "sync-of-stream-") {
			opt.BranchData = true
		}
		m[name] = &sched.Scenario{Name: name, Params: []int{0}, Opt: opt, Body: c10Body(ops), Oracle: c10Oracle(name),
			Setup:       func() { world.GetNodes("G", "N1") },
			Interesting: func(x *sched.X, r *vsched.Result) bool { return true }}
	}
	add("sync||create-genesis-contract", "create-gd")
	add("sync||create-genesis-transfer", "create-gs")
	add("sync||add-genesis-contract", "add-vgd")
	add("sync||add-genesis-transfer", "add-vgs")
	add("sync||create-own-wallet", "create-nd")
	add("sync||empty-transactions", "create-te", "add-vte")
	add("sync-of-stream-with-self-sealed-transfer", "stream+self-sealed")
	add("sync-of-stream-with-self-sealed-contract", "stream+self-sealed-contract")
	add("sync-of-stream-with-genesis-issued-vertex", "stream+genesis-issued")
	add("sync-of-stream-with-empty-transaction", "stream+empty")
	add("sync-of-stream-with-self-sealed-second-root", "stream+self-sealed-root")
	add("sync-of-stream-with-self-sealed-half-root", "stream+self-sealed-half-root")
	add("sync-of-stream-with-self-sealed-contract-root", "stream+self-sealed-contract-root")
	add("sync-of-stream-with-genesis-issued-second-root", "stream+genesis-issued-root")
	add("sync-of-stream-with-empty-second-root", "stream+empty-root")
	return m
}

// schedPart runs the SCHED scenarios of a ledger check within the tier's bounds and records them in the evidence.
func schedPart(rep *common.Report, id string, scs map[string]*sched.Scenario, procs, data int) (bool, int) {
	pre, sd, shards := 1, 2, 4
	if common.Tier() == "thorough" {
		pre, sd, shards = 3, 4, 16
	}
	var names []string
	for n := range scs {
		names = append(names, n)
	}
	sort.Strings(names)
	var jobs []sched.Job
	for _, n := range names {
		for s := 0; s < shards; s++ {
			d := data
			if id == "C10" && strings.HasPrefix(n, "sync-of-stream-") {
				d = 2
			}
			jobs = append(jobs, sched.Job{Scenario: n, Preempt: pre, Data: d, Sched: sd, ShardI: s, ShardN: shards})
		}
	}
	totalBudget := 60.0
	if common.Tier() == "thorough" {
		totalBudget = 900
	}
	sched.SpreadBudget(jobs, totalBudget, procs, 20)
	tot := sched.RunAll(rep, jobs, []string{id, "schedworker"}, procs)
	rep.Set("sched_executions", tot.Executions)
	rep.Set("sched_distinct_outcomes", len(tot.Outcomes))
	rep.Set("sched_exhaustive_within_bound", tot.Exhaustive)
	rep.Set("sched_caps_hit", tot.Caps)
	rep.Set("sched_bound", map[string]any{"preemptions": pre, "schedule_deviations": sd, "data_deviations": data})
	rep.Set("sched_per_scenario", tot.PerScenario)
	return tot.Exhaustive, tot.Diverged
}
