package main

import (
	"encoding/json"
	"flag"
	"fmt"
	"os"
	"runtime"
	"strings"
	"time"

	"github.com/bartossh/Computantis/src/accountant"
	"verif.local/harness/common"
	"verif.local/harness/ledger"
	"verif.local/harness/sched"
	"verif.local/harness/space"
	"verif.local/harness/world"
)

type ledgerSpec struct {
	id     string
	level  string
	runs   func(tier string) []ledgerRun
	assume []string
}

type ledgerRun struct {
	name  string
	cfg   ledger.Cfg
	depth int
	dataQ int // bound on data deviations inside one event (0 = unbounded), quick / thorough
	dataT int
}

// adoptByRun: oracles of sibling properties whose verdicts a run reports under the check's own property
// (key "<id>.via-<sibling>/<sibling key>"): the run's histories make that oracle a consequence of this property
var adoptByRun = map[string][]string{
	"C07/stale-overdrawing-tip+truncate": {"C01"},
}

func (r ledgerRun) maxData(tier string) int {
	d := r.dataQ
	if tier == "thorough" {
		d = r.dataT
	}
	if d == 0 {
		return -1
	}
	return d
}

var (
	tx = func(l, f, t string, c, s uint64) ledger.TxSpec {
		return ledger.TxSpec{Label: l, From: f, To: t, Cur: c, Supp: s}
	}
	t1  = tx("t1", "R", "A", 6, 0)
	t2  = tx("t2", "R", "B", 6, 0)
	t3  = tx("t3", "A", "B", 5, 0)
	t4  = tx("t4", "A", "B", 2, 0)
	t5  = tx("t5", "B", "A", 7, 0)
	t6  = tx("t6", "R", "A", 0, 999_999_999_999_999_999)
	t7  = tx("t7", "R", "A", 0, 1)
	t8  = tx("t8", "R", "N1", 2, 0)
	t9  = tx("t9", "N1", "A", 1, 0)
	t10 = tx("t10", "G", "A", 1, 0)
	t11 = tx("t11", "A", "G", 1, 0)
	te  = tx("te", "R", "A", 0, 0)
	mx  = tx("mx", "R", "B", 20, 0) // overdraws R (supply 10)
	my  = tx("my", "R", "B", 20, 0)
	ms  = tx("ms", "M", "A", 1, 0) // issuer = outside sealer M: self-sealed when crafted by M
)

// wide appends the deadline-bounded wide runs of the thorough tier (more nodes, longer histories).
func wide(tier string, rs []ledgerRun, extra ...ledgerRun) []ledgerRun {
	if tier == "thorough" {
		return append(rs, extra...)
	}
	return rs
}

var three = []string{"G", "N1", "N2"}

func cfl2(l string) ledger.TxSpec { return ledger.TxSpec{Label: l, From: "R", To: "B", Data: "filler"} }

func only(ps ...string) map[string]bool {
	m := map[string]bool{}
	for _, p := range ps {
		m[p] = true
	}
	return m
}

var ledgerSpecs = []ledgerSpec{
	{id: "C01", level: "model_checking", runs: func(tier string) []ledgerRun {
		d := 5
		if tier == "thorough" {
			d = 7
		}
		// node 0 holds a stale overdrawing side tip (mx on p1) while node 1's chain p2..p4 grows past it
		stale := []string{"P:0:p1", "D:1:0", "X:0:mx", "P:1:p2", "P:1:p3", "P:1:p4", "D:0:2", "D:0:3", "D:0:4"}
		cfl := func(l string) ledger.TxSpec { return ledger.TxSpec{Label: l, From: "R", To: "B", Data: "filler"} }
		// A received 6 (checkpointed by the first truncation), spent exactly 6 (tz) and was checkpointed again;
		// a further spend of 6 by A (tz2) must then be dropped, not built upon
		dbl := []string{"P:0:t1", "P:0:c1", "P:0:c2", "P:0:c3", "T:0", "P:0:tz", "P:0:c4", "P:0:c5", "P:0:c6", "T:0"}
		return wide(tier, []ledgerRun{
			{"drained-wallet-after-two-truncations", ledger.Cfg{Nodes: []string{"G"}, Supply: sp(10, 0), Menu: []ledger.TxSpec{tx("tz2", "A", "B", 6, 0), cfl("c7"), cfl("c8")},
				Hidden: []ledger.TxSpec{t1, tx("tz", "A", "B", 6, 0), cfl("c4"), cfl("c5"), cfl("c6")}, Truncate: true, Prefix: dbl, Props: only("C01")}, 3, 0, 0},
			{"stale-side-tip+truncate", ledger.Cfg{Nodes: []string{"G", "N1"}, Supply: sp(10, 0), Menu: []ledger.TxSpec{t1, t3}, Hidden: []ledger.TxSpec{mx}, MaxProposeNodes: 1, Truncate: true, Prefix: stale, Props: only("C01")}, d - 2, 0, 0},
			{"two-nodes+overdraw+truncate", ledger.Cfg{Nodes: []string{"G", "N1"}, Supply: sp(10, 0), Menu: []ledger.TxSpec{t1, t2, t3}, Crafted: []ledger.TxSpec{mx}, Truncate: true, Props: only("C01")}, d, 0, 0},
			{"trusted-sealer", ledger.Cfg{Nodes: []string{"G"}, Supply: sp(10, 0), Menu: []ledger.TxSpec{t1, t3}, Crafted: []ledger.TxSpec{mx}, TrustedCraf: []ledger.TxSpec{my}, Props: only("C01")}, d, 0, 0},
			{"carry-borrow-amounts", ledger.Cfg{Nodes: []string{"G"}, Supply: sp(1, 0), Menu: []ledger.TxSpec{t6, t7, tx("t7b", "R", "A", 0, 2)}, Props: only("C01")}, d, 0, 0},
			// a wallet pays itself (income and spending at once), then tries to spend more than it holds (A holds 6, pays itself 5 / 20, pays B 9)
			{"self-payment", ledger.Cfg{Nodes: []string{"G"}, Supply: sp(10, 0), Menu: []ledger.TxSpec{t1, tx("sp5", "A", "A", 5, 0), tx("sp20", "A", "A", 20, 0), tx("sb9", "A", "B", 9, 0), t7}, Props: only("C01")}, d, 0, 0},
			// a crafted vertex built on the node's tips arrives in a call whose caller goes away, over an overdrawing tentative tip
			{"cancelled-delivery-over-overdrawing-tip", ledger.Cfg{Nodes: []string{"G"}, Supply: sp(10, 0), Menu: []ledger.TxSpec{t1, t3, tx("t3b", "A", "B", 5, 0)},
				Crafted: []ledger.TxSpec{cfl("xf")}, DeliverCancel: []int{0, 1, 2, 3}, Props: only("C01")}, d - 1, 0, 0},
			{"after-truncation", ledger.Cfg{Nodes: []string{"G"}, Supply: sp(10, 0), Menu: []ledger.TxSpec{t3, t4, t2}, Crafted: []ledger.TxSpec{mx}, Truncate: true, Prefix: []string{"P:0:p1", "P:0:p2", "P:0:p3"}, Props: only("C01")}, d, 0, 0},
		},
			ledgerRun{"three-nodes+overdraw+truncate", ledger.Cfg{Nodes: three, Supply: sp(10, 0), Menu: []ledger.TxSpec{t1, t2, t3}, Crafted: []ledger.TxSpec{mx}, Truncate: true, MaxProposeNodes: 1, Props: only("C01")}, 8, 0, 0},
		)
	}},
	{id: "C02", level: "model_checking", runs: func(tier string) []ledgerRun {
		d := 6
		if tier == "thorough" {
			d = 8
		}
		rs := []ledgerRun{
			{"concurrent-spends", ledger.Cfg{Nodes: []string{"G", "N1"}, Supply: sp(10, 0), Menu: []ledger.TxSpec{t1, t2, t3}, MaxProposeNodes: 1, Props: only("C02")}, d, 0, 0},
			// sub-unit amounts: whole units tie, the fraction decides (5.2 received, 5.7 spent; 0.4 + 0.4 + 0.4 from an empty wallet)
			{"fractional-amounts", ledger.Cfg{Nodes: []string{"G"}, Supply: sp(10, 0), Menu: []ledger.TxSpec{tx("fa", "R", "A", 5, 200_000_000_000_000_000), tx("fb", "A", "B", 5, 700_000_000_000_000_000),
				tx("fc", "B", "A", 0, 400_000_000_000_000_000), tx("fd", "B", "A", 0, 400_000_000_000_000_001), t7}, Props: only("C02")}, d, 0, 0},
			{"pay-genesis-wallet", ledger.Cfg{Nodes: []string{"G"}, Supply: sp(10, 0), Menu: []ledger.TxSpec{t1, t11, t3}, Props: only("C02")}, d, 0, 0},
			// a wallet is checkpointed with funds, spends exactly all of them, is checkpointed again, and spends once more
			{"drain-to-zero+two-truncations", ledger.Cfg{Nodes: []string{"G"}, Supply: sp(10, 0), Menu: []ledger.TxSpec{tx("tz2", "A", "B", 6, 0), cfl2("c7"), cfl2("c8")},
				Hidden: []ledger.TxSpec{t1, tx("tz", "A", "B", 6, 0), cfl2("c4"), cfl2("c5"), cfl2("c6")}, Truncate: true,
				Prefix: []string{"P:0:t1", "P:0:c1", "P:0:c2", "P:0:c3", "T:0", "P:0:tz", "P:0:c4", "P:0:c5", "P:0:c6", "T:0"}, Props: only("C02")}, 3, 0, 0},
			// a stale overdrawing side tip whose parents get checkpointed (node 0 holds mx on p1 while node 1's chain grows past it)
			{"stale-side-tip+truncate", ledger.Cfg{Nodes: []string{"G", "N1"}, Supply: sp(10, 0), Menu: []ledger.TxSpec{t1, t3}, Hidden: []ledger.TxSpec{mx}, MaxProposeNodes: 1, Truncate: true,
				Prefix: []string{"P:0:p1", "D:1:0", "X:0:mx", "P:1:p2", "P:1:p3", "P:1:p4", "D:0:2", "D:0:3", "D:0:4"}, Props: only("C02")}, d - 1, 0, 0},
			// a paid contract (data AND spice) spends a wallet's funds, gets checkpointed, then the wallet tries to spend again
			{"paid-contract+truncate", ledger.Cfg{Nodes: []string{"G"}, Supply: sp(10, 0), Menu: []ledger.TxSpec{tx("tz2", "A", "B", 6, 0), cfl2("c7"), cfl2("c8")},
				Hidden: []ledger.TxSpec{t1, {Label: "pc", From: "A", To: "B", Cur: 6, Data: "paid contract"}, cfl2("c4"), cfl2("c5"), cfl2("c6")}, Truncate: true,
				Prefix: []string{"P:0:t1", "P:0:pc", "P:0:c4", "P:0:c5", "P:0:c6", "T:0"}, Props: only("C02")}, 3, 0, 0},
			// a delayed side vertex built directly on a wallet's income: node 1 builds sv on t1 while node 0's chain grows past the
			// wallet's full spend (tz); sv then arrives as a second tip, so the walk from the next tip meets the old income
			// (via sv) before the younger spend
			{"delayed-side-tip-on-income", ledger.Cfg{Nodes: []string{"G", "N1"}, Supply: sp(10, 0), Menu: []ledger.TxSpec{tx("tz2", "A", "B", 6, 0), cfl2("c7"), cfl2("c8")},
				Hidden:          []ledger.TxSpec{t1, cfl2("sv"), tx("tz", "A", "B", 6, 0), cfl2("c4"), cfl2("c5"), cfl2("c6")},
				MaxProposeNodes: 1, Prefix: []string{"P:0:t1", "D:1:0", "P:1:sv", "P:0:c4", "P:0:tz", "P:0:c5", "P:0:c6", "D:0:1"}, Props: only("C02")}, 3, 0, 0},
			// checkpointed income, the spend of all of it still live: the next spend meets the checkpointed funds first
			{"checkpointed-income+live-spend", ledger.Cfg{Nodes: []string{"G"}, Supply: sp(10, 0), Menu: []ledger.TxSpec{tx("tz2", "A", "B", 6, 0), tx("tz3", "A", "B", 1, 0), cfl2("c7"), cfl2("c8")},
				Hidden: []ledger.TxSpec{t1, tx("tz", "A", "B", 6, 0), cfl2("c4")}, Truncate: true,
				Prefix: []string{"P:0:t1", "P:0:c1", "P:0:c2", "P:0:c3", "T:0", "P:0:tz", "P:0:c4"}, Props: only("C02")}, 4, 0, 0},
			// a vertex of an outside sealer built on the node's tips reaches the node in a call whose caller goes away (context
			// cancelled from the k-th poll on) while an overdrawing tentative tip awaits its verdict (A holds 6, spends 5 twice)
			{"cancelled-delivery-over-overdrawing-tip", ledger.Cfg{Nodes: []string{"G"}, Supply: sp(10, 0), Menu: []ledger.TxSpec{t1, t3, tx("t3b", "A", "B", 5, 0)},
				Crafted: []ledger.TxSpec{cfl2("xf")}, DeliverCancel: []int{0, 1, 2, 3}, Props: only("C02")}, d - 1, 0, 0},
			// a wallet pays itself: the amount is income and spending at once (A holds 6, pays itself 5, then tries to pay 9)
			{"self-payment", ledger.Cfg{Nodes: []string{"G"}, Supply: sp(10, 0), Menu: []ledger.TxSpec{t1, tx("sp5", "A", "A", 5, 0), tx("sb9", "A", "B", 9, 0), tx("sp20", "B", "B", 20, 0), t7}, Props: only("C02")}, d, 0, 0},
		}
		if tier == "thorough" {
			// wide runs (deadline-bounded): three nodes, conflicting spends proposed at up to two of them, any delivery order
			rs = append(rs,
				ledgerRun{"three-nodes-concurrent-spends", ledger.Cfg{Nodes: three, Supply: sp(10, 0), Menu: []ledger.TxSpec{t1, t2, t3}, MaxProposeNodes: 1, Props: only("C02")}, 10, 0, 0},
				ledgerRun{"two-nodes-mixed-menu", ledger.Cfg{Nodes: []string{"G", "N1"}, Supply: sp(10, 0), Menu: []ledger.TxSpec{t1, t2, t3, tx("sp5", "A", "A", 5, 0), tx("fb", "A", "B", 5, 700_000_000_000_000_000), t7}, MaxProposeNodes: 1, Props: only("C02")}, 9, 0, 0})
		}
		return rs
	}},
	{id: "C03", level: "model_checking", runs: func(tier string) []ledgerRun {
		d := 6
		if tier == "thorough" {
			d = 8
		}
		return wide(tier, []ledgerRun{
			{"same-trx-two-nodes+dup", ledger.Cfg{Nodes: []string{"G", "N1"}, Supply: sp(10, 0), Menu: []ledger.TxSpec{t1, t7}, Dup: true, Tick: true, Props: only("C03")}, d, 0, 0},
			{"drop-then-repropose+truncate", ledger.Cfg{Nodes: []string{"G"}, Supply: sp(10, 0), Menu: []ledger.TxSpec{t1, t3, t7}, Crafted: []ledger.TxSpec{mx}, Truncate: true, Props: only("C03")}, d, 0, 0},
			// proposals whose caller goes away (context cancelled from the k-th poll on) between ordinary ones, incl. over an overdrawing tip
			{"cancelled-proposals", ledger.Cfg{Nodes: []string{"G"}, Supply: sp(10, 0), Menu: []ledger.TxSpec{t1, t3, t7, mx}, ProposeCancel: []int{0, 1, 2}, Props: only("C03")}, d - 1, 0, 0},
			// gossip deliveries whose caller goes away, followed by the ordinary delivery of the same vertex
			{"cancelled-deliveries", ledger.Cfg{Nodes: []string{"G", "N1"}, Supply: sp(10, 0), Menu: []ledger.TxSpec{t1, t3, t7}, MaxProposeNodes: 1, DeliverCancel: []int{0, 1, 2}, Tick: true, Props: only("C03")}, d - 1, 0, 0},
			// a chain delivered in any order with retry ticks until the (scaled) orphan buffer gives a vertex up, then delivered again
			{"chain3-any-order+retries-exhausted", ledger.Cfg{Nodes: []string{"G", "N1"}, Supply: sp(10, 0), Menu: nil, Tick: true, Dup: true, Prefix: []string{"P:0:p1", "P:0:p2", "P:0:p3"}, Props: only("C03")}, d + 2, 0, 0},
			// data-only (contract) vertices in the truncated region, re-offered afterwards
			{"contracts+truncate", ledger.Cfg{Nodes: []string{"G"}, Supply: sp(10, 0), Menu: []ledger.TxSpec{t1, {Label: "cx", From: "R", To: "B", Data: "d"}, {Label: "cy", From: "A", To: "B", Data: "d"}, cfl2("c7")}, Truncate: true,
				Prefix: []string{"P:0:c1", "P:0:p1"}, Props: only("C03")}, d, 0, 0},
		},
			ledgerRun{"same-trx-three-nodes+dup", ledger.Cfg{Nodes: three, Supply: sp(10, 0), Menu: []ledger.TxSpec{t1, t7}, Dup: true, Tick: true, MaxProposeNodes: 3, Props: only("C03")}, 9, 0, 0},
		)
	}},
	{id: "C06", level: "model_checking", runs: func(tier string) []ledgerRun {
		d := 4
		if tier == "thorough" {
			d = 5
		}
		cf := func(l string) ledger.TxSpec { return ledger.TxSpec{Label: l, From: "R", To: "B", Data: "filler"} }
		drain := []string{"P:0:t1", "P:0:c1", "P:0:c2", "P:0:c3"}
		return wide(tier, []ledgerRun{
			{"drain-to-zero+two-truncations", ledger.Cfg{Nodes: []string{"G"}, Supply: sp(10, 0), Menu: []ledger.TxSpec{tx("tz", "A", "B", 6, 0), cf("c4"), cf("c5"), cf("c6")}, Hidden: []ledger.TxSpec{t1}, Truncate: true, Prefix: drain, Props: only("C06")}, d + 2, 0, 0},
			{"two-nodes", ledger.Cfg{Nodes: []string{"G", "N1"}, Supply: sp(10, 0), Menu: []ledger.TxSpec{t1, t2, t3, tx("tself", "A", "A", 1, 0)}, Props: only("C06")}, d, 0, 0},
			// sub-unit amounts whose running sums land exactly on a whole unit, on the receiving and on the spending side
			{"fractions-adding-up-to-a-unit", ledger.Cfg{Nodes: []string{"G"}, Supply: sp(10, 0), Menu: []ledger.TxSpec{tx("q1", "R", "A", 3, 0), tx("q2", "R", "A", 0, 500_000_000_000_000_000), tx("q3", "R", "A", 0, 500_000_000_000_000_000),
				tx("q4", "R", "A", 0, 250_000_000_000_000_000), tx("q5", "A", "B", 0, 750_000_000_000_000_000), tx("q6", "A", "B", 0, 250_000_000_000_000_000)}, Props: only("C06")}, d + 1, 0, 0},
			// amounts at the 2^64 edge: recirculated funds make a wallet's gross inflow exceed 2^64 although every balance is representable
			{"huge-amounts", ledger.Cfg{Nodes: []string{"G"}, Supply: sp(1<<64-1, 0), Menu: []ledger.TxSpec{tx("h1", "R", "A", 1<<63, 0), tx("h2", "A", "R", 1<<63, 0), tx("h3", "R", "A", 1<<63, 999_999_999_999_999_999)}, Props: only("C06")}, d, 0, 0},
			{"truncated", ledger.Cfg{Nodes: []string{"G"}, Supply: sp(10, 0), Menu: []ledger.TxSpec{t1, t3, t5, t7}, Crafted: []ledger.TxSpec{tx("side", "R", "B", 1, 0)}, Truncate: true, Props: only("C06")}, d + 1, 0, 0},
		},
			ledgerRun{"three-nodes", ledger.Cfg{Nodes: three, Supply: sp(10, 0), Menu: []ledger.TxSpec{t1, t2, t3, tx("tself", "A", "A", 1, 0)}, MaxProposeNodes: 1, Props: only("C06")}, 6, 0, 0},
		)
	}},
	{id: "C07", level: "model_checking", runs: func(tier string) []ledgerRun {
		d := 6
		if tier == "thorough" {
			d = 8
		}
		// node 0 keeps an own side tip s (t7 on p1) while node 1's chain p2..p5 is delivered to it: two unmerged branches
		unmerged := []string{"P:0:p1", "D:1:0", "P:1:p2", "P:1:p3", "P:1:p4", "P:1:p5", "P:0:t7", "D:0:1", "D:0:2", "D:0:3", "D:0:4"}
		cf := func(l string) ledger.TxSpec { return ledger.TxSpec{Label: l, From: "R", To: "B", Data: "filler"} }
		drain := []string{"P:0:t1", "P:0:c1", "P:0:c2", "P:0:c3"}
		return wide(tier, []ledgerRun{
			// a wallet is checkpointed with funds, then spends exactly all of them, then is checkpointed again
			{"drain-to-zero+two-truncations", ledger.Cfg{Nodes: []string{"G"}, Supply: sp(10, 0), Menu: []ledger.TxSpec{tx("tz", "A", "B", 6, 0), cf("c4"), cf("c5"), cf("c6")}, Hidden: []ledger.TxSpec{t1}, Truncate: true, Prefix: drain, Props: only("C07")}, d, 0, 0},
			{"unmerged-branches", ledger.Cfg{Nodes: []string{"G", "N1"}, Supply: sp(10, 0), Menu: []ledger.TxSpec{t1, t3}, Hidden: []ledger.TxSpec{t7}, MaxProposeNodes: 1, Truncate: true, Prefix: unmerged, Props: only("C07")}, d - 2, 0, 0},
			{"chain+side-branch", ledger.Cfg{Nodes: []string{"G"}, Supply: sp(10, 0), Menu: []ledger.TxSpec{t1, t3, t7, t4}, Crafted: []ledger.TxSpec{tx("side", "R", "B", 1, 0)}, Truncate: true, Props: only("C07")}, d, 0, 0},
			// a truncation interrupted by its context (after 1..6 polls) followed by further truncations
			{"interrupted-truncation", ledger.Cfg{Nodes: []string{"G"}, Supply: sp(10, 0), Menu: []ledger.TxSpec{t3, cf("c4")}, Hidden: []ledger.TxSpec{t1}, Truncate: true, TruncCancel: []int{1, 2, 3, 4, 5, 6},
				Prefix: []string{"P:0:t1", "P:0:c1", "P:0:c2", "P:0:c3"}, Props: only("C07")}, 3, 0, 0},
			{"two-nodes", ledger.Cfg{Nodes: []string{"G", "N1"}, Supply: sp(10, 0), Menu: []ledger.TxSpec{t1, t3, t7}, Truncate: true, MaxProposeNodes: 1, Props: only("C07")}, d, 0, 0},
			// a paid contract (data AND spice) in the truncated region: it moves funds like a transfer
			{"paid-contract+truncate", ledger.Cfg{Nodes: []string{"G"}, Supply: sp(10, 0), Menu: []ledger.TxSpec{tx("tz2", "A", "B", 6, 0), cf("c7"), tx("tb", "B", "A", 5, 0)},
				Hidden: []ledger.TxSpec{t1, {Label: "pc", From: "A", To: "B", Cur: 5, Data: "paid contract"}, cf("c4"), cf("c5"), cf("c6")}, Truncate: true,
				Prefix: []string{"P:0:t1", "P:0:pc", "P:0:c4", "P:0:c5", "P:0:c6"}, Props: only("C07")}, 3, 0, 0},
			// "later transfers are validated against the same funds as before": a stale overdrawing side tip whose parents
			// get checkpointed (node 0 holds mx on p1 while node 1's chain grows past it) must still be dropped, not built
			// upon, when the next proposal judges it against the checkpointed funds (the covered-spend oracle of C01)
			{"stale-overdrawing-tip+truncate", ledger.Cfg{Nodes: []string{"G", "N1"}, Supply: sp(10, 0), Menu: []ledger.TxSpec{t1, t3}, Hidden: []ledger.TxSpec{mx}, MaxProposeNodes: 1, Truncate: true,
				Prefix: []string{"P:0:p1", "D:1:0", "X:0:mx", "P:1:p2", "P:1:p3", "P:1:p4", "D:0:2", "D:0:3", "D:0:4"}, Props: only("C07", "C01")}, 3, 0, 0},
			// amounts at the 2^64 edge: the same 2^63 coins move twice inside the truncated region (each balance representable)
			{"huge-amounts+truncate", ledger.Cfg{Nodes: []string{"G"}, Supply: sp(1<<64-1, 0), Menu: []ledger.TxSpec{cf("c4"), cf("c5"), tx("w3", "B", "A", 1<<62, 999_999_999_999_999_999)},
				Hidden: []ledger.TxSpec{tx("w1", "R", "A", 1<<63, 0), tx("w2", "A", "B", 1<<63, 0)}, Truncate: true,
				Prefix: []string{"P:0:w1", "P:0:w2", "P:0:c1", "P:0:c2", "P:0:c3"}, Props: only("C07")}, 4, 0, 0},
		},
			ledgerRun{"three-nodes+truncate", ledger.Cfg{Nodes: three, Supply: sp(10, 0), Menu: []ledger.TxSpec{t1, t3, t7}, Truncate: true, MaxProposeNodes: 1, Props: only("C07")}, 8, 0, 0},
		)
	}},
	{id: "C09", level: "model_checking", runs: func(tier string) []ledgerRun {
		d := 5
		if tier == "thorough" {
			d = 6
		}
		return wide(tier, []ledgerRun{
			{"two-nodes+overdraw+truncate+dup", ledger.Cfg{Nodes: []string{"G", "N1"}, Supply: sp(10, 0), Menu: []ledger.TxSpec{t1, t2, t3}, Crafted: []ledger.TxSpec{mx}, Truncate: true, Dup: true, Tick: true, Props: only("C09")}, d, 0, 0},
			// branches of unequal depth merged by a local proposal: two proposals at node 0, one at node 1, its delivery, then a fourth proposal
			{"unequal-branches-merged", ledger.Cfg{Nodes: []string{"G", "N1"}, Supply: sp(10, 0), Menu: []ledger.TxSpec{t1, t3, t7, tx("t7c", "R", "A", 0, 3)}, MaxProposeNodes: 1, Props: only("C09")}, d, 0, 0},
			// proposals whose caller goes away (context cancelled from the k-th poll on): what they create must still reference valid tips only
			{"cancelled-proposals", ledger.Cfg{Nodes: []string{"G"}, Supply: sp(10, 0), Menu: []ledger.TxSpec{t1, t3, t7, mx}, ProposeCancel: []int{0, 1, 2}, Props: only("C09")}, d, 0, 0},
			// gossip deliveries whose caller goes away, followed by the ordinary delivery of the same vertex
			{"cancelled-deliveries", ledger.Cfg{Nodes: []string{"G", "N1"}, Supply: sp(10, 0), Menu: []ledger.TxSpec{t1, t3, t7}, MaxProposeNodes: 1, DeliverCancel: []int{0, 1, 2}, Tick: true, Props: only("C09")}, d, 0, 0},
			// a node that joins by syncing from a (possibly truncated) peer: if it ends marked as loaded, the invariant holds on it too
			{"joined-from-truncated-source", ledger.Cfg{Nodes: []string{"G"}, Spare: "N2", Sync: true, Supply: sp(10, 0), Menu: []ledger.TxSpec{t1, t3}, Truncate: true,
				Prefix: []string{"P:0:p1", "P:0:p2", "P:0:p3", "P:0:p4"}, Props: only("C09")}, 3, 2, 4},
			// ... where the oldest live vertex after the cut is issued by a wallet that issued nothing else that is still live
			{"joined-from-truncated-source-other-issuer-at-the-cut", ledger.Cfg{Nodes: []string{"G"}, Spare: "N2", Sync: true, Supply: sp(10, 0), Menu: []ledger.TxSpec{t7}, Hidden: []ledger.TxSpec{t1, t3}, Truncate: true,
				Prefix: []string{"P:0:t1", "P:0:p1", "P:0:t3", "P:0:p2", "P:0:p3"}, Props: only("C09")}, 3, 2, 4},
			// data-only vertices and transfers mixed, truncated from a non-initial history
			{"contracts+transfers+truncate", ledger.Cfg{Nodes: []string{"G"}, Supply: sp(10, 0), Menu: []ledger.TxSpec{t1, t3, {Label: "cx", From: "R", To: "B", Data: "d"}, {Label: "cy", From: "A", To: "B", Data: "d"}},
				Truncate: true, Prefix: []string{"P:0:c1", "P:0:p1", "P:0:c2"}, Props: only("C09")}, d, 0, 0},
		},
			ledgerRun{"three-nodes+overdraw+truncate", ledger.Cfg{Nodes: three, Supply: sp(10, 0), Menu: []ledger.TxSpec{t1, t2, t3}, Crafted: []ledger.TxSpec{mx}, Truncate: true, Tick: true, MaxProposeNodes: 1, Props: only("C09")}, 7, 0, 0},
		)
	}},
	{id: "C10", level: "model_checking", runs: func(tier string) []ledgerRun {
		d := 5
		if tier == "thorough" {
			d = 7
		}
		return []ledgerRun{
			{"sealing-rules", ledger.Cfg{Nodes: []string{"G", "N1"}, Supply: sp(10, 0), Menu: []ledger.TxSpec{t8, t9, t10, te}, Crafted: []ledger.TxSpec{ms}, Tick: true, Props: only("C10")}, d, 0, 0},
			// "neither data nor spice" with the data buffer allocated but empty, proposed and crafted by an outside sealer
			{"empty-but-allocated-data", ledger.Cfg{Nodes: []string{"G", "N1"}, Supply: sp(10, 0), Menu: []ledger.TxSpec{{Label: "tee", From: "R", To: "A", EmptyData: true}, t1},
				Crafted: []ledger.TxSpec{{Label: "mee", From: "R", To: "B", EmptyData: true}}, Tick: true, Props: only("C10")}, d, 0, 0},
			// the same rules for data-only (contract) transactions and for vertices crafted by an outside sealer:
			// genesis wallet as issuer of a contract / of a transfer, node wallet as issuer of a contract, self-sealed contract
			{"sealing-rules-contracts+crafted", ledger.Cfg{Nodes: []string{"G", "N1"}, Supply: sp(10, 0),
				Menu: []ledger.TxSpec{{Label: "gd", From: "G", To: "A", Data: "d"}, {Label: "nd", From: "N1", To: "A", Data: "d"}, t1},
				Crafted: []ledger.TxSpec{{Label: "mgd", From: "G", To: "A", Data: "d"}, tx("mgs", "G", "A", 1, 0), {Label: "msd", From: "M", To: "A", Data: "d"},
					// the same wallets under an alias address (other version byte, same key): the rules are about wallets, not strings
					{Label: "malias", From: "M~v1", To: "A", Data: "d"}, {Label: "galias", From: "G~v1", To: "A", Data: "d"},
					// aliases with an altered checksum byte and with a byte appended after the checksum
					{Label: "mcsum", From: "M~c1", To: "A", Data: "d"}, {Label: "gtrail", From: "G~t1", To: "A", Data: "d"}, {Label: "mtrail", From: "M~t1", To: "A", Data: "d"}},
				Tick: true, Props: only("C10")}, d, 0, 0},
		}
	}},
	{id: "C14", level: "model_checking", runs: func(tier string) []ledgerRun {
		d := 4
		if tier == "thorough" {
			d = 6
		}
		chain := []string{"P:0:p1", "P:0:p2", "P:0:p3", "P:0:p4"}
		// two tips with partly overlapping ancestries: G<-A<-T1 and T2(A,B) with G<-B, as two concurrently sealing nodes produce
		forked := []string{"P:0:t1", "P:0:t3", "P:1:t2", "D:1:0", "P:1:t4", "D:0:2", "D:0:3"}
		return []ledgerRun{
			// a tip lagging far behind the heaviest vertex (sealed by an outside node on genesis) and, still in flight, a vertex that approves it
			{"lagging-tip+follow-up", ledger.Cfg{Nodes: []string{"G", "N1"}, Spare: "N2", Sync: true, Supply: sp(10, 0), Menu: []ledger.TxSpec{t7},
				Hidden: []ledger.TxSpec{tx("side", "R", "B", 1, 0), tx("kid", "R", "B", 1, 0)}, MaxProposeNodes: 1,
				Prefix: []string{"P:0:p1", "P:0:p2", "P:0:p3", "P:0:p4", "P:0:p5", "Z:0:side", "Z:1:kid:5"}, Props: only("C14")}, 1, 1, 3},
			{"forked-tips", ledger.Cfg{Nodes: []string{"G", "N1"}, Spare: "N2", Sync: true, Supply: sp(10, 0), Menu: []ledger.TxSpec{t7}, Hidden: []ledger.TxSpec{t1, t2, t3, t4}, MaxProposeNodes: 1, Prefix: forked, Props: only("C14")}, 2, 3, 4},
			{"truncated-sources", ledger.Cfg{Nodes: []string{"G"}, Spare: "N2", Sync: true, Supply: sp(10, 0), Menu: []ledger.TxSpec{t1, t3}, Truncate: true, Prefix: chain, Props: only("C14")}, d - 1, 2, 4},
			{"multi-tip-sources", ledger.Cfg{Nodes: []string{"G", "N1"}, Spare: "N2", Sync: true, Supply: sp(10, 0), Menu: []ledger.TxSpec{t1, t2, t3}, Crafted: []ledger.TxSpec{tx("side", "R", "B", 1, 0)}, MaxProposeNodes: 1, Props: only("C14")}, d, 2, 4},
		}
	}},
	{id: "C13", level: "model_checking", runs: func(tier string) []ledgerRun {
		d := 7
		if tier == "thorough" {
			d = 9
		}
		chain := []string{"P:0:p1", "P:0:p2", "P:0:p3"}
		diamond := []string{"P:0:p1", "Z:0:side", "P:0:p2", "P:0:p3"}
		// two siblings c1, c2 under p1 and a stranger x under another parent q: G<-p1<-{c1,c2}, G<-q<-x
		siblings := []string{"P:0:p1", "Z:0:q", "Z:0:c1:0", "Z:0:c2:0", "Z:0:x:1"}
		sib := func(l string) ledger.TxSpec { return tx(l, "R", "B", 1, 0) }
		return wide(tier, []ledgerRun{
			{"diamond-any-order", ledger.Cfg{Nodes: []string{"G", "N1"}, Supply: sp(10, 0), Menu: nil, Hidden: []ledger.TxSpec{tx("side", "R", "B", 1, 0)}, Tick: true, Prefix: diamond, Props: only("C13")}, d + 2, 0, 0},
			{"chain3-any-order", ledger.Cfg{Nodes: []string{"G", "N1"}, Supply: sp(10, 0), Menu: nil, Tick: true, Dup: true, Prefix: chain, Props: only("C13")}, d, 0, 0},
			{"siblings+stranger-any-order", ledger.Cfg{Nodes: []string{"G", "N1"}, Supply: sp(10, 0), Menu: nil, Hidden: []ledger.TxSpec{sib("q"), sib("c1"), sib("c2"), sib("x")}, Tick: true, Prefix: siblings, Props: only("C13")}, d + 4, 0, 0},
			// time passes while a vertex is parked (the parent arrives minutes later): nothing expires with time
			{"chain3-any-order+time-passes", ledger.Cfg{Nodes: []string{"G", "N1"}, Supply: sp(10, 0), Menu: nil, Tick: true, Wait: true, Prefix: chain, Props: only("C13")}, d, 0, 0},
			// deliveries whose caller goes away (context cancelled from the k-th poll on) before the ordinary delivery of the same vertex
			{"chain3-any-order+cancelled-deliveries", ledger.Cfg{Nodes: []string{"G", "N1"}, Supply: sp(10, 0), Menu: nil, Tick: true, DeliverCancel: []int{0, 1}, Prefix: chain, Props: only("C13")}, d, 0, 0},
			{"chain3+local-proposal", ledger.Cfg{Nodes: []string{"G", "N1"}, Supply: sp(10, 0), Menu: []ledger.TxSpec{tx("loc", "R", "B", 1, 0)}, MaxProposeNodes: 1, Tick: true, Prefix: chain, Props: only("C13")}, d - 1, 0, 0},
		},
			ledgerRun{"chain4-any-order+dup", ledger.Cfg{Nodes: []string{"G", "N1"}, Supply: sp(10, 0), Menu: nil, Tick: true, Dup: true, Prefix: []string{"P:0:p1", "P:0:p2", "P:0:p3", "P:0:p4"}, Props: only("C13")}, 12, 0, 0},
			ledgerRun{"chain5-any-order", ledger.Cfg{Nodes: []string{"G", "N1"}, Supply: sp(10, 0), Menu: nil, Tick: true, Prefix: []string{"P:0:p1", "P:0:p2", "P:0:p3", "P:0:p4", "P:0:p5"}, Props: only("C13")}, 12, 0, 0},
		)
	}},
}

func init() {
	for _, s := range ledgerSpecs {
		s := s
		checks[s.id] = func(args []string) int { return ledgerMain(s, args) }
	}
}

// prefix transactions p1..p4: a chain R->A 1 proposed at node 0
func withPrefixTxs(c ledger.Cfg) ledger.Cfg {
	if len(c.Prefix) > 0 {
		have := map[string]bool{}
		for _, t := range c.Menu {
			have[t.Label] = true
		}
		for i := 1; i <= 6; i++ {
			l := fmt.Sprintf("p%d", i)
			if !have[l] {
				c.Hidden = append(c.Hidden, tx(l, "R", "A", 1, 0))
			}
		}
		for i := 1; i <= 3; i++ {
			l := fmt.Sprintf("c%d", i)
			if !have[l] {
				c.Hidden = append(c.Hidden, ledger.TxSpec{Label: l, From: "R", To: "B", Data: "filler"})
			}
		}
	}
	return c
}

func ledgerMain(s ledgerSpec, args []string) int {
	fs := flag.NewFlagSet(s.id, flag.ExitOnError)
	procs := fs.Int("procs", runtime.NumCPU(), "worker processes")
	run := fs.String("run", "", "only this run")
	replay := fs.String("replay", "", "replay a violation file")
	depthF := fs.Int("depth", 0, "override depth")
	fs.Parse(args)
	runs := s.runs(common.Tier())
	if s.id == "C03" && fs.NArg() >= 1 && fs.Arg(0) == "schedworker" {
		sched.WorkerMain(c03Scenarios())
		return 0
	}
	if s.id == "C09" && fs.NArg() >= 1 && fs.Arg(0) == "schedworker" {
		sched.WorkerMain(c09Scenarios())
		return 0
	}
	if s.id == "C09" && *replay != "" && isSchedReplay(*replay) {
		return sched.ReplayFile("C09", c09Scenarios(), *replay)
	}
	if s.id == "C01" && fs.NArg() >= 1 && fs.Arg(0) == "schedworker" {
		sched.WorkerMain(c01Scenarios())
		return 0
	}
	if s.id == "C01" && *replay != "" && isSchedReplay(*replay) {
		return sched.ReplayFile("C01", c01Scenarios(), *replay)
	}
	if s.id == "C06" && fs.NArg() >= 1 && fs.Arg(0) == "schedworker" {
		sched.WorkerMain(c06Scenarios())
		return 0
	}
	if s.id == "C06" && *replay != "" && isSchedReplay(*replay) {
		return sched.ReplayFile("C06", c06Scenarios(), *replay)
	}
	if s.id == "C13" && fs.NArg() >= 1 && fs.Arg(0) == "schedworker" {
		sched.WorkerMain(c13Scenarios())
		return 0
	}
	if s.id == "C13" && *replay != "" && isSchedReplay(*replay) {
		return sched.ReplayFile("C13", c13Scenarios(), *replay)
	}
	if s.id == "C10" && fs.NArg() >= 1 && fs.Arg(0) == "schedworker" {
		sched.WorkerMain(c10Scenarios())
		return 0
	}
	if s.id == "C10" && *replay != "" && isSchedReplay(*replay) {
		return sched.ReplayFile("C10", c10Scenarios(), *replay)
	}
	if s.id == "C02" && fs.NArg() >= 1 && fs.Arg(0) == "schedworker" {
		sched.WorkerMain(c02Scenarios())
		return 0
	}
	if s.id == "C02" && *replay != "" && isSchedReplay(*replay) {
		return sched.ReplayFile("C02", c02Scenarios(), *replay)
	}
	if s.id == "C14" && fs.NArg() >= 1 && fs.Arg(0) == "schedworker" {
		sched.WorkerMain(c14Scenarios())
		return 0
	}
	if s.id == "C14" && *replay != "" && isSchedReplay(*replay) {
		return sched.ReplayFile("C14", c14Scenarios(), *replay)
	}
	if s.id == "C07" && fs.NArg() >= 1 && fs.Arg(0) == "schedworker" {
		sched.WorkerMain(c07Scenarios())
		return 0
	}
	if s.id == "C07" && *replay != "" && isSchedReplay(*replay) {
		return sched.ReplayFile("C07", c07Scenarios(), *replay)
	}
	if s.id == "C03" && *replay != "" && isSchedReplay(*replay) {
		return sched.ReplayFile("C03", c03Scenarios(), *replay)
	}
	if fs.NArg() >= 2 && fs.Arg(0) == "worker" {
		for _, r := range runs {
			if r.name == fs.Arg(1) {
				space.Opt.KeyFunc = world.KeyFunc
				space.MaxDataPerEvent = r.maxData(common.Tier())
				space.WorkerMain(ledger.New(withPrefixTxs(r.cfg)))
				return 0
			}
		}
		fmt.Fprintln(os.Stderr, "unknown run", fs.Arg(1))
		return 2
	}
	_ = os.Stderr
	if *replay != "" {
		return ledgerReplay(s, runs, *replay)
	}
	rep := common.NewReport(s.id, s.level)
	if s.id == "C07" {
		// same-decisions twin: a node that truncated a single-tip ledger decides every later event as it would have without
		space.Twin = &space.TwinSpec{Property: "C07", Predicate: "C07.same-decisions", Key: "C07.decision-changed-by-truncation",
			// proposals and vertices crafted on the node's current tips; deliveries of older vertices are not compared:
			// a vertex that names a checkpointed parent can no longer be attached, which the property does not rule out
			Compare: func(ev string) bool {
				return strings.HasPrefix(ev, "P:") || strings.HasPrefix(ev, "X:") || strings.HasPrefix(ev, "Y:")
			}}
	}
	budgetQ, budgetT := 150*time.Second, 25*time.Minute
	deadline := common.Deadline(budgetQ, budgetT)
	total := &space.Stats{Exhaustive: true, Counters: map[string]int{}, PerKind: map[string]int{}, Results: map[string]int{}}
	perRun := map[string]any{}
	for ri, r := range runs {
		if *run != "" && r.name != *run {
			continue
		}
		d := r.depth
		if *depthF > 0 {
			d = *depthF
		}
		frep := &filterRep{rep: rep, id: s.id, run: r.name, adopt: adoptByRun[s.id+"/"+r.name]}
		// every run gets an equal share of what is left of the budget (runs that finish early leave their share to the later ones)
		runDeadline := deadline
		if left := len(runs) - ri; left > 1 && *run == "" {
			if share := time.Now().Add(time.Until(deadline) / time.Duration(left)); share.Before(runDeadline) {
				runDeadline = share
			}
		}
		st := space.SearchF(frep.add, rep.Sample, []string{s.id, "worker", r.name}, d, *procs, runDeadline, 50)
		perRun[r.name] = map[string]any{"states": st.States, "transitions": st.Transitions, "depth_completed": st.DepthDone, "depth_bound": d,
			"exhaustive_within_bound": st.Exhaustive, "cap_hit": st.CapHit, "frontier_left": st.FrontierLeft, "level_sizes": st.LevelSizes, "counters": st.Counters, "results": st.Results, "data_deviations_per_event_bound": r.maxData(common.Tier())}
		total.States += st.States
		total.Transitions += st.Transitions
		total.Executions += st.Executions
		total.Events += st.Events
		total.Blocked += st.Blocked
		total.Diverged += st.Diverged
		total.Unconfirmed = append(total.Unconfirmed, st.Unconfirmed...)
		if st.DepthDone > total.DepthDone {
			total.DepthDone = st.DepthDone
		}
		if !st.Exhaustive {
			total.Exhaustive = false
			total.CapHit += r.name + ": " + st.CapHit + "; "
		}
		total.FrontierLeft += st.FrontierLeft
		for k, v := range st.Counters {
			total.Counters[k] += v
		}
		for k, v := range st.PerKind {
			total.PerKind[k] += v
		}
		for k, v := range st.Results {
			total.Results[k] += v
		}
	}
	space.FillEvidence(rep, total)
	if s.id == "C03" && *run == "" {
		ex, div := c03SchedRun(rep, *procs)
		if !ex {
			rep.Set("exhaustive", false)
		}
		total.Diverged += div
	}
	if s.id == "C09" && *run == "" {
		ex, div := c09SchedRun(rep, *procs)
		if !ex {
			rep.Set("sched_note", "SCHED part capped; SPACE part exhaustive within its bound")
		}
		total.Diverged += div
	}
	if s.id == "C01" && *run == "" {
		ex, div := c01SchedRun(rep, *procs)
		if !ex {
			rep.Set("exhaustive", false)
		}
		total.Diverged += div
	}
	if s.id == "C06" && *run == "" {
		ex, div := c06SchedRun(rep, *procs)
		if !ex {
			rep.Set("exhaustive", false)
		}
		total.Diverged += div
	}
	if s.id == "C13" && (*run == "" || *run == "sched") {
		ex, div := schedPart(rep, "C13", c13Scenarios(), *procs, 0)
		if !ex {
			rep.Set("sched_note", "SCHED part capped; SPACE part exhaustive within its bound")
		}
		total.Diverged += div
	}
	if s.id == "C10" && (*run == "" || *run == "sched") {
		ex, div := schedPart(rep, "C10", c10Scenarios(), *procs, 0)
		if !ex {
			rep.Set("sched_note", "SCHED part capped; SPACE part exhaustive within its bound")
		}
		total.Diverged += div
	}
	if s.id == "C02" && (*run == "" || *run == "sched") {
		ex, div := schedPart(rep, "C02", c02Scenarios(), *procs, 1)
		if !ex {
			rep.Set("sched_note", "SCHED part capped; SPACE part exhaustive within its bound")
		}
		total.Diverged += div
	}
	if s.id == "C14" && (*run == "" || *run == "sched") {
		ex, div := schedPart(rep, "C14", c14Scenarios(), *procs, 0)
		if !ex {
			rep.Set("sched_note", "SCHED part capped; SPACE part exhaustive within its bound")
		}
		total.Diverged += div
	}
	if s.id == "C07" && *run == "" {
		ex, div := c07SchedRun(rep, *procs)
		if !ex {
			rep.Set("exhaustive", false)
		}
		total.Diverged += div
	}
	rep.Set("runs", perRun)
	rep.Set("truncate_diff_in_explored_build", accountant.VerifTruncateDiff())
	rep.Assume("events are atomic: each event runs to quiescence under the non-pre-emptive default schedule; in-event data choices (tip order, walker sibling order) are enumerated exhaustively")
	rep.Assume("scaled constants (truncateDiff, buffer bounds) in the explored build; store backup stubbed; logical clock")
	rep.Assume("canonical state = structure (names derived from transaction, sealer and parents), not hashes; throughput dropped from the key (asserted > weight)")
	if total.Diverged > 0 {
		fmt.Fprintf(os.Stderr, "%s: %d executions diverged while replaying a prefix (nondeterminism not owned)\n", s.id, total.Diverged)
		rep.Finish()
		return 2
	}
	return rep.Finish()
}

func isSchedReplay(path string) bool {
	b, err := os.ReadFile(path)
	return err == nil && strings.Contains(string(b), "\"scenario\"")
}

type filterRep struct {
	rep   *common.Report
	id    string
	run   string
	adopt []string
}

func (f *filterRep) add(v common.Violation) {
	for _, a := range f.adopt {
		if v.Property == a && a != f.id {
			v.Key = f.id + ".via-" + a + "/" + v.Key
			v.Predicate = f.id + ".via-" + v.Predicate
			v.Property = f.id
		}
	}
	if v.Property == f.id || v.Property == "" || v.Property == "ALL" {
		if v.Property != f.id {
			v.Key = f.id + "/" + v.Key
		}
		if w, ok := v.Witness.(map[string]any); ok {
			w["run"] = f.run
		}
		f.rep.Add(v)
	}
}

func ledgerReplay(s ledgerSpec, runs []ledgerRun, path string) int {
	b, err := os.ReadFile(path)
	if err != nil {
		fmt.Fprintln(os.Stderr, err)
		return 2
	}
	var v struct {
		Key     string
		Witness struct {
			Run         string   `json:"run"`
			Path        []string `json:"path"`
			Choices     []int    `json:"choices"`
			Twin        bool     `json:"twin"`
			TwinPath    []string `json:"twin_path"`
			TwinChoices []int    `json:"twin_choices"`
		}
	}
	if err := json.Unmarshal(b, &v); err != nil {
		fmt.Fprintln(os.Stderr, err)
		return 2
	}
	for _, r := range runs {
		if r.name != v.Witness.Run {
			continue
		}
		space.Opt.KeyFunc = world.KeyFunc
		m := ledger.New(withPrefixTxs(r.cfg))
		m.Setup()
		if v.Witness.Twin {
			// differential violation: replay both histories and compare last result and projection
			a := space.Expand(m, space.Job{Path: v.Witness.TwinPath, Choices: v.Witness.TwinChoices, Replay: true})
			b := space.Expand(m, space.Job{Path: v.Witness.Path, Choices: v.Witness.Choices, Replay: true})
			a2 := space.Expand(m, space.Job{Path: v.Witness.TwinPath, Choices: v.Witness.TwinChoices, Replay: true})
			if a.Succs[0].Key != a2.Succs[0].Key {
				fmt.Println("replay is not deterministic")
				return 2
			}
			fmt.Printf("without: %v -> %s\n   %s\nwith:    %v -> %s\n   %s\n", v.Witness.TwinPath, a.Succs[0].Result, a.Succs[0].Proj, v.Witness.Path, b.Succs[0].Result, b.Succs[0].Proj)
			if a.Succs[0].Result != b.Succs[0].Result && !strings.HasSuffix(v.Key, "/state-differs") || a.Succs[0].Proj != b.Succs[0].Proj {
				fmt.Printf("VIOLATION property=%s replay=%s\n", s.id, path)
				return 1
			}
			fmt.Println("violation did not reproduce on the current tree")
			return 0
		}
		var keys []string
		found := false
		for k := 0; k < 2; k++ {
			res := space.Expand(m, space.Job{Path: v.Witness.Path, Choices: v.Witness.Choices, Replay: true})
			keys = append(keys, res.Succs[0].Key)
			for _, vv := range res.Violations {
				fmt.Printf("replay %d: %s: %s\n", k, vv.Key, vv.What)
				if vv.Key == v.Key || s.id+"/"+vv.Key == v.Key || strings.HasSuffix(v.Key, "/"+vv.Key) && strings.HasPrefix(v.Key, s.id+".via-") {
					found = true
				}
			}
		}
		if keys[0] != keys[1] {
			fmt.Println("replay is not deterministic")
			return 2
		}
		fmt.Println("state:", m.LongKeyOf(v.Witness.Path, v.Witness.Choices))
		if found {
			fmt.Printf("VIOLATION property=%s replay=%s\n", s.id, path)
			return 1
		}
		fmt.Println("violation did not reproduce on the current tree")
		return 0
	}
	fmt.Fprintln(os.Stderr, "run not found:", v.Witness.Run)
	return 2
}
