package main

import (
	"context"
	"fmt"
	"sort"
	"strings"

	"github.com/bartossh/Computantis/src/accountant"
	"verif.local/harness/common"
	"verif.local/harness/ledger"
	"verif.local/harness/sched"
	"verif.local/harness/world"
	"verif.local/vsched"
)

// SCHED part of C03: concurrent proposals / gossip deliveries of the same transaction on one node.

func c03Body(ops []string) func(x *sched.X) { return c03BodyOpt(ops, true) }

// c03BodyOpt: withAfter adds a follow-up proposal after the concurrent phase (it validates, and may drop, the tips left behind).
func c03BodyOpt(ops []string, withAfter bool) func(x *sched.X) {
	return func(x *sched.X) {
		vsched.Quiet(true)
		nd := world.GetNodes("G")
		w := world.NewLW(nd, sp(10, 0), 0)
		x.Vars["w"] = w
		R, A := world.Cast("R"), world.Cast("A")
		ctx := context.Background()
		if _, err := w.Propose(ctx, 0, w.Tx("base", R, A, 1, 0)); err != nil {
			panic(err)
		}
		t := w.Tx("dup", R, A, 2, 0)
		snap := nd[0].Book.VerifSnapshot()
		tip := snap.Leaves[0]
		var wt uint64
		for _, v := range snap.Vertices {
			if v.Hash == tip {
				wt = v.Weight
			}
		}
		// the same transaction wrapped by two different outside sealers, and one vertex offered twice
		v1 := w.Craft(world.Cast("N1"), t, tip, tip, wt+1)
		v2 := w.Craft(world.Cast("N2"), t, tip, tip, wt+1)
		vsched.Quiet(false)
		res := make([]string, len(ops))
		var hs []*vsched.Handle
		for i, op := range ops {
			i, op := i, op
			hs = append(hs, vsched.GoClient(fmt.Sprintf("T%d", i), func() {
				switch op {
				case "create":
					_, err := w.Propose(ctx, 0, t)
					res[i] = "create=" + world.ErrClass(err)
				case "add1":
					res[i] = "add1=" + world.ErrClass(w.Deliver(ctx, 0, v1))
				case "add2":
					res[i] = "add2=" + world.ErrClass(w.Deliver(ctx, 0, v2))
				case "createX":
					// an unrelated proposal that may pick the freshly admitted vertex as its parent
					_, err := w.Propose(ctx, 0, w.Tx("x", R, A, 1, 0))
					res[i] = "createX=" + world.ErrClass(err)
				}
			}))
		}
		vsched.Join(hs...)
		vsched.Settle()
		vsched.Quiet(true)
		x.Obs = append(x.Obs, res...)
		x.Vars["res"] = res
		if !withAfter {
			return
		}
		// the transaction must be usable afterwards exactly like any sealed transaction: a further proposal builds on the tips
		_, err := w.Propose(ctx, 0, w.Tx("after", R, A, 1, 0))
		x.Obsf("after=%s", world.ErrClass(err))
		x.Vars["after"] = world.ErrClass(err)
	}
}

func c03Oracle(name string) func(x *sched.X, r *vsched.Result) []common.Violation {
	return func(x *sched.X, r *vsched.Result) []common.Violation {
		var out []common.Violation
		if !r.RootDone {
			out = append(out, common.Violation{Predicate: "C03.completes", Key: "C03.incomplete/" + name, What: name + ": did not complete: " + sched.BlockedSummary(r)})
			return out
		}
		w := x.Vars["w"].(*world.LW)
		for _, v := range ledger.SnapshotOracles(w, w.Nodes[0], "C03", "C09") {
			v.What = name + ": " + v.What
			out = append(out, v)
		}
		ok := 0
		for _, s := range x.Vars["res"].([]string) {
			if strings.HasSuffix(s, "=ok") && !strings.HasPrefix(s, "createX") {
				ok++
			}
		}
		if ok >= 1 {
			// a submission that reported success must be in the ledger afterwards
			held := 0
			snap := w.Nodes[0].Book.VerifSnapshot()
			for _, v := range append(snap.Vertices, snap.Stored...) {
				if w.Ref.TxLabels[v.Transaction.Hash] == "dup" {
					held++
				}
			}
			if held == 0 {
				out = append(out, common.Violation{Predicate: "C03.accepted-stays", Key: "C03.accepted-vertex-lost", What: fmt.Sprintf("%s: a submission of the transaction reported success (%v) but no vertex of the ledger holds it afterwards", name, x.Vars["res"])})
			}
		}
		if ok > 1 {
			out = append(out, common.Violation{Predicate: "C03.unique-trx", Key: "C03.concurrent-duplicates-both-accepted", What: fmt.Sprintf("%s: %d concurrent submissions of one transaction all reported success: %v", name, ok, x.Vars["res"])})
		}
		if ok == 0 {
			out = append(out, common.Violation{Predicate: "C03.progress", Key: "C03.concurrent-duplicates-all-refused", What: fmt.Sprintf("%s: every concurrent submission of a fresh transaction was refused: %v", name, x.Vars["res"])})
		}
		return out
	}
}

func c03Scenarios() map[string]*sched.Scenario {
	m := map[string]*sched.Scenario{}
	opt := vsched.Options{BranchSched: true, BranchData: true, KeyFunc: world.KeyFunc}
	add := func(name string, ops ...string) {
		m[name] = &sched.Scenario{Name: name, Params: []int{0}, Opt: opt, Body: c03Body(ops), Oracle: c03Oracle(name),
			Setup:       func() { world.GetNodes("G") },
			Interesting: func(x *sched.X, r *vsched.Result) bool { return true }}
	}
	add("create||create", "create", "create")
	add("create||add", "create", "add1")
	add("add||add-same-vertex", "add1", "add1")
	add("add||add-two-sealers", "add1", "add2")
	add("create||add||add", "create", "add1", "add2")
	add("add||add-same-vertex||create-other", "add1", "add1", "createX")
	return m
}

// c03SchedRun runs the SCHED part and merges its results into the report.
func c03SchedRun(rep *common.Report, procs int) (exhaustive bool, diverged int) {
	scs := c03Scenarios()
	pre, sd, budget, shards := 2, 3, 45.0, 4
	if common.Tier() == "thorough" {
		pre, sd, budget, shards = 3, 4, 900, 16
	}
	var names []string
	for n := range scs {
		names = append(names, n)
	}
	sort.Strings(names)
	var jobs []sched.Job
	for _, n := range names {
		for s := 0; s < shards; s++ {
			p, d := pre, sd
			if (n == "create||add||add" || n == "add||add-same-vertex||create-other") && common.Tier() != "thorough" {
				p, d = 1, 2 // three clients: one pre-emption in the quick tier
			}
			jobs = append(jobs, sched.Job{Scenario: n, Preempt: p, Data: 1, Sched: d, ShardI: s, ShardN: shards, BudgetS: budget})
		}
	}
	totalBudget := 45.0
	if common.Tier() == "thorough" {
		totalBudget = 900
	}
	sched.SpreadBudget(jobs, totalBudget, procs, 15)
	tot := sched.RunAll(rep, jobs, []string{"C03", "schedworker"}, procs)
	rep.Set("sched_executions", tot.Executions)
	rep.Set("sched_distinct_outcomes", len(tot.Outcomes))
	rep.Set("sched_exhaustive_within_bound", tot.Exhaustive)
	rep.Set("sched_caps_hit", tot.Caps)
	rep.Set("sched_bound", map[string]any{"preemptions": pre, "schedule_deviations": sd, "data_deviations": 1})
	rep.Set("sched_per_scenario", tot.PerScenario)
	return tot.Exhaustive, tot.Diverged
}

var _ = accountant.ErrUnexpected
