package main

import (
	"context"
	"fmt"
	"sort"

	"verif.local/harness/common"
	"verif.local/harness/sched"
	"verif.local/harness/world"
	"verif.local/vsched"
)

// SCHED part of C06: balance queries racing with truncation and with admissions on a single chain,
// where every query has exactly one correct answer (the one given before and after the concurrent operation).

func c06Body(ops []string) func(x *sched.X) {
	return func(x *sched.X) {
		vsched.Quiet(true)
		w := c08World("chain6", "G")
		x.Vars["w"] = w
		b := w.Nodes[0].Book
		ctx := context.Background()
		R, A := world.Cast("R"), world.Cast("A")
		want := map[string]string{}
		for _, a := range []*world.Actor{R, A} {
			bal, err := b.CalculateBalance(ctx, a.Addr)
			vsched.Settle()
			want[a.Name] = fmt.Sprintf("%d.%d/%s", bal.Spice.Currency, bal.Spice.SupplementaryCurrency, world.ErrClass(err))
		}
		x.Vars["want"] = want
		vsched.Quiet(false)
		res := make([]string, len(ops))
		var hs []*vsched.Handle
		for i, op := range ops {
			i, op := i, op
			hs = append(hs, vsched.GoClient(fmt.Sprintf("T%d", i), func() {
				switch op {
				case "balanceA", "balanceR":
					a := A
					if op == "balanceR" {
						a = R
					}
					bal, err := b.CalculateBalance(ctx, a.Addr)
					res[i] = fmt.Sprintf("%s=%d.%d/%s", a.Name, bal.Spice.Currency, bal.Spice.SupplementaryCurrency, world.ErrClass(err))
				case "contract":
					// a data-only proposal changes no balance
					_, err := w.Propose(ctx, 0, w.Contract("c06-contract", R, A, []byte("x")))
					res[i] = "contract=" + world.ErrClass(err)
				default:
					res[i] = c08Op(w, op, ctx)
				}
			}))
		}
		vsched.Join(hs...)
		vsched.Settle()
		vsched.Quiet(true)
		x.Obs = append(x.Obs, res...)
		x.Vars["res"] = res
		post := b.VerifSnapshot()
		x.Vars["stored"] = len(post.Stored)
	}
}

func c06Oracle(name string) func(x *sched.X, r *vsched.Result) []common.Violation {
	return func(x *sched.X, r *vsched.Result) []common.Violation {
		var out []common.Violation
		if !r.RootDone {
			out = append(out, common.Violation{Predicate: "C06.completes", Key: "C06.incomplete/" + name, What: name + ": did not complete: " + sched.BlockedSummary(r)})
			return out
		}
		want := x.Vars["want"].(map[string]string)
		for _, s := range x.Vars["res"].([]string) {
			for who, w := range want {
				if len(s) > len(who) && s[:len(who)+1] == who+"=" && s[len(who)+1:] != w {
					out = append(out, common.Violation{Predicate: "C06.equals-reference", Key: "C06.wrong-balance-under-concurrency/" + name,
						What: fmt.Sprintf("%s: balance of %s answered %s while a concurrent operation ran; it is %s before and after", name, who, s[len(who)+1:], w)})
				}
			}
		}
		return out
	}
}

func c06Scenarios() map[string]*sched.Scenario {
	m := map[string]*sched.Scenario{}
	opt := vsched.Options{BranchSched: true, BranchData: true, KeyFunc: world.KeyFunc}
	add := func(name string, ops ...string) {
		m[name] = &sched.Scenario{Name: name, Params: []int{0}, Opt: opt, Body: c06Body(ops), Oracle: c06Oracle(name),
			Setup:       func() { world.GetNodes("G") },
			Interesting: func(x *sched.X, r *vsched.Result) bool { n, _ := x.Vars["stored"].(int); return n > 0 }}
	}
	add("truncate||balanceA", "truncate", "balanceA")
	add("truncate||balanceR||balanceA", "truncate", "balanceR", "balanceA")
	add("contract||balanceA", "contract", "balanceA")
	add("truncate||contract||balanceR", "truncate", "contract", "balanceR")
	return m
}

func c06SchedRun(rep *common.Report, procs int) (bool, int) {
	scs := c06Scenarios()
	pre, sd, budget, shards := 1, 2, 45.0, 4
	if common.Tier() == "thorough" {
		pre, sd, budget, shards = 2, 3, 900, 16
	}
	var names []string
	for n := range scs {
		names = append(names, n)
	}
	sort.Strings(names)
	var jobs []sched.Job
	for _, n := range names {
		for s := 0; s < shards; s++ {
			jobs = append(jobs, sched.Job{Scenario: n, Preempt: pre, Data: 1, Sched: sd, ShardI: s, ShardN: shards, BudgetS: budget})
		}
	}
	totalBudget := 40.0
	if common.Tier() == "thorough" {
		totalBudget = 600
	}
	sched.SpreadBudget(jobs, totalBudget, procs, 15)
	tot := sched.RunAll(rep, jobs, []string{"C06", "schedworker"}, procs)
	rep.Set("sched_executions", tot.Executions)
	rep.Set("sched_executions_with_checkpoint", tot.Interesting)
	rep.Set("sched_distinct_outcomes", len(tot.Outcomes))
	rep.Set("sched_exhaustive_within_bound", tot.Exhaustive)
	rep.Set("sched_caps_hit", tot.Caps)
	rep.Set("sched_bound", map[string]any{"preemptions": pre, "schedule_deviations": sd, "data_deviations": 1})
	rep.Set("sched_per_scenario", tot.PerScenario)
	return tot.Exhaustive, tot.Diverged
}
