package main

import (
	"context"
	"fmt"

	"verif.local/harness/common"
	"verif.local/harness/ledger"
	"verif.local/harness/sched"
	"verif.local/harness/world"
	"verif.local/vsched"
)

// SCHED part of C13: the retry of a parked vertex racing a duplicate delivery of the same vertex (and a local
// proposal). "Nothing is admitted twice" and "the node ends with the ledger of parents-first delivery" must hold in
// every schedule: the vertex is held once, its transaction is indexed, the graph is well-formed.

func c13Body(ops []string) func(x *sched.X) {
	return func(x *sched.X) {
		vsched.Quiet(true)
		nd := world.GetNodes("G")
		w := world.NewLW(nd, sp(10, 0), 0)
		x.Vars["w"] = w
		R, A, M := world.Cast("R"), world.Cast("A"), world.Cast("M")
		ctx := context.Background()
		if _, err := w.Propose(ctx, 0, w.Tx("base", R, A, 1, 0)); err != nil {
			panic(err)
		}
		snap := nd[0].Book.VerifSnapshot()
		tip := snap.Leaves[0]
		var wt uint64
		for _, v := range snap.Vertices {
			if v.Hash == tip {
				wt = v.Weight
			}
		}
		p := w.Craft(M, w.Tx("par", R, A, 1, 0), tip, tip, wt+1)
		v := w.Craft(M, w.Tx("kid", R, A, 1, 0), p.Hash, p.Hash, wt+2)
		x.Vars["kid"] = v.Hash
		// the child arrives first and is parked, then its parent arrives
		x.Obsf("early=%s", world.ErrClass(w.Deliver(ctx, 0, v)))
		vsched.Settle()
		x.Obsf("parent=%s", world.ErrClass(w.Deliver(ctx, 0, p)))
		vsched.Settle()
		vsched.Quiet(false)
		res := make([]string, len(ops))
		var hs []*vsched.Handle
		for i, op := range ops {
			i, op := i, op
			hs = append(hs, vsched.GoClient(fmt.Sprintf("T%d-%s", i, op), func() {
				switch op {
				case "tick":
					if tk := nd[0].RetryTicker; tk != nil && !tk.Stopped {
						tk.Fire()
					}
					res[i] = "tick"
				case "dup":
					res[i] = "dup=" + world.ErrClass(w.Deliver(ctx, 0, v))
				case "create":
					_, err := w.Propose(ctx, 0, w.Tx("loc", R, A, 1, 0))
					res[i] = "create=" + world.ErrClass(err)
				}
			}))
		}
		vsched.Join(hs...)
		vsched.Settle()
		// let the remaining retries run
		for k := 0; k < 3; k++ {
			if tk := nd[0].RetryTicker; tk != nil && !tk.Stopped {
				tk.Fire()
				vsched.Settle()
			}
		}
		vsched.Quiet(true)
		x.Obs = append(x.Obs, res...)
	}
}

func c13Oracle(name string) func(x *sched.X, r *vsched.Result) []common.Violation {
	return func(x *sched.X, r *vsched.Result) []common.Violation {
		var out []common.Violation
		if !r.RootDone {
			out = append(out, common.Violation{Predicate: "C13.completes", Key: "C13.incomplete/" + name, What: name + ": did not complete: " + sched.BlockedSummary(r)})
			return out
		}
		w := x.Vars["w"].(*world.LW)
		for _, v := range ledger.SnapshotOracles(w, w.Nodes[0], "C03", "C09") {
			v.What = name + " (retry racing a duplicate delivery): " + v.What
			v.Key = "C13/" + v.Key
			v.Property = "C13"
			out = append(out, v)
		}
		kid := x.Vars["kid"].([32]byte)
		held := 0
		snap := w.Nodes[0].Book.VerifSnapshot()
		for _, v := range append(snap.Vertices, snap.Stored...) {
			if v.Hash == kid {
				held++
			}
		}
		if held != 1 {
			out = append(out, common.Violation{Property: "C13", Predicate: "C13.same-ledger", Key: "C13.parked-vertex-not-admitted-once",
				What: fmt.Sprintf("%s: the vertex that arrived before its parent is held %d times after parent, retries and duplicate", name, held)})
		}
		return out
	}
}

func c13Scenarios() map[string]*sched.Scenario {
	m := map[string]*sched.Scenario{}
	opt := vsched.Options{BranchSched: true, BranchData: false, KeyFunc: world.KeyFunc}
	add := func(name string, ops ...string) {
		m[name] = &sched.Scenario{Name: name, Params: []int{0}, Opt: opt, Body: c13Body(ops), Oracle: c13Oracle(name),
			Setup:       func() { world.GetNodes("G") },
			Interesting: func(x *sched.X, r *vsched.Result) bool { return true }}
	}
	add("retry||duplicate", "dup", "tick")
	add("retry||duplicate||duplicate", "dup", "dup", "tick")
	add("retry||duplicate||create", "create", "dup", "tick")
	return m
}
