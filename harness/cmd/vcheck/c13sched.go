package main

import (
	"context"
	"fmt"

	"verif.local/harness/common"
	"verif.local/harness/ledger"
	"verif.local/harness/sched"
	"verif.local/harness/world"
	"verif.local/vsched"
)

// SCHED part of C13: the retry of a parked vertex racing a duplicate delivery of the same vertex (and a local
// proposal). "Nothing is admitted twice" and "the node ends with the ledger of parents-first delivery" must hold in
// every schedule: the vertex is held once, its transaction is indexed, the graph is well-formed.

func c13Body(ops []string) func(x *sched.X) {
	return func(x *sched.X) {
		vsched.Quiet(true)
		nd := world.GetNodes("G")
		w := world.NewLW(nd, sp(10, 0), 0)
		x.Vars["w"] = w
		R, A, M := world.Cast("R"), world.Cast("A"), world.Cast("M")
		ctx := context.Background()
		if _, err := w.Propose(ctx, 0, w.Tx("base", R, A, 1, 0)); err != nil {
			panic(err)
		}
		snap := nd[0].Book.VerifSnapshot()
		tip := snap.Leaves[0]
		var wt uint64
		for _, v := range snap.Vertices {
			if v.Hash == tip {
				wt = v.Weight
			}
		}
		p := w.Craft(M, w.Tx("par", R, A, 1, 0), tip, tip, wt+1)
		v := w.Craft(M, w.Tx("kid", R, A, 1, 0), p.Hash, p.Hash, wt+2)
		x.Vars["kid"] = v.Hash
		// the child arrives first and is parked, then its parent arrives
		x.Obsf("early=%s", world.ErrClass(w.Deliver(ctx, 0, v)))
		vsched.Settle()
		x.Obsf("parent=%s", world.ErrClass(w.Deliver(ctx, 0, p)))
		vsched.Settle()
		vsched.Quiet(false)
		res := make([]string, len(ops))
		var hs []*vsched.Handle
		for i, op := range ops {
			i, op := i, op
			hs = append(hs, vsched.GoClient(fmt.Sprintf("T%d-%s", i, op), func() {
				switch op {
				case "tick":
					if tk := nd[0].RetryTicker; tk != nil && !tk.Stopped {
						tk.Fire()
					}
					res[i] = "tick"
				case "dup":
					res[i] = "dup=" + world.ErrClass(w.Deliver(ctx, 0, v))
				case "create":
					_, err := w.Propose(ctx, 0, w.Tx("loc", R, A, 1, 0))
					res[i] = "create=" + world.ErrClass(err)
				}
			}))
		}
		vsched.Join(hs...)
		vsched.Settle()
		// let the remaining retries run
		for k := 0; k < 3; k++ {
			if tk := nd[0].RetryTicker; tk != nil && !tk.Stopped {
				tk.Fire()
				vsched.Settle()
			}
		}
		vsched.Quiet(true)
		x.Obs = append(x.Obs, res...)
	}
}

func c13Oracle(name string) func(x *sched.X, r *vsched.Result) []common.Violation {
	return func(x *sched.X, r *vsched.Result) []common.Violation {
		var out []common.Violation
		if !r.RootDone {
			out = append(out, common.Violation{Predicate: "C13.completes", Key: "C13.incomplete/" + name, What: name + ": did not complete: " + sched.BlockedSummary(r)})
			return out
		}
		w := x.Vars["w"].(*world.LW)
		for _, v := range ledger.SnapshotOracles(w, w.Nodes[0], "C03", "C09") {
			v.What = name + " (retry racing a duplicate delivery): " + v.What
			v.Key = "C13/" + v.Key
			v.Property = "C13"
			out = append(out, v)
		}
		kid := x.Vars["kid"].([32]byte)
		held := 0
		snap := w.Nodes[0].Book.VerifSnapshot()
		for _, v := range append(snap.Vertices, snap.Stored...) {
			if v.Hash == kid {
				held++
			}
		}
		if held != 1 {
			out = append(out, common.Violation{Property: "C13", Predicate: "C13.same-ledger", Key: "C13.parked-vertex-not-admitted-once",
				What: fmt.Sprintf("%s: the vertex that arrived before its parent is held %d times after parent, retries and duplicate", name, held)})
		}
		return out
	}
}

// c13AlteredBody: "invalid vertices are never admitted through the retry path". The delivering side hands AddLeaf a
// vertex that is valid at that moment and is parked (parent unknown); while it waits the caller reuses the object it
// passed by pointer - the amount changes, so digest and signatures no longer fit - then the parent arrives and the
// retry loop replays the parked entry (concurrently with the ops). Whatever the buffer kept (the pointer or a copy),
// a vertex that does not verify at the moment it is admitted must not enter the ledger.
func c13AlteredBody(ops []string) func(x *sched.X) {
	return func(x *sched.X) {
		vsched.Quiet(true)
		nd := world.GetNodes("G")
		w := world.NewLW(nd, sp(10, 0), 0)
		x.Vars["w"] = w
		R, A, M := world.Cast("R"), world.Cast("A"), world.Cast("M")
		ctx := context.Background()
		if _, err := w.Propose(ctx, 0, w.Tx("base", R, A, 1, 0)); err != nil {
			panic(err)
		}
		snap := nd[0].Book.VerifSnapshot()
		tip := snap.Leaves[0]
		var wt uint64
		for _, v := range snap.Vertices {
			if v.Hash == tip {
				wt = v.Weight
			}
		}
		p := w.Craft(M, w.Tx("par", R, A, 1, 0), tip, tip, wt+1)
		kid := w.Craft(M, w.Tx("kid", R, A, 1, 0), p.Hash, p.Hash, wt+2)
		x.Vars["kid"] = kid.Hash
		x.Obsf("early=%s", world.ErrClass(nd[0].Book.AddLeaf(ctx, &kid)))
		vsched.Settle()
		kid.Transaction.Spice = sp(9, 0) // the caller's object changes while the node holds it parked
		vsched.Quiet(false)
		res := make([]string, len(ops)+1)
		var hs []*vsched.Handle
		hs = append(hs, vsched.GoClient("T-parent", func() { res[len(ops)] = "parent=" + world.ErrClass(w.Deliver(ctx, 0, p)) }))
		for i, op := range ops {
			i, op := i, op
			hs = append(hs, vsched.GoClient(fmt.Sprintf("T%d-%s", i, op), func() {
				switch op {
				case "tick":
					if tk := nd[0].RetryTicker; tk != nil && !tk.Stopped {
						tk.Fire()
					}
					res[i] = "tick"
				case "create":
					_, err := w.Propose(ctx, 0, w.Tx("loc", R, A, 1, 0))
					res[i] = "create=" + world.ErrClass(err)
				}
			}))
		}
		vsched.Join(hs...)
		vsched.Settle()
		for k := 0; k < 3; k++ {
			if tk := nd[0].RetryTicker; tk != nil && !tk.Stopped {
				tk.Fire()
				vsched.Settle()
			}
		}
		vsched.Quiet(true)
		x.Obs = append(x.Obs, res...)
	}
}

func c13AlteredOracle(name string) func(x *sched.X, r *vsched.Result) []common.Violation {
	return func(x *sched.X, r *vsched.Result) []common.Violation {
		var out []common.Violation
		if !r.RootDone {
			out = append(out, common.Violation{Predicate: "C13.completes", Key: "C13.incomplete/" + name, What: name + ": did not complete: " + sched.BlockedSummary(r)})
			return out
		}
		w := x.Vars["w"].(*world.LW)
		kid := x.Vars["kid"].([32]byte)
		snap := w.Nodes[0].Book.VerifSnapshot()
		for _, v := range append(snap.Vertices, snap.Stored...) {
			if v.Hash == kid && v.Transaction.Spice != sp(1, 0) {
				out = append(out, common.Violation{Property: "C13", Predicate: "C13.invalid-never-admitted", Key: "C13.invalid-admitted-through-retry/altered-while-parked",
					What: fmt.Sprintf("%s: the ledger holds the parked vertex with amount %v although it was signed for 1.0: the replay admitted an object that no longer verifies", name, v.Transaction.Spice)})
			}
		}
		return out
	}
}

func c13Scenarios() map[string]*sched.Scenario {
	m := map[string]*sched.Scenario{}
	opt := vsched.Options{BranchSched: true, BranchData: false, KeyFunc: world.KeyFunc}
	add := func(name string, ops ...string) {
		m[name] = &sched.Scenario{Name: name, Params: []int{0}, Opt: opt, Body: c13Body(ops), Oracle: c13Oracle(name),
			Setup:       func() { world.GetNodes("G") },
			Interesting: func(x *sched.X, r *vsched.Result) bool { return true }}
	}
	add("retry||duplicate", "dup", "tick")
	add("retry||duplicate||duplicate", "dup", "dup", "tick")
	add("retry||duplicate||create", "create", "dup", "tick")
	addAltered := func(name string, ops ...string) {
		m[name] = &sched.Scenario{Name: name, Params: []int{0}, Opt: opt, Body: c13AlteredBody(ops), Oracle: c13AlteredOracle(name),
			Setup:       func() { world.GetNodes("G") },
			Interesting: func(x *sched.X, r *vsched.Result) bool { return true }}
	}
	addAltered("altered-while-parked||parent||retry", "tick")
	addAltered("altered-while-parked||parent||retry||create", "tick", "create")
	return m
}
