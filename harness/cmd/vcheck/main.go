// vcheck runs one property check: vcheck <ID> [worker|replay <file>|...]
package main

import (
	"fmt"
	"os"
)

type checkFn func(args []string) int

var checks = map[string]checkFn{}

func main() {
	if len(os.Args) < 2 {
		fmt.Fprintln(os.Stderr, "usage: vcheck <property> [args]")
		os.Exit(2)
	}
	f, ok := checks[os.Args[1]]
	if !ok {
		fmt.Fprintln(os.Stderr, "unknown property", os.Args[1])
		os.Exit(2)
	}
	os.Exit(f(os.Args[2:]))
}
