package main

import (
	"context"
	"fmt"

	"github.com/bartossh/Computantis/src/protobufcompiled"
	"github.com/bartossh/Computantis/src/spice"
	"github.com/bartossh/Computantis/src/transaction"
	"verif.local/harness/sched"
	"verif.local/harness/world"
	"verif.local/vsched"
)

// Full-node workloads for C18: gossip deliveries through the real GossipVrx/GossipTrx handlers (flashback memory,
// awaiting cache, juggler pipe, missing-parent fetch over the virtual network) racing notary proposals,
// confirmations and ledger reads on the receiving node N1. Everything the origin G sends is produced in the
// quiet set-up phase and sits in the virtual network's bag; the clients deliver it concurrently.

type c18Full struct {
	w      *world.LW
	net    *world.Net
	g, n1  *world.FullNode
	vrx    []int // bag ids of vertex messages G -> N1, in send order
	trx    []int // bag ids of transaction messages G -> N1
	gc     transaction.Transaction
	second transaction.Transaction
}

func c18FullWorld() *c18Full {
	full := world.GetFullNodes("G", "N1")
	base := []*world.Node{full[0].Node, full[1].Node}
	f := &c18Full{g: full[0], n1: full[1]}
	f.w = world.NewLW(base, spice.Melange{Currency: 10}, 0)
	ctx := context.Background()
	for _, n := range full {
		n.ResetServices(ctx)
	}
	f.net = world.NewNet(full, [][2]string{{"G", "N1"}})
	vsched.Settle()
	R, A, B := world.Cast("R"), world.Cast("A"), world.Cast("B")
	propose := func(n *world.FullNode, t transaction.Transaction) {
		pt, err := world.TrxToProto(t)
		if err != nil {
			panic(err)
		}
		if _, err := n.Notary.Propose(ctx, pt); err != nil {
			panic("c18 full: propose failed: " + err.Error())
		}
		vsched.Settle()
	}
	propose(f.g, world.MakeTx(R, A.Addr, "f1", nil, spice.Melange{Currency: 1}, 9201))
	propose(f.g, world.MakeTx(R, B.Addr, "f2", nil, spice.Melange{Currency: 1}, 9202))
	f.gc = world.MakeTx(A, B.Addr, "fc", []byte("contract"), spice.Melange{}, 9203)
	propose(f.g, f.gc)
	// the receiver confirms the contract at the origin: a third vertex, carrying the contract, is gossiped
	ct, err := world.TrxToProto(world.CounterSign(f.gc, B))
	if err != nil {
		panic(err)
	}
	if _, err := f.g.Notary.Confirm(ctx, ct); err != nil {
		panic("c18 full: confirm failed: " + err.Error())
	}
	vsched.Settle()
	f.second = world.MakeTx(A, B.Addr, "fc2", []byte("contract-2"), spice.Melange{}, 9204)
	for _, m := range f.net.Bag {
		if m.To != "N1" {
			continue
		}
		if m.Vrx != nil {
			f.vrx = append(f.vrx, m.ID)
		} else {
			f.trx = append(f.trx, m.ID)
		}
	}
	if len(f.vrx) != 3 || len(f.trx) != 1 {
		panic(fmt.Sprintf("c18 full: unexpected bag: %d vertex and %d transaction messages", len(f.vrx), len(f.trx)))
	}
	return f
}

func (f *c18Full) client(role string) {
	R, A, B := world.Cast("R"), world.Cast("A"), world.Cast("B")
	ctx := context.Background()
	switch role {
	case "gvrx0", "gvrx1", "gvrx2":
		f.net.Deliver(f.vrx[int(role[4]-'0')])
	case "gtrx":
		f.net.Deliver(f.trx[0])
	case "npropose":
		pt, _ := world.TrxToProto(world.MakeTx(R, A.Addr, "f3", nil, spice.Melange{Currency: 1}, 9205))
		f.n1.Notary.Propose(ctx, pt)
	case "npropose2":
		// two proposals back to back from one client: the node's gossip loop and its per-peer senders overlap
		for k, seq := range []int{9206, 9207} {
			pt, _ := world.TrxToProto(world.MakeTx(R, A.Addr, fmt.Sprintf("f4-%d", k), nil, spice.Melange{Currency: 1}, seq))
			f.n1.Notary.Propose(ctx, pt)
		}
	case "ncontract2":
		for k, seq := range []int{9208, 9209} {
			pt, _ := world.TrxToProto(world.MakeTx(A, B.Addr, fmt.Sprintf("f5-%d", k), []byte("contract"), spice.Melange{}, seq))
			f.n1.Notary.Propose(ctx, pt)
		}
	case "ncontract":
		pt, _ := world.TrxToProto(f.second)
		f.n1.Notary.Propose(ctx, pt)
	case "nconfirm":
		pt, _ := world.TrxToProto(world.CounterSign(f.gc, B))
		f.n1.Notary.Confirm(ctx, pt)
	case "nbalance":
		f.n1.Book.CalculateBalance(ctx, A.Addr)
	case "nhistory":
		f.n1.Book.ReadDAGTransactionsByAddress(ctx, B.Addr)
	case "nalive":
		f.n1.Gossip.Server().Alive(ctx, nil)
	case "ngetvertex":
		d, s := B.Sign(f.w.Genesis.Hash[:])
		f.n1.Gossip.Server().GetVertex(ctx, &protobufcompiled.SignedHash{Address: B.Addr, Data: f.w.Genesis.Hash[:], Hash: d[:], Signature: s})
	}
}

func c18FullBody(pre []string, roles []string) func(x *sched.X) {
	return func(x *sched.X) {
		vsched.Quiet(true)
		f := c18FullWorld()
		for _, p := range pre {
			f.client(p)
			vsched.Settle()
		}
		vsched.Quiet(false)
		var hs []*vsched.Handle
		for i, role := range roles {
			role := role
			hs = append(hs, vsched.GoClient(fmt.Sprintf("%s%d", role, i), func() { f.client(role) }))
		}
		vsched.Join(hs...)
		vsched.Settle()
		held := 0
		for _, id := range f.vrx {
			if f.n1.HasVertex(f.net.Bag[id].Item()) {
				held++
			}
		}
		x.Obsf("done held=%d sent=%d", held, len(f.net.Bag))
	}
}
