package main

import (
	"verif.local/harness/common"
	"verif.local/harness/ledger"
	"verif.local/harness/sched"
	"verif.local/harness/world"
	"verif.local/vsched"
)

// SCHED part of C02: a truncation racing proposals over an overdrawing tentative tip (the histories of C01's
// truncation scenarios), judged at quiescence by the conservation oracle: whoever validates the tip - before, during
// or after the truncation that checkpoints the wallet's funds - must count those funds exactly once.

func c02Oracle(name string) func(x *sched.X, r *vsched.Result) []common.Violation {
	return func(x *sched.X, r *vsched.Result) []common.Violation {
		var out []common.Violation
		if !r.RootDone {
			out = append(out, common.Violation{Predicate: "C02.completes", Key: "C02.incomplete/" + name, What: name + ": did not complete: " + sched.BlockedSummary(r)})
			return out
		}
		w := x.Vars["w"].(*world.LW)
		for _, v := range ledger.SnapshotOracles(w, w.Nodes[0], "C02") {
			v.What = name + " (truncation racing proposals): " + v.What
			v.Key += "/racing-truncation"
			out = append(out, v)
		}
		return out
	}
}

func c02Scenarios() map[string]*sched.Scenario {
	m := map[string]*sched.Scenario{}
	opt := vsched.Options{BranchSched: true, BranchData: true, KeyFunc: world.KeyFunc}
	add := func(name string, ops ...string) {
		m[name] = &sched.Scenario{Name: name, Params: []int{0}, Opt: opt, Body: c01Body(ops), Oracle: c02Oracle(name),
			Setup:       func() { world.GetNodes("G") },
			Interesting: func(x *sched.X, r *vsched.Result) bool { return true }}
	}
	add("filler||truncate", "filler", "truncate")
	add("spend||filler||truncate", "spend", "filler", "truncate")
	return m
}
