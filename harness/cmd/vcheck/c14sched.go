package main

import (
	"bytes"
	"context"
	"fmt"
	"github.com/bartossh/Computantis/src/spice"
	"github.com/bartossh/Computantis/src/transaction"
	"sort"

	"github.com/bartossh/Computantis/src/accountant"
	"github.com/bartossh/Computantis/src/gossip"
	"github.com/bartossh/Computantis/src/protobufcompiled"
	"google.golang.org/grpc"
	"google.golang.org/protobuf/types/known/emptypb"
	"verif.local/harness/common"
	"verif.local/harness/sched"
	"verif.local/harness/world"
	"verif.local/vsched"
)

// SCHED part of C14: the sync as the gossip service serves it. The peer's real LoadDag RPC handler streams its
// ledger into a server stream provided by the harness; what the handler sends is mapped back exactly as the
// client side does (wire vertex -> ledger vertex) and fed to the joining node's LoadDag; when the handler returns
// the feed is closed, as the client does at end of stream. Every one-shot timer the serving path arms is fired by
// a task of its own at a scheduler-chosen point (a timer landing first is an environment answer), and proposals
// may reach the peer while it streams.

type c14Stream struct {
	grpc.ServerStream
	ch   chan *accountant.Vertex
	sent int
}

func (s *c14Stream) Send(v *protobufcompiled.Vertex) error {
	x := gossip.VerifProtoToVertex(v)
	s.sent++
	vsched.Send(s.ch, &x)
	return nil
}

func (s *c14Stream) Context() context.Context { return context.Background() }

func c14Body(ops []string) func(x *sched.X) {
	return func(x *sched.X) {
		vsched.Quiet(true)
		full := world.GetFullNodes("G")
		w := world.NewLW([]*world.Node{full[0].Node}, sp(10, 0), 0)
		ctx := context.Background()
		full[0].ResetServices(ctx)
		vsched.Settle()
		R, A := world.Cast("R"), world.Cast("A")
		// the peer's history: whole units, a sub-unit amount, a paid contract with a sub-unit amount
		hist := []transaction.Transaction{
			w.Tx("h0", R, A, 1, 0),
			w.Tx("h1", R, A, 0, 500_000_000_000_000_000),
			world.MakeTx(R, A.Addr, "h2", []byte("paid contract"), spice.Melange{SupplementaryCurrency: 250_000_000_000_000_000}, 9402),
			w.Tx("h3", R, A, 1, 0),
		}
		for _, t := range hist {
			if _, err := w.Propose(ctx, 0, t); err != nil {
				panic(err)
			}
			vsched.Settle()
		}
		// a second tip: a vertex sealed by the outside node M on an older vertex of the chain
		snap := full[0].Book.VerifSnapshot()
		vs := append([]accountant.Vertex(nil), snap.Vertices...)
		sort.Slice(vs, func(a, b int) bool { return vs[a].Weight < vs[b].Weight })
		old := vs[2]
		side := w.Craft(world.Cast("M"), w.Tx("side", R, A, 1, 0), old.Hash, old.Hash, old.Weight+1)
		if err := w.Deliver(ctx, 0, side); err != nil {
			panic(err)
		}
		vsched.Settle()
		joiner := world.GetNodes("N1")[0]
		joiner.Reset(ctx, 0)
		x.Vars["peer"] = full[0].Node
		x.Vars["joiner"] = joiner
		before := map[[32]byte]bool{}
		content := map[[32]byte]accountant.Vertex{}
		for _, v := range full[0].Book.VerifSnapshot().Vertices {
			before[v.Hash] = true
			content[v.Hash] = v
		}
		x.Vars["before"] = before
		x.Vars["content"] = content
		fired := 0
		x.Vars["fired"] = &fired
		st := &c14Stream{ch: vsched.MakeChan[*accountant.Vertex](1000)}
		base := len(vsched.Tickers())
		vsched.Quiet(false)
		var hs []*vsched.Handle
		var served error
		// created first = run last under the default order: every schedule deviation moves the timers (or the
		// proposal) to an earlier point of the stream
		hs = append(hs, vsched.GoClient("timers", func() {
			for round := 0; round < 2; round++ {
				ts := vsched.Tickers()
				for _, tk := range ts[base:] {
					if tk.OneShot && tk.Fire() {
						fired++
					}
				}
				vsched.Op("timers-pause", "", nil)
			}
		}))
		for i, op := range ops {
			i, op := i, op
			hs = append(hs, vsched.GoClient(fmt.Sprintf("T%d-%s", i, op), func() {
				switch op {
				case "propose":
					w.Propose(ctx, 0, w.Tx("during", R, A, 1, 0))
				}
			}))
		}
		hs = append(hs, vsched.GoClient("loader", func() {
			joiner.Book.LoadDag(func(error) {}, st.ch)
		}))
		hs = append(hs, vsched.GoClient("serve", func() {
			served = full[0].Gossip.Server().LoadDag(&emptypb.Empty{}, st)
			vsched.Close(st.ch)
		}))
		vsched.Join(hs...)
		vsched.Settle()
		vsched.Quiet(true)
		x.Vars["served"] = served
		x.Obsf("sent=%d loaded=%v served=%v", st.sent, joiner.Book.DagLoaded(), served)
	}
}

func c14Oracle(name string) func(x *sched.X, r *vsched.Result) []common.Violation {
	return func(x *sched.X, r *vsched.Result) []common.Violation {
		var out []common.Violation
		if !r.RootDone {
			out = append(out, common.Violation{Predicate: "C14.completes", Key: "C14.incomplete/" + name, What: name + ": did not complete: " + sched.BlockedSummary(r)})
			return out
		}
		joiner := x.Vars["joiner"].(*world.Node)
		served, _ := x.Vars["served"].(error)
		if !joiner.Book.DagLoaded() {
			if served == nil && *x.Vars["fired"].(*int) == 0 {
				// nothing interfered with the stream: the peer's own valid ledger must load
				out = append(out, common.Violation{Property: "C14", Predicate: "C14.same-ledger", Key: "C14.not-loaded/served-stream",
					What: name + ": the peer's handler served its valid ledger completely, yet the joining node is not marked as loaded"})
			}
			return out // a refused load leaves the node out of service
		}
		if served != nil {
			return out // the peer reported the stream as failed: the client side refuses it
		}
		// the node is marked as loaded: it must hold every vertex the peer held when the stream began (vertices the
		// peer admitted while streaming may or may not be part of the stream), and nothing the peer does not hold
		before := x.Vars["before"].(map[[32]byte]bool)
		peerNow := map[[32]byte]bool{}
		for _, v := range x.Vars["peer"].(*world.Node).Book.VerifSnapshot().Vertices {
			peerNow[v.Hash] = true
		}
		got := map[[32]byte]bool{}
		for _, v := range joiner.Book.VerifSnapshot().Vertices {
			got[v.Hash] = true
		}
		missing, extra := 0, 0
		for h := range before {
			if !got[h] {
				missing++
			}
		}
		for h := range got {
			if !peerNow[h] {
				extra++
			}
		}
		// ... and holds them with the content the peer holds them with
		content := x.Vars["content"].(map[[32]byte]accountant.Vertex)
		for _, v := range joiner.Book.VerifSnapshot().Vertices {
			p, ok := content[v.Hash]
			if !ok {
				continue
			}
			a, b := p.Transaction, v.Transaction
			if a.Spice != b.Spice || !bytes.Equal(a.Data, b.Data) || a.Subject != b.Subject || a.IssuerAddress != b.IssuerAddress || a.ReceiverAddress != b.ReceiverAddress ||
				a.Hash != b.Hash || !bytes.Equal(a.IssuerSignature, b.IssuerSignature) || !bytes.Equal(a.ReceiverSignature, b.ReceiverSignature) || !a.CreatedAt.Equal(b.CreatedAt) ||
				p.LeftParentHash != v.LeftParentHash || p.RightParentHash != v.RightParentHash || p.Weight != v.Weight || !bytes.Equal(p.Signature, v.Signature) ||
				p.SignerPublicAddress != v.SignerPublicAddress || !p.CreatedAt.Equal(v.CreatedAt) {
				out = append(out, common.Violation{Property: "C14", Predicate: "C14.same-graph", Key: "C14.loaded-vertex-differs/served-stream",
					What: fmt.Sprintf("%s: a vertex of the loaded node differs from the peer's vertex of the same hash (amount %v vs %v, data %d vs %d bytes)", name, b.Spice, a.Spice, len(b.Data), len(a.Data))})
				break
			}
		}
		if missing > 0 || extra > 0 {
			out = append(out, common.Violation{Property: "C14", Predicate: "C14.same-graph", Key: "C14.loaded-but-differs/served-stream",
				What: fmt.Sprintf("%s: the node is marked as loaded after the stream served by the peer's LoadDag handler, but lacks %d of the %d vertices the peer held when the stream began (and holds %d the peer does not)", name, missing, len(before), extra)})
		}
		return out
	}
}

func c14Scenarios() map[string]*sched.Scenario {
	m := map[string]*sched.Scenario{}
	opt := vsched.Options{BranchSched: true, BranchData: false, KeyFunc: world.KeyFunc}
	add := func(name string, ops ...string) {
		m[name] = &sched.Scenario{Name: name, Params: []int{0}, Opt: opt, Body: c14Body(ops), Oracle: c14Oracle(name),
			Setup:       func() { world.GetFullNodes("G"); world.GetNodes("N1") },
			Interesting: func(x *sched.X, r *vsched.Result) bool { return true }}
	}
	add("served-stream||timers")
	add("served-stream||timers||propose", "propose")
	return m
}
