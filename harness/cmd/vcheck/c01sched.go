package main

import (
	"context"
	"fmt"
	"sort"

	"verif.local/harness/common"
	"verif.local/harness/ledger"
	"verif.local/harness/sched"
	"verif.local/harness/world"
	"verif.local/vsched"
)

// SCHED part of C01: concurrent proposals (and a gossiped overdrawing vertex) on one node.

func c01Body(ops []string) func(x *sched.X) {
	return func(x *sched.X) {
		vsched.Quiet(true)
		nd := world.GetNodes("G")
		w := world.NewLW(nd, sp(10, 0), 0)
		x.Vars["w"] = w
		R, A, B, M := world.Cast("R"), world.Cast("A"), world.Cast("B"), world.Cast("M")
		ctx := context.Background()
		txs := map[string]func() error{
			"t1": func() error { _, e := w.Propose(ctx, 0, w.Tx("t1", R, A, 6, 0)); return e },
			"t2": func() error { _, e := w.Propose(ctx, 0, w.Tx("t2", R, B, 6, 0)); return e },
			"t3": func() error { _, e := w.Propose(ctx, 0, w.Tx("t3", A, B, 5, 0)); return e },
			"mx": func() error {
				v := w.Craft(M, w.Tx("mx", R, B, 20, 0), w.Genesis.Hash, w.Genesis.Hash, 1)
				return w.Deliver(ctx, 0, v)
			},
		}
		// truncation scenarios start from a chain whose wallet A holds 6 deep in the history, with the overdrawing
		// spend A->B 10 as the (not yet validated) tip: whoever validates that tip - before, during or after the
		// truncation that checkpoints A's 6 - must count those 6 exactly once
		for _, op := range ops {
			if op == "truncate" {
				must := func(e error) {
					if e != nil {
						panic("c01 sched setup: " + e.Error())
					}
				}
				must(txs["t1"]())
				for i := 1; i <= 3; i++ {
					_, e := w.Propose(ctx, 0, w.Contract(fmt.Sprintf("c%d", i), R, B, []byte("filler")))
					must(e)
				}
				_, e := w.Propose(ctx, 0, w.Tx("over", A, B, 10, 0))
				must(e)
				break
			}
		}
		txs["truncate"] = func() error { return nd[0].Book.VerifTruncate(ctx) }
		txs["filler"] = func() error {
			_, e := w.Propose(ctx, 0, w.Contract("c9", R, B, []byte("filler")))
			return e
		}
		txs["spend"] = func() error { _, e := w.Propose(ctx, 0, w.Tx("t4", R, B, 1, 0)); return e }
		vsched.Quiet(false)
		res := make([]string, len(ops))
		var hs []*vsched.Handle
		for i, op := range ops {
			i, op := i, op
			hs = append(hs, vsched.GoClient(fmt.Sprintf("T%d", i), func() { res[i] = op + "=" + world.ErrClass(txs[op]()) }))
		}
		vsched.Join(hs...)
		vsched.Settle()
		vsched.Quiet(true)
		x.Obs = append(x.Obs, res...)
		// two further proposals confirm (or drop) whatever tips the concurrent phase left
		for i := 0; i < 3; i++ {
			_, err := w.Propose(ctx, 0, w.Tx(fmt.Sprintf("f%d", i), R, A, 0, 1))
			x.Obsf("f%d=%s", i, world.ErrClass(err))
		}
	}
}

func c01Oracle(name string) func(x *sched.X, r *vsched.Result) []common.Violation {
	return func(x *sched.X, r *vsched.Result) []common.Violation {
		var out []common.Violation
		if !r.RootDone {
			out = append(out, common.Violation{Predicate: "C01.completes", Key: "C01.incomplete/" + name, What: name + ": did not complete: " + sched.BlockedSummary(r)})
			return out
		}
		w := x.Vars["w"].(*world.LW)
		for _, v := range ledger.SnapshotOracles(w, w.Nodes[0], "C01", "C03", "C09") {
			v.What = name + ": " + v.What
			if v.Property != "C01" {
				v.Key = "C01/" + v.Key
			}
			out = append(out, v)
		}
		return out
	}
}

func c01Scenarios() map[string]*sched.Scenario {
	m := map[string]*sched.Scenario{}
	opt := vsched.Options{BranchSched: true, BranchData: true, KeyFunc: world.KeyFunc}
	add := func(name string, ops ...string) {
		m[name] = &sched.Scenario{Name: name, Params: []int{0}, Opt: opt, Body: c01Body(ops), Oracle: c01Oracle(name),
			Setup:       func() { world.GetNodes("G") },
			Interesting: func(x *sched.X, r *vsched.Result) bool { return true }}
	}
	add("t1||t2", "t1", "t2")
	add("t1||t2||t3", "t1", "t2", "t3")
	add("t1||mx", "t1", "mx")
	add("t1||t2||mx", "t1", "t2", "mx")
	// the long operation (truncate) is created last: it runs first by default and every deviation injects the
	// proposal at another point of it
	add("filler||truncate", "filler", "truncate")
	add("spend||filler||truncate", "spend", "filler", "truncate")
	return m
}

func c01SchedRun(rep *common.Report, procs int) (bool, int) {
	scs := c01Scenarios()
	pre, sd, shards := 1, 2, 4
	if common.Tier() == "thorough" {
		pre, sd, shards = 2, 3, 16
	}
	var names []string
	for n := range scs {
		names = append(names, n)
	}
	sort.Strings(names)
	var jobs []sched.Job
	for _, n := range names {
		for s := 0; s < shards; s++ {
			jobs = append(jobs, sched.Job{Scenario: n, Preempt: pre, Data: 1, Sched: sd, ShardI: s, ShardN: shards})
		}
	}
	totalBudget := 40.0
	if common.Tier() == "thorough" {
		totalBudget = 600
	}
	sched.SpreadBudget(jobs, totalBudget, procs, 15)
	tot := sched.RunAll(rep, jobs, []string{"C01", "schedworker"}, procs)
	rep.Set("sched_executions", tot.Executions)
	rep.Set("sched_distinct_outcomes", len(tot.Outcomes))
	rep.Set("sched_exhaustive_within_bound", tot.Exhaustive)
	rep.Set("sched_caps_hit", tot.Caps)
	rep.Set("sched_bound", map[string]any{"preemptions": pre, "schedule_deviations": sd, "data_deviations": 1})
	rep.Set("sched_per_scenario", tot.PerScenario)
	return tot.Exhaustive, tot.Diverged
}
