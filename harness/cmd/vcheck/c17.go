package main

import (
	"flag"
	"fmt"
	"os"
	"runtime"
	"sort"
	"strings"
	"time"

	"github.com/bartossh/Computantis/src/cache"
	"github.com/bartossh/Computantis/src/spice"
	"github.com/bartossh/Computantis/src/transaction"
	"verif.local/harness/common"
	"verif.local/harness/sched"
	"verif.local/harness/world"
	"verif.local/vsched"
)

func init() { checks["C17"] = c17Main }

var c17Cache *cache.Hippocampus

type c17Call struct {
	Kind   string // save | remove | read
	Tx     string // t1 | t2 (save/remove)
	By     string // I | Rc (remove: claimed address; read: whose list)
	start  int
	end    int
	ok     bool
	got    []string
	errStr string
	raw    []transaction.Transaction // read: the listing as it was handed out (kept by the caller)
}

// changedListings re-reads every listing that was handed out earlier: what a caller was given must not change
// afterwards, whatever calls follow.
func (w *c17World) changedListings(calls []*c17Call) []string {
	var out []string
	for _, c := range calls {
		if c.Kind != "read" {
			continue
		}
		var now []string
		for _, t := range c.raw {
			now = append(now, w.label(t))
		}
		sort.Strings(now)
		if strings.Join(now, ",") != strings.Join(c.got, ",") {
			out = append(out, fmt.Sprintf("the listing handed to %s was %v and reads %v after later calls", c.By, c.got, now))
		}
	}
	return out
}

type c17World struct {
	clock int
	calls []*c17Call
	txs   map[string]transaction.Transaction
}

func c17Txs() map[string]transaction.Transaction {
	I, Rc := world.Cast("A"), world.Cast("B")
	return map[string]transaction.Transaction{
		"t1": world.MakeTx(I, Rc.Addr, "c17-1", []byte("contract-1"), spice.Melange{}, 171),
		"t2": world.MakeTx(I, Rc.Addr, "c17-2", []byte("contract-2"), spice.Melange{}, 172),
		"t3": world.MakeTx(Rc, I.Addr, "c17-3", []byte("contract-3"), spice.Melange{}, 173),
		// same issuer, a third wallet as receiver: shares the issuer's list with t1/t2 and nothing else
		"t4": world.MakeTx(I, world.Cast("R").Addr, "c17-4", []byte("contract-4"), spice.Melange{}, 174),
	}
}

func (w *c17World) addr(who string) string {
	if who == "I" {
		return world.Cast("A").Addr
	}
	if who == "D" {
		return world.Cast("R").Addr
	}
	return world.Cast("B").Addr
}

func (w *c17World) label(t transaction.Transaction) string {
	for l, x := range w.txs {
		if x.Hash == t.Hash {
			return l
		}
	}
	return "?"
}

func (w *c17World) do(c *c17Call) {
	w.clock++
	c.start = w.clock
	switch c.Kind {
	case "save":
		t := w.txs[c.Tx]
		err := c17Cache.SaveAwaitedTransaction(&t)
		c.ok = err == nil
		if err != nil {
			c.errStr = firstLine(err.Error())
		}
	case "remove":
		_, err := c17Cache.RemoveAwaitedTransaction(w.txs[c.Tx].Hash, w.addr(c.By))
		// a nil or "entry not found in the address list" error both mean the transaction entry was removed;
		// success is defined by the transaction entry being deleted, which the returned trx hash tells
		c.ok = err == nil
		if err != nil {
			c.errStr = firstLine(err.Error())
		}
	case "balsave":
		// the same cache also holds cached balances per address: they must not disturb the awaiting index
		err := c17Cache.SaveBalance(w.addr(c.By), spice.Melange{Currency: 7, SupplementaryCurrency: 1})
		c.ok = err == nil
	case "balrm":
		c17Cache.RemoveBalance(w.addr(c.By))
		c.ok = true
	case "read":
		ts, err := c17Cache.ReadTransactions(w.addr(c.By))
		c.ok = err == nil
		if err != nil {
			c.errStr = firstLine(err.Error())
		}
		for _, t := range ts {
			c.got = append(c.got, w.label(t))
		}
		sort.Strings(c.got)
		c.raw = ts
	}
	w.clock++
	c.end = w.clock
}

func firstLine(s string) string {
	if i := strings.Index(s, "\n"); i >= 0 {
		return s[:i]
	}
	return s
}

func parseCalls(spec string) []*c17Call {
	var out []*c17Call
	for _, s := range strings.Split(spec, ",") {
		p := strings.Split(s, ":")
		c := &c17Call{Kind: p[0]}
		switch p[0] {
		case "save":
			c.Tx = p[1]
		case "remove":
			c.Tx, c.By = p[1], p[2]
		case "read", "balsave", "balrm":
			c.By = p[1]
		}
		out = append(out, c)
	}
	return out
}

// c17Body: setup calls run sequentially first, then one client per element of clients (each a comma list of calls).
func c17Body(setup string, clients []string) func(x *sched.X) {
	return func(x *sched.X) {
		vsched.Quiet(true)
		if err := c17Cache.VerifReset(); err != nil {
			panic(err)
		}
		w := &c17World{txs: c17Txs()}
		x.Vars["w"] = w
		if setup != "" {
			for _, c := range parseCalls(setup) {
				w.do(c)
				w.calls = append(w.calls, c)
			}
		}
		vsched.Quiet(false)
		var hs []*vsched.Handle
		for i, spec := range clients {
			cs := parseCalls(spec)
			w.calls = append(w.calls, cs...)
			hs = append(hs, vsched.GoClient(fmt.Sprintf("C%d", i), func() {
				for _, c := range cs {
					w.do(c)
				}
			}))
		}
		vsched.Join(hs...)
		vsched.Quiet(true)
		// final listings at quiescence
		for _, who := range c17Parties {
			c := &c17Call{Kind: "read", By: who}
			w.do(c)
			x.Vars["final-"+who] = c
		}
		for _, c := range w.calls {
			x.Obsf("%s:%s:%s=%v%v", c.Kind, c.Tx, c.By, c.ok, c.got)
		}
		var all []*c17Call
		all = append(all, w.calls...)
		for _, who := range c17Parties {
			all = append(all, x.Vars["final-"+who].(*c17Call))
		}
		x.Vars["changed"] = w.changedListings(all)
		x.Obsf("final I=%v Rc=%v D=%v", x.Vars["final-I"].(*c17Call).got, x.Vars["final-Rc"].(*c17Call).got, x.Vars["final-D"].(*c17Call).got)
		x.Vars["dump"] = c17Cache.VerifKeys()
	}
}

var c17Parties = []string{"I", "Rc", "D"}

// c17Party reports whether the address (I / Rc / D) is issuer or receiver of tx label.
func c17Party(tx, who string) bool {
	switch tx {
	case "t1", "t2", "t3":
		return who == "I" || who == "Rc"
	case "t4":
		return who == "I" || who == "D"
	}
	return false
}

// c17Receiver names the receiver of tx label.
func c17Receiver(tx string) string {
	switch tx {
	case "t3":
		return "I"
	case "t4":
		return "D"
	}
	return "Rc"
}

func c17Role(who string) string {
	switch who {
	case "I":
		return "issuer"
	case "D":
		return "third-wallet"
	}
	return "receiver"
}

func c17Oracle(name string) func(x *sched.X, r *vsched.Result) []common.Violation {
	return func(x *sched.X, r *vsched.Result) []common.Violation {
		var out []common.Violation
		if !r.RootDone {
			out = append(out, common.Violation{Predicate: "C17.completes", Key: "C17.incomplete/" + name, What: "cache calls did not complete: " + sched.BlockedSummary(r)})
			return out
		}
		w := x.Vars["w"].(*c17World)
		if ch, _ := x.Vars["changed"].([]string); len(ch) > 0 {
			out = append(out, common.Violation{Predicate: "C17.listing-stable", Key: "C17.listing-changed-after-it-was-returned", What: name + ": " + ch[0]})
		}
		// expected final set: successful saves minus successful removals
		saved := map[string]bool{}
		savedTwice := map[string]int{}
		removed := map[string]bool{}
		for _, c := range w.calls {
			if c.Kind == "save" && c.ok {
				saved[c.Tx] = true
				savedTwice[c.Tx]++
			}
			if c.Kind == "remove" && c.ok {
				removed[c.Tx] = true
			}
			if c.Kind == "remove" && c.ok && c.By != c17Receiver(c.Tx) {
				out = append(out, common.Violation{Predicate: "C17.receiver-only", Key: "C17.removed-by-non-receiver", What: fmt.Sprintf("%s: removal of %s by %s succeeded", name, c.Tx, c.By)})
			}
		}
		for t, n := range savedTwice {
			if n > 1 && !removed[t] { // with a removal in between a second save is legitimate: the sequential-order oracle judges that
				out = append(out, common.Violation{Predicate: "C17.save-once", Key: "C17.same-transaction-saved-twice", What: fmt.Sprintf("%s: %d concurrent saves of %s all succeeded", name, n, t)})
			}
		}
		var want []string
		for t := range saved {
			if !removed[t] {
				want = append(want, t)
			}
		}
		sort.Strings(want)
		// the results of the saves and removals and the two final listings must be those of some sequential
		// order of the calls that respects their real-time order
		finals := map[string][]string{}
		for _, who := range c17Parties {
			finals[who] = x.Vars["final-"+who].(*c17Call).got
		}
		lin, orders := c17Linearizable(w.calls, finals)
		x.Vars["orders"] = orders
		if !lin {
			var res []string
			for _, c := range w.calls {
				if c.Kind == "save" || c.Kind == "remove" {
					res = append(res, fmt.Sprintf("%s:%s:%s=%v", c.Kind, c.Tx, c.By, c.ok))
				}
			}
			out = append(out, common.Violation{Predicate: "C17.sequential-order", Key: "C17.no-sequential-order/" + name,
				What: fmt.Sprintf("%s: results %v with final lists issuer=%v receiver=%v third-wallet=%v are produced by none of the %d admissible sequential orders of the calls", name, res, finals["I"], finals["Rc"], finals["D"], orders)})
		}
		for _, who := range c17Parties {
			if lin {
				break
			}
			got := x.Vars["final-"+who].(*c17Call).got
			var wantWho []string
			for _, t := range want {
				if c17Party(t, who) {
					wantWho = append(wantWho, t)
				}
			}
			if strings.Join(got, ",") != strings.Join(wantWho, ",") {
				kind := "lost"
				gs := map[string]int{}
				for _, g := range got {
					gs[g]++
				}
				for _, g := range got {
					if !saved[g] || removed[g] {
						kind = "invented-or-stale"
					}
					if gs[g] > 1 {
						kind = "duplicate"
					}
				}
				role := c17Role(who)
				out = append(out, common.Violation{Predicate: "C17.final-listing", Key: "C17.final-listing-" + kind + "/" + role,
					What: fmt.Sprintf("%s: at quiescence the %s's list is %v, successful saves minus removals (of that wallet) are %v", name, role, got, wantWho)})
			}
		}
		// interval specification for concurrent reads
		for _, rd := range w.calls {
			if rd.Kind != "read" || !rd.ok && rd.errStr != "transaction not found" {
				continue
			}
			must := map[string]bool{}
			may := map[string]bool{}
			for _, c := range w.calls {
				if c.Kind == "save" && c.start < rd.end && c17Party(c.Tx, rd.By) {
					may[c.Tx] = true
				}
				if c.Kind == "save" && c.ok && c.end < rd.start && c17Party(c.Tx, rd.By) {
					must[c.Tx] = true
				}
			}
			for _, c := range w.calls {
				if c.Kind == "remove" && c.start < rd.end {
					delete(must, c.Tx)
				}
			}
			gs := map[string]bool{}
			for _, g := range rd.got {
				gs[g] = true
				if !may[g] {
					out = append(out, common.Violation{Predicate: "C17.read-interval", Key: "C17.read-invented-entry", What: fmt.Sprintf("%s: read returned %s which no save had started", name, g)})
				}
			}
			for m := range must {
				if !gs[m] {
					out = append(out, common.Violation{Predicate: "C17.read-interval", Key: "C17.read-missed-completed-save", What: fmt.Sprintf("%s: read (interval %d-%d) misses %s whose save completed before and which nobody removed; got %v", name, rd.start, rd.end, m, rd.got)})
				}
			}
		}
		return out
	}
}

// c17Linearizable enumerates the orders of the save/remove calls that respect real time (a call that ended
// before another started comes first) and runs the map reference over each; it reports whether one of them
// reproduces every result and both final listings, and how many orders were admissible.
func c17Linearizable(calls []*c17Call, finals map[string][]string) (bool, int) {
	var cs []*c17Call
	for _, c := range calls {
		if c.Kind == "save" || c.Kind == "remove" {
			cs = append(cs, c)
		}
	}
	receiver := c17Receiver
	used := make([]bool, len(cs))
	present := map[string]bool{}
	orders, found := 0, false
	var rec func(n int)
	rec = func(n int) {
		if n == len(cs) {
			orders++
			var l []string
			for t, p := range present {
				if p {
					l = append(l, t)
				}
			}
			sort.Strings(l)
			all := true
			for who, final := range finals {
				var lw []string
				for _, t := range l {
					if c17Party(t, who) {
						lw = append(lw, t)
					}
				}
				if strings.Join(lw, ",") != strings.Join(final, ",") {
					all = false
				}
			}
			if all {
				found = true
			}
			return
		}
		for i, c := range cs {
			if used[i] {
				continue
			}
			early := true
			for j, d := range cs {
				if !used[j] && j != i && d.end < c.start {
					early = false
				}
			}
			if !early {
				continue
			}
			was := present[c.Tx]
			var ok bool
			if c.Kind == "save" {
				ok = !was
				if ok {
					present[c.Tx] = true
				}
			} else {
				ok = was && c.By == receiver(c.Tx)
				if ok {
					present[c.Tx] = false
				}
			}
			if ok == c.ok {
				used[i] = true
				rec(n + 1)
				used[i] = false
			}
			present[c.Tx] = was
		}
	}
	rec(0)
	return found, orders
}

func c17Scenarios() map[string]*sched.Scenario {
	m := map[string]*sched.Scenario{}
	opt := vsched.Options{BranchSched: true, BranchData: true}
	add := func(name, setup string, clients ...string) {
		m[name] = &sched.Scenario{Name: name, Params: []int{0}, Opt: opt, Body: c17Body(setup, clients), Oracle: c17Oracle(name),
			Setup: func() {
				if c17Cache == nil {
					var err error
					c17Cache, err = cache.New(1<<12, 64)
					if err != nil {
						panic(err)
					}
				}
			},
			Interesting: func(x *sched.X, r *vsched.Result) bool { return true }}
	}
	add("A/save||save", "", "save:t1", "save:t2")
	add("B/save||save||read", "", "save:t1", "save:t2", "read:I")
	add("C/remove||save", "save:t1", "remove:t1:Rc", "save:t2")
	add("D/remove||remove", "save:t1,save:t2", "remove:t1:Rc", "remove:t2:Rc")
	add("E/remove||read||save", "save:t1", "remove:t1:Rc", "read:Rc", "save:t2")
	add("F/save||save-same", "", "save:t1", "save:t1")
	add("G/unauthorized-remove||read", "save:t1", "remove:t1:I", "read:Rc")
	add("H/save,read||save,read", "", "save:t1,read:I", "save:t2,read:Rc")
	add("I/cross-direction", "", "save:t1", "save:t3")
	add("J/remove||re-save", "save:t1", "remove:t1:Rc", "save:t1")
	add("K/remove||re-save||save", "save:t1", "remove:t1:Rc", "save:t1", "save:t2")
	add("L/save,remove||save-same", "", "save:t1,remove:t1:Rc", "save:t1")
	add("M/save||balance-cache", "save:t1", "save:t2", "balsave:I,balrm:Rc")
	// calls that share one wallet's list only: the issuer's list is touched by a removal (receiver Rc) and a save (receiver D)
	add("N/remove||save-other-receiver", "save:t1", "remove:t1:Rc", "save:t4")
	add("O/remove||remove-other-receiver", "save:t1,save:t4", "remove:t1:Rc", "remove:t4:D")
	add("P/save||save-other-receiver||read", "", "save:t1", "save:t4", "read:I")
	return m
}

func c17Main(args []string) int {
	fs := flag.NewFlagSet("C17", flag.ExitOnError)
	procs := fs.Int("procs", runtime.NumCPU(), "worker processes")
	only := fs.String("scenario", "", "scenario prefix")
	replay := fs.String("replay", "", "replay a violation artefact")
	fs.Parse(args)
	scs := c17Scenarios()
	if fs.NArg() > 0 && fs.Arg(0) == "worker" {
		sched.WorkerMain(scs)
		return 0
	}
	if *replay != "" {
		return sched.ReplayFile("C17", scs, *replay)
	}
	rep := common.NewReport("C17", "model_checking")
	c17Sequential(rep)
	pre, budget, shards := 2, 60.0, 4
	if common.Tier() == "thorough" {
		pre, budget, shards = -1, 1200, 16
	}
	var names []string
	for n := range scs {
		if strings.HasPrefix(n, *only) {
			names = append(names, n)
		}
	}
	sort.Strings(names)
	var jobs []sched.Job
	for _, n := range names {
		for s := 0; s < shards; s++ {
			jobs = append(jobs, sched.Job{Scenario: n, Preempt: pre, Data: -1, ShardI: s, ShardN: shards, BudgetS: budget})
		}
	}
	totalBudget := 60.0
	if common.Tier() == "thorough" {
		totalBudget = 900
	}
	sched.SpreadBudget(jobs, totalBudget, *procs, 15)
	tot := sched.RunAll(rep, jobs, []string{"C17", "worker"}, *procs)
	rep.Set("states", len(tot.Outcomes))
	rep.Set("transitions", int(tot.Steps))
	rep.Set("traces_validated_against_impl", tot.Executions)
	rep.Set("executions", tot.Executions)
	rep.Set("choice_points", int(tot.Points))
	rep.Set("distinct_outcomes", len(tot.Outcomes))
	rep.Set("exhaustive", tot.Exhaustive)
	rep.Set("caps_hit", tot.Caps)
	rep.Set("bound_completed", map[string]any{"preemptions": pre, "note": "-1 = unbounded (all interleavings of the bigcache-call steps)"})
	rep.Set("per_scenario", tot.PerScenario)
	rep.Set("states_note", "states = distinct outcomes (results of every call + final listings); scheduling points are the individual bigcache Get/Set/Delete calls")
	rep.Assume("bigcache calls are atomic steps; life windows do not elapse during an execution")
	rep.Assume("reads are judged by an interval specification (not linearizability against an atomic Save, which the code does not promise)")
	if tot.Diverged > 0 {
		fmt.Fprintf(os.Stderr, "C17: %d executions diverged\n", tot.Diverged)
		rep.Finish()
		return 2
	}
	return rep.Finish()
}

// c17Sequential enumerates every sequential call sequence up to a depth against a map-based reference model.
func c17Sequential(rep *common.Report) {
	depth := 5
	if common.Tier() == "thorough" {
		depth = 6
	}
	stop := common.Deadline(60*time.Second, 6*time.Minute)
	capped := false
	var err error
	c17Cache, err = cache.New(1<<12, 64)
	if err != nil {
		panic(err)
	}
	alphabet := []string{"save:t1", "save:t2", "save:t3", "remove:t1:Rc", "remove:t1:I", "remove:t2:Rc", "remove:t3:I", "read:I", "read:Rc", "balsave:I", "balrm:Rc"}
	seqs, calls := 0, 0
	outcomes := map[string]bool{}
	var rec func(prefix []string)
	run := func(seq []string) {
		c17Cache.VerifReset()
		w := &c17World{txs: c17Txs()}
		present := map[string]bool{}
		var trace []string
		var made []*c17Call
		for _, spec := range seq {
			c := parseCalls(spec)[0]
			w.do(c)
			made = append(made, c)
			calls++
			trace = append(trace, fmt.Sprintf("%s=%v%v", spec, c.ok, c.got))
			switch c.Kind {
			case "save":
				want := !present[c.Tx]
				if c.ok != want {
					rep.Add(common.Violation{Predicate: "C17.seq-model", Key: "C17.seq/save-result-differs", What: fmt.Sprintf("sequence %v: save returned ok=%v, reference says %v (%s)", seq, c.ok, want, c.errStr), Witness: seq})
				}
				if c.ok {
					present[c.Tx] = true
				}
			case "remove":
				recv := "Rc"
				if c.Tx == "t3" {
					recv = "I"
				}
				want := present[c.Tx] && c.By == recv
				if c.ok != want {
					rep.Add(common.Violation{Predicate: "C17.seq-model", Key: "C17.seq/remove-result-differs", What: fmt.Sprintf("sequence %v: remove returned ok=%v, reference says %v (%s)", seq, c.ok, want, c.errStr), Witness: seq})
				}
				if c.ok {
					delete(present, c.Tx)
				}
			case "read":
				var want []string
				for t := range present {
					want = append(want, t) // every transaction of the alphabet involves both I and Rc
				}
				sort.Strings(want)
				if strings.Join(want, ",") != strings.Join(c.got, ",") {
					rep.Add(common.Violation{Predicate: "C17.seq-model", Key: "C17.seq/read-differs", What: fmt.Sprintf("sequence %v: read returned %v, reference says %v", seq, c.got, want), Witness: seq})
				}
			}
		}
		if len(seq) == depth {
			// sequences of full length end with an implicit listing of both parties (not counted in the depth)
			var want []string
			for t := range present {
				want = append(want, t)
			}
			sort.Strings(want)
			for _, who := range []string{"I", "Rc"} {
				c := &c17Call{Kind: "read", By: who}
				w.do(c)
				made = append(made, c)
				calls++
				if strings.Join(want, ",") != strings.Join(c.got, ",") {
					rep.Add(common.Violation{Predicate: "C17.seq-model", Key: "C17.seq/final-listing-differs", What: fmt.Sprintf("sequence %v: afterwards the list of %s is %v, reference says %v", seq, who, c.got, want), Witness: seq})
				}
			}
		}
		if ch := w.changedListings(made); len(ch) > 0 {
			rep.Add(common.Violation{Predicate: "C17.listing-stable", Key: "C17.seq/listing-changed-after-it-was-returned", What: fmt.Sprintf("sequence %v: %s", seq, ch[0]), Witness: seq})
		}
		seqs++
		outcomes[strings.Join(trace, ";")] = true
		if seqs%5000 == 1 && rep.SampleCount() < 3 {
			rep.Sample(map[string]any{"sequential_sequence": seq, "results": trace})
		}
	}
	rec = func(prefix []string) {
		if capped || (seqs%4096 == 0 && time.Now().After(stop)) {
			capped = true
			return
		}
		if len(prefix) > 0 {
			run(prefix)
		}
		if len(prefix) == depth {
			return
		}
		for _, a := range alphabet {
			rec(append(append([]string(nil), prefix...), a))
		}
	}
	rec(nil)
	rep.Set("sequential_sequences", seqs)
	rep.Set("sequential_calls", calls)
	rep.Set("sequential_depth", depth)
	rep.Set("sequential_exhaustive_within_depth", !capped)
	if capped {
		rep.Assume("sequential part: internal deadline hit, not every sequence of the stated depth was run")
	}
	rep.Set("sequential_distinct_outcomes", len(outcomes))
}
