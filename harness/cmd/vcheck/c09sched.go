package main

import (
	"sort"

	"verif.local/harness/common"
	"verif.local/harness/ledger"
	"verif.local/harness/sched"
	"verif.local/harness/world"
	"verif.local/vsched"
)

// SCHED part of C09: the well-formedness invariant after concurrent (duplicate) deliveries and proposals on one node.

func c09Oracle(name string) func(x *sched.X, r *vsched.Result) []common.Violation {
	return func(x *sched.X, r *vsched.Result) []common.Violation {
		var out []common.Violation
		if !r.RootDone {
			out = append(out, common.Violation{Predicate: "C09.completes", Key: "C09.incomplete/" + name, What: name + ": did not complete: " + sched.BlockedSummary(r)})
			return out
		}
		w := x.Vars["w"].(*world.LW)
		for _, v := range ledger.SnapshotOracles(w, w.Nodes[0], "C09") {
			v.What = name + ": " + v.What
			out = append(out, v)
		}
		return out
	}
}

func c09Scenarios() map[string]*sched.Scenario {
	m := map[string]*sched.Scenario{}
	opt := vsched.Options{BranchSched: true, BranchData: true, KeyFunc: world.KeyFunc}
	add := func(name string, ops ...string) {
		m[name] = &sched.Scenario{Name: name, Params: []int{0}, Opt: opt, Body: c03BodyOpt(ops, false), Oracle: c09Oracle(name),
			Setup:       func() { world.GetNodes("G") },
			Interesting: func(x *sched.X, r *vsched.Result) bool { return true }}
	}
	add("add||add-same-vertex||create-other", "add1", "add1", "createX")
	add("add||add-two-sealers||create-other", "add1", "add2", "createX")
	add("create||add||create-other", "create", "add1", "createX")
	return m
}

func c09SchedRun(rep *common.Report, procs int) (bool, int) {
	scs := c09Scenarios()
	pre, sd, shards := 1, 2, 8
	if common.Tier() == "thorough" {
		pre, sd, shards = 3, 4, 16
	}
	var names []string
	for n := range scs {
		names = append(names, n)
	}
	sort.Strings(names)
	var jobs []sched.Job
	for _, n := range names {
		for s := 0; s < shards; s++ {
			jobs = append(jobs, sched.Job{Scenario: n, Preempt: pre, Data: 1, Sched: sd, ShardI: s, ShardN: shards})
		}
	}
	totalBudget := 60.0
	if common.Tier() == "thorough" {
		totalBudget = 900
	}
	sched.SpreadBudget(jobs, totalBudget, procs, 20)
	tot := sched.RunAll(rep, jobs, []string{"C09", "schedworker"}, procs)
	rep.Set("sched_executions", tot.Executions)
	rep.Set("sched_distinct_outcomes", len(tot.Outcomes))
	rep.Set("sched_exhaustive_within_bound", tot.Exhaustive)
	rep.Set("sched_caps_hit", tot.Caps)
	rep.Set("sched_bound", map[string]any{"preemptions": pre, "schedule_deviations": sd, "data_deviations": 1})
	rep.Set("sched_per_scenario", tot.PerScenario)
	return tot.Exhaustive, tot.Diverged
}
