package main

import (
	"context"
	"fmt"
	"sort"

	"github.com/bartossh/Computantis/src/spice"
	"verif.local/harness/common"
	"verif.local/harness/ledger"
	"verif.local/harness/sched"
	"verif.local/harness/world"
	"verif.local/vsched"
)

// SCHED part of C07: truncation racing with proposals, gossip and reads on one node.

func c07Body(ops []string) func(x *sched.X) {
	return func(x *sched.X) {
		vsched.Quiet(true)
		w := c08World("chain6", "G")
		x.Vars["w"] = w
		pre := w.Nodes[0].Book.VerifSnapshot()
		x.Vars["pre"] = len(pre.Vertices)
		vsched.Quiet(false)
		res := make([]string, len(ops))
		var hs []*vsched.Handle
		for i, op := range ops {
			i, op := i, op
			hs = append(hs, vsched.GoClient(fmt.Sprintf("T%d", i), func() {
				if op == "balance" {
					// the answer itself is judged: A holds 6 in the chain, every concurrent create/add pays it 1 more
					b, err := w.Nodes[0].Book.CalculateBalance(context.Background(), world.Cast("A").Addr)
					res[i] = "balance=" + world.ErrClass(err)
					if err == nil {
						x.Vars["balance"] = b.Spice
					} else {
						x.Vars["balance-err"] = err.Error()
					}
					return
				}
				res[i] = c08Op(w, op, context.Background())
			}))
		}
		vsched.Join(hs...)
		vsched.Settle()
		vsched.Quiet(true)
		x.Obs = append(x.Obs, res...)
		post := w.Nodes[0].Book.VerifSnapshot()
		x.Obsf("live=%d stored=%d", len(post.Vertices), len(post.Stored))
		x.Vars["stored"] = len(post.Stored)
	}
}

func c07Oracle(name string, ops []string) func(x *sched.X, r *vsched.Result) []common.Violation {
	return func(x *sched.X, r *vsched.Result) []common.Violation {
		var out []common.Violation
		if !r.RootDone {
			out = append(out, common.Violation{Predicate: "C07.completes", Key: "C07.incomplete/" + name, What: name + ": did not complete: " + sched.BlockedSummary(r)})
			return out
		}
		w := x.Vars["w"].(*world.LW)
		if b, ok := x.Vars["balance"].(spice.Melange); ok {
			payers := 0
			for _, op := range ops {
				if op == "create" || op == "add" {
					payers++
				}
			}
			if b.SupplementaryCurrency != 0 || b.Currency < 6 || b.Currency > uint64(6+payers) {
				out = append(out, common.Violation{Predicate: "C07.balances", Key: "C07.balance-changed-by-racing-truncation",
					What: fmt.Sprintf("%s: a balance query racing the truncation answered %d.%018d for a wallet that holds 6 (plus at most %d concurrent payments of 1)", name, b.Currency, b.SupplementaryCurrency, payers)})
			}
		}
		if e, ok := x.Vars["balance-err"].(string); ok {
			out = append(out, common.Violation{Predicate: "C07.balances", Key: "C07.balance-query-failed-while-truncating", What: name + ": the balance query racing the truncation failed: " + e})
		}
		for _, v := range ledger.SnapshotOracles(w, w.Nodes[0], "C07", "C03", "C09") {
			v.What = name + ": " + v.What
			if v.Property != "C07" {
				v.Key = "C07/" + v.Key
			}
			out = append(out, v)
		}
		return out
	}
}

func c07Scenarios() map[string]*sched.Scenario {
	m := map[string]*sched.Scenario{}
	opt := vsched.Options{BranchSched: true, BranchData: true, KeyFunc: world.KeyFunc}
	add := func(name string, ops ...string) {
		m[name] = &sched.Scenario{Name: name, Params: []int{0}, Opt: opt, Body: c07Body(ops), Oracle: c07Oracle(name, ops),
			Setup:       func() { world.GetNodes("G") },
			Interesting: func(x *sched.X, r *vsched.Result) bool { n, _ := x.Vars["stored"].(int); return n > 0 }}
	}
	add("truncate||create", "truncate", "create")
	add("truncate||add", "truncate", "add")
	add("truncate||create||balance", "truncate", "create", "balance")
	add("truncate||balance", "truncate", "balance")
	add("truncate||truncate", "truncate", "truncate")
	add("truncate||add||create", "truncate", "add", "create")
	return m
}

func c07SchedRun(rep *common.Report, procs int) (bool, int) {
	scs := c07Scenarios()
	pre, sd, budget, shards := 1, 2, 45.0, 4
	if common.Tier() == "thorough" {
		pre, sd, budget, shards = 2, 3, 900, 16
	}
	var names []string
	for n := range scs {
		names = append(names, n)
	}
	sort.Strings(names)
	var jobs []sched.Job
	for _, n := range names {
		for s := 0; s < shards; s++ {
			jobs = append(jobs, sched.Job{Scenario: n, Preempt: pre, Data: 1, Sched: sd, ShardI: s, ShardN: shards, BudgetS: budget})
		}
	}
	totalBudget := 40.0
	if common.Tier() == "thorough" {
		totalBudget = 600
	}
	sched.SpreadBudget(jobs, totalBudget, procs, 15)
	tot := sched.RunAll(rep, jobs, []string{"C07", "schedworker"}, procs)
	rep.Set("sched_executions", tot.Executions)
	rep.Set("sched_executions_with_checkpoint", tot.Interesting)
	rep.Set("sched_distinct_outcomes", len(tot.Outcomes))
	rep.Set("sched_exhaustive_within_bound", tot.Exhaustive)
	rep.Set("sched_caps_hit", tot.Caps)
	rep.Set("sched_bound", map[string]any{"preemptions": pre, "schedule_deviations": sd, "data_deviations": 1})
	rep.Set("sched_per_scenario", tot.PerScenario)
	return tot.Exhaustive, tot.Diverged
}
