package main

import (
	"context"
	"flag"
	"fmt"
	"os"
	"runtime"
	"sort"
	"strings"

	"verif.local/harness/common"
	"verif.local/harness/sched"
	"verif.local/harness/world"
	"verif.local/vsched"
)

func init() { checks["C18"] = c18Main }

// c18Client performs one client role against the world.
func c18Client(w *world.LW, role string) {
	R, A, M := world.Cast("R"), world.Cast("A"), world.Cast("M")
	ctx := context.Background()
	b := w.Nodes[0].Book
	switch role {
	case "orphan": // child before parent: the child is parked, the parent admitted, the retry loop admits the child
		tip, wt := c08Tip[w].hash, c08Tip[w].weight // recorded by the set-up phase (no snapshot in the middle of concurrent admissions)
		m1 := w.Craft(M, w.Tx("c18-m1", R, A, 1, 0), tip, tip, wt+1)
		m2 := w.Craft(M, w.Tx("c18-m2", R, A, 1, 0), m1.Hash, m1.Hash, wt+2)
		w.Deliver(ctx, 0, m2)
		w.Deliver(ctx, 0, m1)
	case "create":
		w.Propose(ctx, 0, w.Tx("c18-create", R, A, 1, 0))
	case "balance":
		b.CalculateBalance(ctx, A.Addr)
	case "history":
		b.ReadDAGTransactionsByAddress(ctx, A.Addr)
	case "readvertex":
		// look-up by hash of the oldest vertices: served from the live graph without the ledger lock
		b.ReadVertex(ctx, w.Genesis.Hash)
		b.ReadVertex(ctx, c08Tip[w].hash)
	case "readtrx":
		b.ReadTransactionByHash(ctx, w.Genesis.Transaction.Hash)
	case "stream":
		ch := b.StreamDAG(ctx)
		for {
			v, ok := vsched.Recv2(ch)
			if !ok || v == nil {
				break
			}
		}
	case "tick":
		for i := 0; i < 2; i++ {
			for _, tk := range vsched.Tickers() {
				if tk.D.Seconds() == 2 && !tk.Stopped {
					tk.Fire()
				}
			}
			vsched.Op("tick-pause", "", nil)
		}
	case "truncate":
		b.VerifTruncate(ctx)
	case "loaded":
		b.DagLoaded()
	}
}

func c18Body(roles []string) func(x *sched.X) {
	return func(x *sched.X) {
		vsched.Quiet(true)
		w := c08World("chain4", "G")
		vsched.Quiet(false)
		var hs []*vsched.Handle
		for i, role := range roles {
			role := role
			hs = append(hs, vsched.GoClient(fmt.Sprintf("%s%d", role, i), func() { c18Client(w, role) }))
		}
		vsched.Join(hs...)
		vsched.Settle()
		x.Obsf("done")
	}
}

// c18TriggerBody: the REAL truncation trigger (weight signal -> runTruncate daemon, threshold scaled to 4) running
// while clients keep proposing, delivering and reading: the daemon's own bookkeeping is part of the workload.
func c18TriggerBody(roles []string) func(x *sched.X) {
	return func(x *sched.X) {
		vsched.Quiet(true)
		nd := world.GetNodes("G")
		w := world.NewLW(nd, sp(100, 0), 4)
		R, A := world.Cast("R"), world.Cast("A")
		ctx := context.Background()
		for i := 0; i < 5; i++ {
			if _, err := w.Propose(ctx, 0, w.Tx(fmt.Sprintf("s%d", i), R, A, 1, 0)); err != nil {
				panic(err)
			}
			vsched.Settle()
		}
		snap := nd[0].Book.VerifSnapshot()
		for k := range c08Tip {
			delete(c08Tip, k)
		}
		for _, v := range snap.Vertices {
			if len(snap.Leaves) > 0 && v.Hash == snap.Leaves[0] {
				c08Tip[w] = c08TipT{hash: v.Hash, weight: v.Weight}
			}
		}
		vsched.Quiet(false)
		var hs []*vsched.Handle
		for i, role := range roles {
			role := role
			hs = append(hs, vsched.GoClient(fmt.Sprintf("%s%d", role, i), func() {
				if role == "create3" {
					// three proposals in a row: the weight passes the threshold, the daemon truncates in between
					for k := 0; k < 3; k++ {
						w.Propose(ctx, 0, w.Tx(fmt.Sprintf("c18-u%d", k), R, A, 1, 0))
					}
					return
				}
				c18Client(w, role)
			}))
		}
		vsched.Join(hs...)
		vsched.Settle()
		post := nd[0].Book.VerifSnapshot()
		x.Obsf("done stored=%d", len(post.Stored))
	}
}

func raceKey(r vsched.Race) string {
	loc := strings.TrimSuffix(strings.TrimSuffix(r.Loc, "(struct copy)"), "(handed to uninstrumented code)")
	s := []string{r.A, r.B}
	sort.Strings(s)
	return fmt.Sprintf("C18.race/%s/%s|%s", loc, s[0], s[1])
}

func c18Oracle(name string) func(x *sched.X, r *vsched.Result) []common.Violation {
	return func(x *sched.X, r *vsched.Result) []common.Violation {
		var out []common.Violation
		for _, rc := range r.Races {
			kind := func(w bool) string {
				if w {
					return "write"
				}
				return "read"
			}
			out = append(out, common.Violation{Predicate: "C18.hb", Key: raceKey(rc),
				What: fmt.Sprintf("%s: %s in %s and %s in %s on %s are not ordered by happens-before", name, kind(rc.AWrite), rc.A, kind(rc.BWrite), rc.B, rc.Loc)})
		}
		if !r.RootDone {
			out = append(out, common.Violation{Predicate: "C18.completes", Key: "C18.incomplete/" + name, What: "workload did not complete: " + sched.BlockedSummary(r)})
		}
		return out
	}
}

func c18Scenarios() map[string]*sched.Scenario {
	m := map[string]*sched.Scenario{}
	opt := vsched.Options{BranchSched: true, BranchData: false, KeyFunc: world.KeyFunc, TrackHB: true}
	add := func(name string, roles ...string) {
		m[name] = &sched.Scenario{Name: name, Params: []int{0}, Opt: opt, Body: c18Body(roles), Oracle: c18Oracle(name),
			Setup:       func() { world.GetNodes("G") },
			Interesting: func(x *sched.X, r *vsched.Result) bool { return true }}
	}
	add("S1/orphan+tick", "orphan", "tick")
	add("S2/create+balance+tick", "create", "balance", "tick")
	add("S3/stream+create+orphan", "stream", "create", "orphan")
	add("S4/truncate+create+balance", "truncate", "create", "balance")
	add("S5/orphan+create+readtrx+history", "orphan", "create", "readtrx", "history")
	add("S6/orphan+tick+create+stream+loaded", "orphan", "tick", "create", "stream", "loaded")
	add("S9/truncate+readvertex+stream", "truncate", "readvertex", "stream")
	add("S10/balance+balance+history+readtrx", "balance", "balance", "history", "readtrx")
	addTrig := func(name string, roles ...string) {
		m[name] = &sched.Scenario{Name: name, Params: []int{0}, Opt: opt, Body: c18TriggerBody(roles), Oracle: c18Oracle(name),
			Setup:       func() { world.GetNodes("G") },
			Interesting: func(x *sched.X, r *vsched.Result) bool { return true }}
	}
	addTrig("S7/real-truncation-trigger+create3+create", "create3", "create")
	addTrig("S8/real-truncation-trigger+create3+orphan+balance", "create3", "orphan", "balance")
	addFull := func(name string, pre []string, roles ...string) {
		m[name] = &sched.Scenario{Name: name, Params: []int{0}, Opt: opt, Body: c18FullBody(pre, roles), Oracle: c18Oracle(name),
			Setup:       func() { world.GetFullNodes("G", "N1") },
			Interesting: func(x *sched.X, r *vsched.Result) bool { return true }}
	}
	addFull("F1/gossip-child-before-parent+propose", nil, "gvrx1", "gvrx0", "npropose")
	addFull("F2/gossip-trx+contract-vertex+own-contract", []string{"gvrx0", "gvrx1"}, "gtrx", "gvrx2", "ncontract")
	addFull("F3/gossip-trx+confirm+reads", []string{"gvrx0", "gvrx1"}, "gtrx", "nconfirm", "nbalance", "nhistory")
	addFull("F4/orphan-fetch+getvertex+propose", nil, "gvrx2", "ngetvertex", "npropose")
	addFull("F5/two-proposals-back-to-back+two-contracts-back-to-back", []string{"gvrx0", "gvrx1"}, "npropose2", "ncontract2")
	return m
}

func c18Main(args []string) int {
	fs := flag.NewFlagSet("C18", flag.ExitOnError)
	procs := fs.Int("procs", runtime.NumCPU(), "worker processes")
	only := fs.String("scenario", "", "scenario prefix")
	replay := fs.String("replay", "", "replay a violation artefact")
	fs.Parse(args)
	scs := c18Scenarios()
	if fs.NArg() > 0 && fs.Arg(0) == "worker" {
		sched.WorkerMain(scs)
		return 0
	}
	if *replay != "" {
		return sched.ReplayFile("C18", scs, *replay)
	}
	rep := common.NewReport("C18", "model_checking")
	pre, sd, budget, shards := 1, 2, 60.0, 4
	if common.Tier() == "thorough" {
		pre, sd, budget, shards = 2, 3, 900, 16
	}
	var names []string
	for n := range scs {
		if strings.HasPrefix(n, *only) {
			names = append(names, n)
		}
	}
	sort.Strings(names)
	var jobs []sched.Job
	for _, n := range names {
		for s := 0; s < shards; s++ {
			d := sd
			if (strings.HasPrefix(n, "S6") || strings.HasPrefix(n, "F3")) && common.Tier() != "thorough" {
				d = 1 // five clients: one schedule deviation in the quick tier
			}
			jobs = append(jobs, sched.Job{Scenario: n, Preempt: pre, Data: 0, Sched: d, ShardI: s, ShardN: shards, BudgetS: budget})
		}
	}
	totalBudget := 60.0
	if common.Tier() == "thorough" {
		totalBudget = 1200
	}
	sched.SpreadBudget(jobs, totalBudget, *procs, 35)
	tot := sched.RunAll(rep, jobs, []string{"C18", "worker"}, *procs)
	rep.Set("states", len(tot.Outcomes))
	rep.Set("transitions", int(tot.Steps))
	rep.Set("traces_validated_against_impl", tot.Executions)
	rep.Set("executions", tot.Executions)
	rep.Set("choice_points", int(tot.Points))
	rep.Set("exhaustive", tot.Exhaustive)
	rep.Set("caps_hit", tot.Caps)
	rep.Set("bound_completed", map[string]any{"preemptions": pre, "schedule_deviations": sd})
	rep.Set("per_scenario", tot.PerScenario)
	rep.Set("detector", "vector-clock happens-before over spawn, Mutex/RWMutex, channel, WaitGroup, atomic and (conservatively) per-object library-call edges; accesses = struct fields of the instrumented packages (maps and slices as one location per field), value-receiver calls = read of every field, package-level variables that any function mutates, local variables captured by a goroutine literal, slice elements / append / copy targets, byte slices and pointers to module structs handed to uninstrumented or dynamic callees (= read of the content / of every field of the pointee)")
	rep.Assume("this is the explorer's own happens-before detector, exhaustive over the explored schedules, not the Go race detector over random seeds; it sees struct fields, mutated package-level variables and goroutine-captured locals of the instrumented packages and may miss races through pointers to locals handed to other functions or on memory only uninstrumented code touches")
	rep.Assume("every call on the same badger/bigcache object is treated as ordered (conservative: excludes false alarms)")
	if tot.Diverged > 0 {
		fmt.Fprintf(os.Stderr, "C18: %d executions diverged\n", tot.Diverged)
		rep.Finish()
		return 2
	}
	return rep.Finish()
}
