package main

import (
	"encoding/json"
	"flag"
	"fmt"
	"os"
	"runtime"
	"time"
	"verif.local/harness/sched"

	"verif.local/harness/common"
	"verif.local/harness/gnet"
	"verif.local/harness/space"
	"verif.local/harness/world"
)

func init() {
	checks["C11"] = func(a []string) int { return gossipMain("C11", a) }
	checks["C12"] = func(a []string) int { return gossipMain("C12", a) }
}

type gRun struct {
	name  string
	cfg   gnet.Cfg
	depth int
}

func e2(a, b string) [2]string { return [2]string{a, b} }

// connected graphs up to isomorphism on 2, 3 and 4 labelled nodes (G, N1, N2, N3)
var topologies = map[string][][2]string{
	"pair":      {e2("G", "N1")},
	"path3":     {e2("G", "N1"), e2("N1", "N2")},
	"triangle":  {e2("G", "N1"), e2("N1", "N2"), e2("G", "N2")},
	"path4":     {e2("G", "N1"), e2("N1", "N2"), e2("N2", "N3")},
	"star4":     {e2("G", "N1"), e2("G", "N2"), e2("G", "N3")},
	"cycle4":    {e2("G", "N1"), e2("N1", "N2"), e2("N2", "N3"), e2("N3", "G")},
	"paw4":      {e2("G", "N1"), e2("N1", "N2"), e2("G", "N2"), e2("N2", "N3")},
	"diamond4":  {e2("G", "N1"), e2("N1", "N2"), e2("N2", "N3"), e2("N3", "G"), e2("G", "N2")},
	"complete4": {e2("G", "N1"), e2("G", "N2"), e2("G", "N3"), e2("N1", "N2"), e2("N1", "N3"), e2("N2", "N3")},
}

var topoNodes = map[string][]string{
	"pair": {"G", "N1"}, "path3": {"G", "N1", "N2"}, "triangle": {"G", "N1", "N2"},
	"path4": {"G", "N1", "N2", "N3"}, "star4": {"G", "N1", "N2", "N3"}, "cycle4": {"G", "N1", "N2", "N3"},
	"paw4": {"G", "N1", "N2", "N3"}, "diamond4": {"G", "N1", "N2", "N3"}, "complete4": {"G", "N1", "N2", "N3"},
}

func gossipRuns(id, tier string) []gRun {
	var out []gRun
	if id == "C11" {
		topos := []string{"pair", "path3", "triangle", "cycle4"}
		items := []string{"vertex", "two-vertices", "trx"}
		if tier == "thorough" {
			topos = []string{"pair", "path3", "triangle", "path4", "star4", "cycle4", "paw4", "diamond4", "complete4"}
		}
		for _, t := range topos {
			for _, origin := range topoNodes[t] {
				if len(topoNodes[t]) <= 3 && (t != "triangle" || tier == "thorough") {
					// an awaiting contract that gets confirmed at the origin at any moment of its dissemination: the sealing
					// vertex overtakes, or is overtaken by, (duplicates of) the transaction messages
					out = append(out, gRun{fmt.Sprintf("%s/origin=%s/trx-settled", t, origin),
						gnet.Cfg{Nodes: topoNodes[t], Edges: topologies[t], Origin: origin, Items: "trx-settled", Dup: true, SyncRPC: true, Prop: "C11"}, 40})
				}
				if len(topoNodes[t]) <= 3 && t != "triangle" {
					// a dependent pair followed, once everything has settled, by a third vertex from the same origin
					// (synchronous RPCs: what a sender does with the receiver's answer shows in the later item)
					out = append(out, gRun{fmt.Sprintf("%s/origin=%s/pair-then-third", t, origin),
						gnet.Cfg{Nodes: topoNodes[t], Edges: topologies[t], Origin: origin, Items: "pair-then-third", SyncRPC: true, Prop: "C11"}, 40})
				}
				if len(topoNodes[t]) <= 3 && t != "triangle" {
					// two vertices proposed back to back at the origin: both are queued before the origin's gossip loop runs
					out = append(out, gRun{fmt.Sprintf("%s/origin=%s/two-vertices-burst", t, origin),
						gnet.Cfg{Nodes: topoNodes[t], Edges: topologies[t], Origin: origin, Items: "two-vertices-burst", SyncRPC: true, Prop: "C11"}, 40})
				}
				for _, it := range items {
					dup := len(topoNodes[t]) <= 3
					// the duplicate-suppression window may lapse once per node on the cyclic 4-node graphs (single vertex item)
					expire := it == "vertex" && (t == "cycle4" || t == "diamond4" || t == "triangle")
					out = append(out, gRun{fmt.Sprintf("%s/origin=%s/%s", t, origin, it),
						gnet.Cfg{Nodes: topoNodes[t], Edges: topologies[t], Origin: origin, Items: it, Dup: dup, Expire: expire, SyncRPC: true, Prop: "C11"}, 40})
				}
			}
		}
		return out
	}
	// C12: one malicious relay at every non-origin position
	masks := []int{0, 1, 2, 4, 8, 16, 32, 63}
	topos := []string{"path3", "triangle", "cycle4"}
	if tier == "thorough" {
		masks = nil
		for i := 0; i < 64; i++ {
			masks = append(masks, i)
		}
		topos = []string{"path3", "triangle", "path4", "cycle4", "paw4"}
	}
	for _, t := range topos {
		for _, origin := range topoNodes[t] {
			for _, adv := range topoNodes[t] {
				if adv == origin || adv == "G" {
					continue // the genesis node hosts the ledger origin; adversary at every other position
				}
				for _, it := range []string{"vertex", "trx"} {
					if t == "cycle4" && tier != "thorough" {
						continue // quick tier: the 4-cycle is only used for the two-item replay runs below
					}
					out = append(out, gRun{fmt.Sprintf("%s/origin=%s/adv=%s/%s", t, origin, adv, it),
						gnet.Cfg{Nodes: topoNodes[t], Edges: topologies[t], Origin: origin, Items: it, Adversary: adv, Masks: masks, Prop: "C12"}, 40})
				}
				// bait: before relaying, the adversary may send a neighbour a vertex of its own that names the item's hash as
				// parent, and later present the signature of the neighbour's parent-fetch request as a gossiper entry
				if t == "triangle" || t == "paw4" || (t == "cycle4" && tier == "thorough") {
					for _, it := range []string{"vertex", "trx"} {
						out = append(out, gRun{fmt.Sprintf("%s/origin=%s/adv=%s/%s+bait", t, origin, adv, it),
							gnet.Cfg{Nodes: topoNodes[t], Edges: topologies[t], Origin: origin, Items: it, Adversary: adv, Masks: []int{0, 128}, Bait: true, Prop: "C12"}, 40})
					}
				}
				// two items in a row: the adversary may replay, on the second item, genuine entries it has seen on the first
				if t == "triangle" || t == "cycle4" {
					out = append(out, gRun{fmt.Sprintf("%s/origin=%s/adv=%s/two-vertices+replay", t, origin, adv),
						gnet.Cfg{Nodes: topoNodes[t], Edges: topologies[t], Origin: origin, Items: "then-second", Adversary: adv, Masks: []int{0, 64}, Prop: "C12"}, 60})
				}
			}
		}
	}
	return out
}

func gossipMain(id string, args []string) int {
	fs := flag.NewFlagSet(id, flag.ExitOnError)
	procs := fs.Int("procs", runtime.NumCPU(), "worker processes")
	run := fs.String("run", "", "only this run")
	replay := fs.String("replay", "", "replay a violation file")
	fs.Parse(args)
	runs := gossipRuns(id, common.Tier())
	if id == "C11" && fs.NArg() >= 1 && fs.Arg(0) == "schedworker" {
		sched.WorkerMain(c11Scenarios())
		return 0
	}
	if id == "C11" && *replay != "" && isSchedReplay(*replay) {
		return sched.ReplayFile("C11", c11Scenarios(), *replay)
	}
	if *replay != "" {
		// the run may belong to the other tier's list
		seen := map[string]bool{}
		var all []gRun
		for _, t := range []string{"quick", "thorough"} {
			for _, r := range gossipRuns(id, t) {
				if !seen[r.name] {
					seen[r.name] = true
					all = append(all, r)
				}
			}
		}
		return gossipReplay(id, all, *replay)
	}
	if fs.NArg() >= 1 && fs.Arg(0) == "worker" {
		space.Opt.KeyFunc = world.KeyFunc
		space.WorkerMainMulti(func(tag string) space.Model {
			for _, r := range runs {
				if r.name == tag {
					return gnet.New(r.cfg)
				}
			}
			return nil
		})
		return 0
	}
	rep := common.NewReport(id, "model_checking")
	deadline := common.Deadline(240*time.Second, 30*time.Minute)
	total := &space.Stats{Exhaustive: true, Counters: map[string]int{}, PerKind: map[string]int{}, Results: map[string]int{}}
	perRun := map[string]any{}
	terminated := 0
	pool := space.NewPool([]string{id, "worker"}, *procs)
	defer pool.Close()
	for _, r := range runs {
		if *run != "" && r.name != *run {
			continue
		}
		frep := &filterRep{rep: rep, id: id, run: r.name}
		st := space.SearchP(pool, r.name, frep.add, rep.Sample, r.depth, deadline, 200)
		term := st.Exhaustive && st.FrontierLeft == 0
		if term {
			terminated++
		}
		perRun[r.name] = map[string]any{"states": st.States, "transitions": st.Transitions, "max_depth": st.MaxDepth, "all_paths_quiesce": term, "cap_hit": st.CapHit, "counters": st.Counters}
		total.States += st.States
		total.Transitions += st.Transitions
		total.Executions += st.Executions
		total.Events += st.Events
		total.Blocked += st.Blocked
		total.Diverged += st.Diverged
		total.Unconfirmed = append(total.Unconfirmed, st.Unconfirmed...)
		if st.DepthDone > total.DepthDone {
			total.DepthDone = st.DepthDone
		}
		if !term {
			total.Exhaustive = false
			total.CapHit += r.name + ": " + st.CapHit + fmt.Sprintf(" (frontier %d); ", st.FrontierLeft)
			if st.Exhaustive && st.FrontierLeft > 0 {
				rep.Add(common.Violation{Predicate: id + ".terminates", Key: id + ".no-quiescence-within-depth", What: fmt.Sprintf("run %s: %d states still have pending messages at depth %d", r.name, st.FrontierLeft, r.depth)})
			}
		}
		for k, v := range st.Counters {
			total.Counters[k] += v
		}
		for k, v := range st.PerKind {
			total.PerKind[k] += v
		}
		for k, v := range st.Results {
			total.Results[k] += v
		}
	}
	space.FillEvidence(rep, total)
	if id == "C11" && (*run == "" || *run == "sched") {
		pool.Close()
		ex, div := schedPart(rep, "C11", c11Scenarios(), *procs, 0)
		if !ex {
			rep.Set("sched_note", "SCHED part (first hop) capped; the SPACE part is unaffected")
		}
		total.Diverged += div
	}
	rep.Set("runs", perRun)
	rep.Set("runs_total", len(perRun))
	rep.Set("runs_in_which_every_path_reaches_quiescence", terminated)
	rep.Assume("a gossip RPC is fire-and-forget (the sender only logs the reply); GetVertex issued while fetching a missing parent is one atomic step against the peer's real handler")
	rep.Assume("per-peer sender goroutines and missing-parent tasks run eagerly to quiescence inside the event that spawned them")
	rep.Assume("flashback / awaiting life windows do not elapse by themselves; on the cyclic topologies (single-vertex item) each node's duplicate-suppression window may lapse once, as an explicit event")
	if total.Diverged > 0 {
		rep.Finish()
		return 2
	}
	return rep.Finish()
}

// gossipReplay re-executes the event path of a violation artefact twice on the current tree.
func gossipReplay(id string, runs []gRun, path string) int {
	b, err := os.ReadFile(path)
	if err != nil {
		fmt.Fprintln(os.Stderr, err)
		return 2
	}
	var v struct {
		Key     string
		Witness struct {
			Run     string   `json:"run"`
			Path    []string `json:"path"`
			Choices []int    `json:"choices"`
		}
	}
	if err := json.Unmarshal(b, &v); err != nil {
		fmt.Fprintln(os.Stderr, err)
		return 2
	}
	for _, r := range runs {
		if r.name != v.Witness.Run {
			continue
		}
		space.Opt.KeyFunc = world.KeyFunc
		m := gnet.New(r.cfg)
		m.Setup()
		var keys []string
		found := false
		for k := 0; k < 2; k++ {
			res := space.Expand(m, space.Job{Path: v.Witness.Path, Choices: v.Witness.Choices, Replay: true})
			if res.Err != "" {
				fmt.Println("replay failed:", res.Err)
				return 2
			}
			keys = append(keys, res.Succs[0].Key)
			for _, vv := range res.Violations {
				fmt.Printf("replay %d: %s: %s\n", k, vv.Key, vv.What)
				if vv.Key == v.Key || id+"/"+vv.Key == v.Key {
					found = true
				}
			}
		}
		if keys[0] != keys[1] {
			fmt.Println("replay is not deterministic")
			return 2
		}
		if os.Getenv("VERIF_TRACE") != "" {
			fmt.Println(m.Describe())
		}
		if found {
			fmt.Printf("VIOLATION property=%s replay=%s\n", id, path)
			return 1
		}
		fmt.Println("violation did not reproduce on the current tree")
		return 0
	}
	fmt.Fprintln(os.Stderr, "run not found:", v.Witness.Run)
	return 2
}
