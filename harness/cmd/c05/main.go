// c05 decides property C05 — "Spice arithmetic is exact, atomic and accepts only
// canonical amounts" — by exhaustive product enumeration (PRODUCT driver) of a
// declared boundary alphabet over the real spice.New / Supply / Transfer / Drain,
// followed by chaining to op sequences of length 3 from the non-initial pair
// states the product reaches. The only hand-written model is RefSpice: math/big
// arithmetic over value = currency*10^18 + supplementary.
//
// usage (through bin/check): vcheck C05 [--replay <file>]
package main

import (
	"encoding/json"
	"errors"
	"fmt"
	"math"
	"math/big"
	"os"
	"runtime"
	"sort"
	"strconv"
	"sync"
	"sync/atomic"
	"time"

	"github.com/bartossh/Computantis/src/spice"
	"verif.local/harness/common"
)

// M is the type under test.
type M = spice.Melange

const (
	e18  = uint64(spice.MaxAmountPerSupplementaryCurrency)
	maxU = uint64(math.MaxUint64)
)

var (
	bigE18 = new(big.Int).SetUint64(e18)
	// bigLim = 2^64 * 10^18: every value below it has exactly one canonical representation.
	bigLim = new(big.Int).Mul(new(big.Int).Lsh(big.NewInt(1), 64), bigE18)
)

func canon(m M) bool { return m.SupplementaryCurrency < e18 }

// ---------------------------------------------------------------------------
// alphabet

type nv struct {
	v    uint64
	name string
}

func valueSet(tier string) []nv {
	vs := []nv{{0, "0"}, {1, "1"}, {e18 - 1, "10^18-1"}, {e18, "10^18"}, {e18 + 1, "10^18+1"}, {1 << 63, "2^63"},
		{maxU - e18 + 1, "2^64-10^18"}, {maxU - 1, "2^64-2"}, {maxU, "2^64-1"}}
	if tier == "thorough" {
		vs = append(vs, nv{2, "2"}, nv{e18 - 2, "10^18-2"}, nv{1<<63 - 1, "2^63-1"}, nv{maxU - e18, "2^64-10^18-1"},
			nv{maxU - e18 + 2, "2^64-10^18+1"},
			// three further neighbours: the second-carry boundary of the supplementary part and 2^63+1
			nv{2*e18 - 1, "2*10^18-1"}, nv{2 * e18, "2*10^18"}, nv{1<<63 + 1, "2^63+1"})
	}
	sort.Slice(vs, func(i, j int) bool { return vs[i].v < vs[j].v })
	for i := 1; i < len(vs); i++ {
		if vs[i].v == vs[i-1].v {
			panic("duplicate value in alphabet")
		}
	}
	return vs
}

// chainValueSet is the reduced alphabet for the amounts of the 2nd and 3rd op of a chain (a subset of valueSet).
func chainValueSet(tier string) []nv {
	if tier == "thorough" {
		return []nv{{0, "0"}, {1, "1"}, {e18 - 1, "10^18-1"}, {e18, "10^18"}, {e18 + 1, "10^18+1"}, {maxU, "2^64-1"}}
	}
	return []nv{{0, "0"}, {1, "1"}, {e18 - 1, "10^18-1"}, {e18, "10^18"}, {maxU, "2^64-1"}}
}

var symNames = map[uint64]string{}

func sym(u uint64) string {
	if s, ok := symNames[u]; ok {
		return s
	}
	return strconv.FormatUint(u, 10)
}

func mstr(m M) string { return "{" + sym(m.Currency) + ", " + sym(m.SupplementaryCurrency) + "}" }

func mj(m M) map[string]any {
	return map[string]any{"cur": strconv.FormatUint(m.Currency, 10), "supp": strconv.FormatUint(m.SupplementaryCurrency, 10), "sym": mstr(m)}
}

func mFromJSON(v any) (M, error) {
	o, ok := v.(map[string]any)
	if !ok {
		return M{}, errors.New("not an object")
	}
	c, err1 := strconv.ParseUint(fmt.Sprint(o["cur"]), 10, 64)
	s, err2 := strconv.ParseUint(fmt.Sprint(o["supp"]), 10, 64)
	if err1 != nil || err2 != nil {
		return M{}, errors.New("bad cur/supp")
	}
	return M{Currency: c, SupplementaryCurrency: s}, nil
}

// ---------------------------------------------------------------------------
// finding keys: predicate × op × error class × structural cause (no concrete numbers)

const (
	pSuccNCAmount = iota // success although the amount is not canonical
	pSuccNCSide          // success although a side (from/to/receiver) is not canonical
	pCreated             // success, total value after > expected
	pDestroyed           // success, total value after < expected
	pWrongAmount         // success, total conserved but moved amount != requested
	pNCResult            // success, a result is not canonical
	pNotAtomic           // failure, but a side changed
	pSpurious            // failure although the reference says the op is possible
	pDrainDiffers        // Drain(a, sink) != Transfer(a, m, sink)
	pNewWrap             // New lost value (wrap-around)
	pNewNC               // New returned a non-canonical result for a representable value
	nPred
)

var predName = [nPred]string{"success-noncanonical-amount", "success-noncanonical-side", "value-created", "value-destroyed",
	"wrong-amount", "noncanonical-result", "not-atomic", "spurious-failure", "drain-differs", "new-wrap", "new-noncanonical"}

const (
	opNew = iota
	opSupply
	opTransfer
	opDrain
	nOp
)

var opName = [nOp]string{"New", "Supply", "Transfer", "Drain"}

const (
	ecNone = iota
	ecOverflow
	ecInsufficient
	ecOther
	nEC
)

var ecName = [nEC]string{"", "overflow", "insufficient", "other-error"}

func errClass(err error) uint8 {
	switch {
	case err == nil:
		return ecNone
	case errors.Is(err, spice.ErrValueOverflow):
		return ecOverflow
	case errors.Is(err, spice.ErrNoSufficientFounds):
		return ecInsufficient
	}
	return ecOther
}

const (
	cNone = iota
	cNC   // some operand (amount or a side) is not canonical; which one is told by the success-noncanonical-* keys
	cFromNC
	cToNC
	cReceiverNC
	cOverflowCarry  // canonical operands; currency parts fit, the supplementary carry overflows
	cOverflowCur    // canonical operands; currency parts alone overflow
	cInsufBorrow    // canonical operands; currency parts suffice, the borrow does not
	cInsufCur       // canonical operands; currency part alone insufficient
	cPossible       // canonical operands; the reference performs the op
	cNewMultiCarry  // New: supplementary needs more than one carry
	cNewCarryAtMax  // New: carry out of currency 2^64-1
	cNewSingleCarry // New: one carry, currency < 2^64-1 (expected to work)
	cNewNoCarry     // New: supplementary already canonical
	nCause
)

var causeName = [nCause]string{"", "supp>=1e18", "from-supp>=1e18", "to-supp>=1e18", "receiver-supp>=1e18",
	"canonical/overflow-by-carry", "canonical/overflow-by-currency", "canonical/insufficient-by-borrow",
	"canonical/insufficient-by-currency", "canonical/possible", "multi-carry", "carry-at-max-currency", "single-carry", "no-carry"}

const nKeys = nPred * nOp * nEC * nCause

func keyIdx(pred, op, ec, cause uint8) int {
	return ((int(pred)*nOp+int(op))*nEC+int(ec))*nCause + int(cause)
}

func keyString(idx int) string {
	cause := idx % nCause
	idx /= nCause
	ec := idx % nEC
	idx /= nEC
	op := idx % nOp
	pred := idx / nOp
	s := "C05." + predName[pred] + "/" + opName[op]
	if ec != ecNone {
		s += "/" + ecName[ec]
	}
	if cause != cNone {
		s += "/" + causeName[cause]
	}
	return s
}

// ---------------------------------------------------------------------------
// cases, candidates (first witness = simplest by a content-based order, so the output is deterministic)

type pairKey [4]uint64 // unordered pair state {x, y}, stored with x <= y lexicographically

func norm(x, y M) pairKey {
	if x.Currency > y.Currency || (x.Currency == y.Currency && x.SupplementaryCurrency > y.SupplementaryCurrency) {
		x, y = y, x
	}
	return pairKey{x.Currency, x.SupplementaryCurrency, y.Currency, y.SupplementaryCurrency}
}
func (k pairKey) x() M { return M{Currency: k[0], SupplementaryCurrency: k[1]} }
func (k pairKey) y() M { return M{Currency: k[2], SupplementaryCurrency: k[3]} }

func lessKey(a, b pairKey) bool {
	for i := 0; i < 4; i++ {
		if a[i] != b[i] {
			return a[i] < b[i]
		}
	}
	return false
}

// cand is one evaluated case: op(a, x[, y]). phase 1 = product; 2/3 = 2nd/3rd op of a chain, applied in pair state st.
type cand struct {
	has     bool
	phase   uint8
	op      uint8
	a, x, y M // x = receiver (New: the two arguments; Supply) or from; y = to/sink
	st      pairKey
}

func (c *cand) tuple() [9]uint64 {
	nz := uint64(0)
	for _, u := range [6]uint64{c.a.Currency, c.a.SupplementaryCurrency, c.x.Currency, c.x.SupplementaryCurrency, c.y.Currency, c.y.SupplementaryCurrency} {
		if u != 0 {
			nz++
		}
	}
	return [9]uint64{uint64(c.phase), nz, uint64(c.op), c.a.Currency, c.a.SupplementaryCurrency, c.x.Currency, c.x.SupplementaryCurrency,
		c.y.Currency, c.y.SupplementaryCurrency}
}

// lessCand orders cases simplest-first: product before chain, fewer non-zero fields, then by operand values.
func lessCand(a, b *cand) bool {
	ta, tb := a.tuple(), b.tuple()
	for i := range ta {
		if ta[i] != tb[i] {
			return ta[i] < tb[i]
		}
	}
	return lessKey(a.st, b.st)
}

type vent struct {
	count uint64
	best  cand
}

// sample categories (the simplest case of each is written into the evidence)
const (
	sNewCarry = iota
	sSupplyCarry
	sSupplyRollback
	sTransferBorrow
	sTransferRollback
	sTransferNCAccepted
	sChain3
	nSample
)

var sampleName = [nSample]string{"New with one carry", "Supply, canonical operands, carry into currency", "Supply fails after the currency part was already added (rollback path)",
	"Transfer, canonical operands, borrow from currency", "Transfer fails after the currency parts were already moved (rollback path)",
	"Transfer with a non-canonical amount", "third op of a chain (path from the product case that created the state)"}

type stats struct {
	viol      [nKeys]vent
	evals     [nOp]uint64
	succ      [nOp]uint64
	fail      [nOp]uint64
	failLate  [nOp]uint64 // failed although the first (currency) guard passed
	nontriv   [nOp]uint64 // distinct non-trivial cases, product phase
	chainEval uint64
	chainEdge uint64
	chainNT   [nOp]uint64 // distinct non-trivial cases first seen in the chain phase
	final     uint64      // successor states of third ops (not stored, not de-duplicated)
	samples   [nSample]cand
}

func (s *stats) merge(o *stats) {
	for i := range s.viol {
		if o.viol[i].count == 0 {
			continue
		}
		if s.viol[i].count == 0 || lessCand(&o.viol[i].best, &s.viol[i].best) {
			s.viol[i].best = o.viol[i].best
		}
		s.viol[i].count += o.viol[i].count
	}
	for i := 0; i < nOp; i++ {
		s.evals[i] += o.evals[i]
		s.succ[i] += o.succ[i]
		s.fail[i] += o.fail[i]
		s.failLate[i] += o.failLate[i]
		s.nontriv[i] += o.nontriv[i]
		s.chainNT[i] += o.chainNT[i]
	}
	s.chainEval += o.chainEval
	s.chainEdge += o.chainEdge
	s.final += o.final
	for i := range s.samples {
		if o.samples[i].has && (!s.samples[i].has || lessCand(&o.samples[i], &s.samples[i])) {
			s.samples[i] = o.samples[i]
		}
	}
}

// ---------------------------------------------------------------------------
// RefSpice oracle. One worker = one goroutine with its own scratch integers.

type worker struct {
	st                                            *stats
	inV                                           map[uint64]bool
	tmp, va, vx, vy, vx2, vy2, expX, expY, s1, s2 *big.Int
}

func newWorker(inV map[uint64]bool) *worker {
	n := func() *big.Int { return new(big.Int) }
	return &worker{st: &stats{}, inV: inV, tmp: n(), va: n(), vx: n(), vy: n(), vx2: n(), vy2: n(), expX: n(), expY: n(), s1: n(), s2: n()}
}

// val sets z = m.Currency*10^18 + m.SupplementaryCurrency.
func (w *worker) val(z *big.Int, m M) *big.Int {
	w.tmp.SetUint64(m.Currency)
	z.Mul(w.tmp, bigE18)
	w.tmp.SetUint64(m.SupplementaryCurrency)
	return z.Add(z, w.tmp)
}

func (w *worker) add(pred, op, ec, cause uint8, c *cand) {
	e := &w.st.viol[keyIdx(pred, op, ec, cause)]
	if e.count == 0 || lessCand(c, &e.best) {
		e.best = *c
		e.best.has = true
	}
	e.count++
}

func (w *worker) sample(cat int, c *cand) {
	if !w.st.samples[cat].has || lessCand(c, &w.st.samples[cat]) {
		w.st.samples[cat] = *c
		w.st.samples[cat].has = true
	}
}

func (w *worker) allInV(ms ...M) bool {
	for _, m := range ms {
		if !w.inV[m.Currency] || !w.inV[m.SupplementaryCurrency] {
			return false
		}
	}
	return true
}

// transferCause names the structural situation of Transfer(a, f, t).
func transferCause(a, f, t M, sufficient, fits bool) uint8 {
	switch {
	case !canon(a) || !canon(f) || !canon(t):
		return cNC
	case !fits:
		if a.Currency > maxU-t.Currency {
			return cOverflowCur
		}
		return cOverflowCarry
	case !sufficient:
		if a.Currency > f.Currency {
			return cInsufCur
		}
		return cInsufBorrow
	}
	return cPossible
}

// checkNew evaluates spice.New(c, s): the result must carry exactly the value c*10^18+s and must be
// canonical whenever that value has a canonical representation (value < 2^64*10^18).
func (w *worker) checkNew(c, s uint64) {
	r := spice.New(c, s)
	w.st.evals[opNew]++
	cd := cand{phase: 1, op: opNew, x: M{Currency: c, SupplementaryCurrency: s}}
	want := w.val(w.vx, M{Currency: c, SupplementaryCurrency: s})
	got := w.val(w.vx2, r)
	cause := uint8(cNewNoCarry)
	switch {
	case s >= e18 && c == maxU:
		cause = cNewCarryAtMax
	case s >= 2*e18:
		cause = cNewMultiCarry
	case s >= e18:
		cause = cNewSingleCarry
	}
	if s >= e18 {
		w.st.nontriv[opNew]++ // the carry path of New is exercised
	}
	w.st.succ[opNew]++
	bad := false
	if got.Cmp(want) != 0 {
		w.add(pNewWrap, opNew, ecNone, cause, &cd)
		bad = true
	}
	if want.Cmp(bigLim) < 0 && !canon(r) {
		w.add(pNewNC, opNew, ecNone, cause, &cd)
		bad = true
	}
	if !bad && cause == cNewSingleCarry {
		w.sample(sNewCarry, &cd)
	}
}

// checkSupply evaluates m.Supply(a) against RefSpice. countDistinct tells whether this (m, a) is evaluated for the first time.
func (w *worker) checkSupply(phase uint8, a, m, other M, countDistinct bool) (M, bool) {
	m2 := m
	err := m2.Supply(a)
	w.st.evals[opSupply]++
	cd := cand{phase: phase, op: opSupply, a: a, x: m}
	if phase > 1 {
		cd.st = norm(m, other)
		w.st.chainEval++
	}
	cA, cM := canon(a), canon(m)
	va, vm := w.val(w.va, a), w.val(w.vx, m)
	exp := w.expX.Add(vm, va)
	fits := exp.Cmp(bigLim) < 0
	possible := cA && cM && fits
	// non-trivial: the currency parts alone do not reject the case, and it either succeeded or failed with canonical
	// operands, i.e. the outcome was decided in the supplementary (carry / rollback) phase of the op
	nontrivial := a.Currency <= maxU-m.Currency && (err == nil || (cA && cM))
	if nontrivial && countDistinct {
		if phase == 1 {
			w.st.nontriv[opSupply]++
		} else if !w.allInV(a, m) {
			w.st.chainNT[opSupply]++
		}
	}
	cause := func() uint8 {
		switch {
		case !cA || !cM:
			return cNC
		case !fits:
			if a.Currency > maxU-m.Currency {
				return cOverflowCur
			}
			return cOverflowCarry
		}
		return cPossible
	}
	if err == nil {
		w.st.succ[opSupply]++
		bad := false
		if !cA {
			w.add(pSuccNCAmount, opSupply, ecNone, cNone, &cd)
			bad = true
		}
		if !cM {
			w.add(pSuccNCSide, opSupply, ecNone, cReceiverNC, &cd)
			bad = true
		}
		got := w.val(w.vx2, m2)
		if c := got.Cmp(exp); c > 0 {
			w.add(pCreated, opSupply, ecNone, cause(), &cd)
			bad = true
		} else if c < 0 {
			w.add(pDestroyed, opSupply, ecNone, cause(), &cd)
			bad = true
		}
		if !canon(m2) {
			w.add(pNCResult, opSupply, ecNone, cause(), &cd)
			bad = true
		}
		if !bad && phase == 1 && a.SupplementaryCurrency+m.SupplementaryCurrency >= e18 {
			w.sample(sSupplyCarry, &cd)
		}
		return m2, true
	}
	w.st.fail[opSupply]++
	ec := errClass(err)
	if nontrivial {
		w.st.failLate[opSupply]++
		if phase == 1 && m2 == m && !possible {
			w.sample(sSupplyRollback, &cd)
		}
	}
	if m2 != m {
		w.add(pNotAtomic, opSupply, ec, cause(), &cd)
	}
	if possible {
		w.add(pSpurious, opSupply, ec, cNone, &cd)
	}
	return m, false
}

// checkTransfer evaluates spice.Transfer(a, &f, &t) against RefSpice and f.Drain(a, &t) against Transfer.
func (w *worker) checkTransfer(phase uint8, a, f, t M) (M, M, bool) {
	f2, t2 := f, t
	err := spice.Transfer(a, &f2, &t2)
	w.st.evals[opTransfer]++
	cd := cand{phase: phase, op: opTransfer, a: a, x: f, y: t}
	if phase > 1 {
		cd.st = norm(f, t)
		w.st.chainEval += 2
	}
	// Drain is specified as the same operation with the receiver as source: differential check.
	f3, t3 := f, t
	err3 := f3.Drain(a, &t3)
	w.st.evals[opDrain]++
	if f3 != f2 || t3 != t2 || err3 != err {
		dc := cd
		dc.op = opDrain
		w.add(pDrainDiffers, opDrain, ecNone, cNone, &dc)
	}
	if err3 == nil {
		w.st.succ[opDrain]++
	} else {
		w.st.fail[opDrain]++
	}

	cA, cF, cT := canon(a), canon(f), canon(t)
	va, vf, vt := w.val(w.va, a), w.val(w.vx, f), w.val(w.vy, t)
	expF := w.expX.Sub(vf, va)
	expT := w.expY.Add(vt, va)
	sufficient := expF.Sign() >= 0
	fits := expT.Cmp(bigLim) < 0
	possible := cA && cF && cT && sufficient && fits
	// non-trivial: as for Supply (carry / borrow / rollback phase decided the outcome)
	nontrivial := a.Currency <= f.Currency && a.Currency <= maxU-t.Currency && (err == nil || (cA && cF && cT))
	if nontrivial {
		if phase == 1 {
			w.st.nontriv[opTransfer]++
		} else if !w.allInV(a, f, t) {
			w.st.chainNT[opTransfer]++
		}
	}
	if err == nil {
		w.st.succ[opTransfer]++
		bad := false
		if !cA {
			w.add(pSuccNCAmount, opTransfer, ecNone, cNone, &cd)
			bad = true
			if phase == 1 {
				w.sample(sTransferNCAccepted, &cd)
			}
		}
		if !cF {
			w.add(pSuccNCSide, opTransfer, ecNone, cFromNC, &cd)
			bad = true
		}
		if !cT {
			w.add(pSuccNCSide, opTransfer, ecNone, cToNC, &cd)
			bad = true
		}
		gotF, gotT := w.val(w.vx2, f2), w.val(w.vy2, t2)
		if gotF.Cmp(expF) != 0 || gotT.Cmp(expT) != 0 {
			before := w.s1.Add(vf, vt)
			after := w.s2.Add(gotF, gotT)
			pred := uint8(pWrongAmount)
			if c := after.Cmp(before); c > 0 {
				pred = pCreated
			} else if c < 0 {
				pred = pDestroyed
			}
			w.add(pred, opTransfer, ecNone, transferCause(a, f, t, sufficient, fits), &cd)
			bad = true
		}
		if !canon(f2) || !canon(t2) {
			w.add(pNCResult, opTransfer, ecNone, transferCause(a, f, t, sufficient, fits), &cd)
			bad = true
		}
		if !bad && phase == 1 && a.SupplementaryCurrency > f.SupplementaryCurrency {
			w.sample(sTransferBorrow, &cd)
		}
		if phase == 3 && !bad && (f2 != f || t2 != t) {
			w.sample(sChain3, &cd)
		}
		return f2, t2, true
	}
	w.st.fail[opTransfer]++
	ec := errClass(err)
	if nontrivial {
		w.st.failLate[opTransfer]++
		if phase == 1 && f2 == f && t2 == t && !possible {
			w.sample(sTransferRollback, &cd)
		}
	}
	if f2 != f || t2 != t {
		w.add(pNotAtomic, opTransfer, ec, transferCause(a, f, t, sufficient, fits), &cd)
	}
	if possible {
		w.add(pSpurious, opTransfer, ec, cNone, &cd)
	}
	return f, t, false
}

// ---------------------------------------------------------------------------
// concurrent state sets

const nShard = 1024

type parent struct {
	st  pairKey // chain level 1: the level-0 state the op was applied to
	op  uint8   // chain op code
	amt uint16  // index into the chain amount list
	idx uint64  // level 0: index of the (minimal) product case that produced the state
}

func lessParent(a, b parent) bool {
	if a.idx != b.idx {
		return a.idx < b.idx
	}
	if a.st != b.st {
		return lessKey(a.st, b.st)
	}
	if a.op != b.op {
		return a.op < b.op
	}
	return a.amt < b.amt
}

type stateMap struct {
	sh [nShard]struct {
		mu sync.Mutex
		m  map[pairKey]parent
		_  [40]byte
	}
}

func newStateMap() *stateMap {
	s := &stateMap{}
	for i := range s.sh {
		s.sh[i].m = map[pairKey]parent{}
	}
	return s
}

func shardOf(k pairKey) int {
	h := k[0]*0x9E3779B97F4A7C15 ^ k[1]*0xC2B2AE3D27D4EB4F ^ k[2]*0x165667B19E3779F9 ^ k[3]*0x27D4EB2F165667C5
	h ^= h >> 29
	return int(h % nShard)
}

func (s *stateMap) insert(k pairKey, p parent) {
	sh := &s.sh[shardOf(k)]
	sh.mu.Lock()
	if old, ok := sh.m[k]; !ok || lessParent(p, old) {
		sh.m[k] = p
	}
	sh.mu.Unlock()
}

func (s *stateMap) get(k pairKey) (parent, bool) {
	sh := &s.sh[shardOf(k)]
	sh.mu.Lock()
	p, ok := sh.m[k]
	sh.mu.Unlock()
	return p, ok
}

func (s *stateMap) keys() []pairKey {
	var out []pairKey
	for i := range s.sh {
		for k := range s.sh[i].m {
			out = append(out, k)
		}
	}
	return out
}

type singleSet struct {
	sh [nShard]struct {
		mu sync.Mutex
		m  map[M]struct{}
		_  [40]byte
	}
}

func newSingleSet() *singleSet {
	s := &singleSet{}
	for i := range s.sh {
		s.sh[i].m = map[M]struct{}{}
	}
	return s
}

// insert reports whether m was not in the set before.
func (s *singleSet) insert(m M) bool {
	sh := &s.sh[shardOf(pairKey{m.Currency, m.SupplementaryCurrency})]
	sh.mu.Lock()
	_, ok := sh.m[m]
	if !ok {
		sh.m[m] = struct{}{}
	}
	sh.mu.Unlock()
	return !ok
}

// ---------------------------------------------------------------------------
// drivers

func parallel(nw int, nTasks int, mk func() *worker, f func(w *worker, task int)) *stats {
	var next int64
	var wg sync.WaitGroup
	ws := make([]*worker, nw)
	for i := 0; i < nw; i++ {
		ws[i] = mk()
		wg.Add(1)
		go func(w *worker) {
			defer wg.Done()
			for {
				t := int(atomic.AddInt64(&next, 1) - 1)
				if t >= nTasks {
					return
				}
				f(w, t)
			}
		}(ws[i])
	}
	wg.Wait()
	total := &stats{}
	for _, w := range ws {
		total.merge(w.st)
	}
	return total
}

// chain op codes
const (
	chTxy = iota
	chTyx
	chSx
	chSy
)

var chName = [...]string{"Transfer x->y", "Transfer y->x", "x.Supply", "y.Supply"}

// chainStep applies every chain op with every chain amount to pair state k.
func (w *worker) chainStep(phase uint8, k pairKey, amts []M, singles *singleSet, emit func(s pairKey, p parent)) {
	x, y := k.x(), k.y()
	firstX := singles.insert(x)
	firstY := x != y && singles.insert(y)
	for ai, a := range amts {
		if f2, t2, ok := w.checkTransfer(phase, a, x, y); ok {
			w.st.chainEdge++
			emit(norm(f2, t2), parent{st: k, op: chTxy, amt: uint16(ai)})
		}
		if m2, ok := w.checkSupply(phase, a, x, y, firstX); ok {
			w.st.chainEdge++
			emit(norm(m2, y), parent{st: k, op: chSx, amt: uint16(ai)})
		}
		if x == y {
			continue // the mirrored ops are the same cases
		}
		if f2, t2, ok := w.checkTransfer(phase, a, y, x); ok {
			w.st.chainEdge++
			emit(norm(f2, t2), parent{st: k, op: chTyx, amt: uint16(ai)})
		}
		if m2, ok := w.checkSupply(phase, a, y, x, firstY); ok {
			w.st.chainEdge++
			emit(norm(x, m2), parent{st: k, op: chSy, amt: uint16(ai)})
		}
	}
}

type run struct {
	V      []nv
	n      int
	pairs  []M // V×V
	amts   []M // chain amounts
	inV    map[uint64]bool
	l0, l1 *stateMap
}

func (r *run) productCase(idx uint64) (a, f, t M) {
	n2 := uint64(len(r.pairs))
	return r.pairs[idx/(n2*n2)], r.pairs[(idx/n2)%n2], r.pairs[idx%n2]
}

// ---------------------------------------------------------------------------
// witnesses

type step map[string]any

func refOutcomeTransfer(a, f, t M) string {
	va := new(big.Int).Add(new(big.Int).Mul(new(big.Int).SetUint64(a.Currency), bigE18), new(big.Int).SetUint64(a.SupplementaryCurrency))
	vf := new(big.Int).Add(new(big.Int).Mul(new(big.Int).SetUint64(f.Currency), bigE18), new(big.Int).SetUint64(f.SupplementaryCurrency))
	vt := new(big.Int).Add(new(big.Int).Mul(new(big.Int).SetUint64(t.Currency), bigE18), new(big.Int).SetUint64(t.SupplementaryCurrency))
	switch {
	case !canon(a):
		return "failure (amount not canonical), both sides unchanged"
	case !canon(f) || !canon(t):
		return "failure (a side is not canonical), both sides unchanged"
	case vf.Cmp(va) < 0:
		return "failure (insufficient funds), both sides unchanged"
	case new(big.Int).Add(vt, va).Cmp(bigLim) >= 0:
		return "failure (overflow), both sides unchanged"
	}
	return fmt.Sprintf("success: value(from')=%s value(to')=%s, both canonical", new(big.Int).Sub(vf, va), new(big.Int).Add(vt, va))
}

func refOutcomeSupply(a, m M) string {
	va := new(big.Int).Add(new(big.Int).Mul(new(big.Int).SetUint64(a.Currency), bigE18), new(big.Int).SetUint64(a.SupplementaryCurrency))
	vm := new(big.Int).Add(new(big.Int).Mul(new(big.Int).SetUint64(m.Currency), bigE18), new(big.Int).SetUint64(m.SupplementaryCurrency))
	switch {
	case !canon(a):
		return "failure (amount not canonical), receiver unchanged"
	case !canon(m):
		return "failure (receiver not canonical), receiver unchanged"
	case new(big.Int).Add(vm, va).Cmp(bigLim) >= 0:
		return "failure (overflow), receiver unchanged"
	}
	return fmt.Sprintf("success: value(m')=%s, canonical", new(big.Int).Add(vm, va))
}

func bigVal(m M) string {
	return new(big.Int).Add(new(big.Int).Mul(new(big.Int).SetUint64(m.Currency), bigE18), new(big.Int).SetUint64(m.SupplementaryCurrency)).String()
}

func errStr(err error) any {
	if err == nil {
		return nil
	}
	return err.Error()
}

// execStep re-executes one op on the real code and describes it.
func execStep(op uint8, a, x, y M) (step, string) {
	switch op {
	case opNew:
		r := spice.New(x.Currency, x.SupplementaryCurrency)
		want := bigVal(x)
		return step{"op": "New", "currency": strconv.FormatUint(x.Currency, 10), "supplementary": strconv.FormatUint(x.SupplementaryCurrency, 10),
				"sym": mstr(x), "result": mj(r), "result_value": bigVal(r), "expected_value": want},
			fmt.Sprintf("New(%s, %s) = %s (value %s); the arguments denote value %s", sym(x.Currency), sym(x.SupplementaryCurrency), mstr(r), bigVal(r), want)
	case opSupply:
		m2 := x
		err := m2.Supply(a)
		return step{"op": "Supply", "amount": mj(a), "receiver": mj(x), "err": errStr(err), "receiver_after": mj(m2),
				"value_before": bigVal(x), "value_amount": bigVal(a), "value_after": bigVal(m2), "reference": refOutcomeSupply(a, x)},
			fmt.Sprintf("m=%s; m.Supply(%s) returned %v, m'=%s; reference: %s", mstr(x), mstr(a), err, mstr(m2), refOutcomeSupply(a, x))
	default:
		f2, t2 := x, y
		var err error
		name := "Transfer"
		if op == opDrain {
			name = "Drain"
			err = f2.Drain(a, &t2)
		} else {
			err = spice.Transfer(a, &f2, &t2)
		}
		return step{"op": name, "amount": mj(a), "from": mj(x), "to": mj(y), "err": errStr(err), "from_after": mj(f2), "to_after": mj(t2),
				"value_amount": bigVal(a), "value_from": bigVal(x), "value_to": bigVal(y), "value_from_after": bigVal(f2), "value_to_after": bigVal(t2),
				"reference": refOutcomeTransfer(a, x, y)},
			fmt.Sprintf("%s(amount=%s, from=%s, to=%s) returned %v, from'=%s to'=%s; reference: %s", name, mstr(a), mstr(x), mstr(y), err, mstr(f2), mstr(t2), refOutcomeTransfer(a, x, y))
	}
}

func (r *run) chainParentStep(p parent) step {
	x, y := p.st.x(), p.st.y()
	a := r.amts[p.amt]
	var s step
	switch p.op {
	case chTxy:
		s, _ = execStep(opTransfer, a, x, y)
	case chTyx:
		s, _ = execStep(opTransfer, a, y, x)
	case chSx:
		s, _ = execStep(opSupply, a, x, M{})
		s["other_side"] = mj(y)
	case chSy:
		s, _ = execStep(opSupply, a, y, M{})
		s["other_side"] = mj(x)
	}
	return s
}

// path returns the op sequence that leads to the state in which c was evaluated, followed by c itself.
func (r *run) path(c *cand) ([]step, string) {
	var steps []step
	last, what := execStep(c.op, c.a, c.x, c.y)
	if c.phase >= 2 {
		st := c.st
		var mid []step
		if c.phase == 3 {
			if p, ok := r.l1.get(st); ok {
				mid = append(mid, r.chainParentStep(p))
				st = p.st
			}
		}
		if p, ok := r.l0.get(st); ok {
			a, f, t := r.productCase(p.idx)
			s, _ := execStep(opTransfer, a, f, t)
			steps = append(steps, s)
		}
		steps = append(steps, mid...)
		last["pair_state"] = map[string]any{"x": mj(c.st.x()), "y": mj(c.st.y())}
	}
	steps = append(steps, last)
	return steps, what
}

// ---------------------------------------------------------------------------

func replay(file string) int {
	b, err := os.ReadFile(file)
	if err != nil {
		fmt.Fprintln(os.Stderr, err)
		return 2
	}
	var v struct {
		Key     string `json:"key"`
		Witness struct {
			Steps []map[string]any `json:"steps"`
		} `json:"witness"`
	}
	if err := json.Unmarshal(b, &v); err != nil || len(v.Witness.Steps) == 0 {
		fmt.Fprintln(os.Stderr, "not a C05 replay file")
		return 2
	}
	w := newWorker(map[uint64]bool{})
	for i, s := range v.Witness.Steps {
		var what string
		switch s["op"] {
		case "New":
			c, _ := strconv.ParseUint(fmt.Sprint(s["currency"]), 10, 64)
			sp, _ := strconv.ParseUint(fmt.Sprint(s["supplementary"]), 10, 64)
			w.checkNew(c, sp)
			_, what = execStep(opNew, M{}, M{Currency: c, SupplementaryCurrency: sp}, M{})
		case "Supply":
			a, _ := mFromJSON(s["amount"])
			m, _ := mFromJSON(s["receiver"])
			w.checkSupply(1, a, m, M{}, false)
			_, what = execStep(opSupply, a, m, M{})
		default:
			a, _ := mFromJSON(s["amount"])
			f, _ := mFromJSON(s["from"])
			t, _ := mFromJSON(s["to"])
			w.checkTransfer(1, a, f, t)
			_, what = execStep(opTransfer, a, f, t)
		}
		fmt.Printf("step %d: %s\n", i+1, what)
	}
	hit := false
	for i := range w.st.viol {
		if w.st.viol[i].count > 0 {
			fmt.Printf("  violated: %s\n", keyString(i))
			if keyString(i) == v.Key {
				hit = true
			}
		}
	}
	if hit {
		fmt.Printf("VIOLATION property=C05 replay=%s\n  key=%s reproduced\n", file, v.Key)
		return 1
	}
	fmt.Printf("C05: replay of %s no longer violates %s\n", file, v.Key)
	return 0
}

func main() {
	if len(os.Args) < 2 || os.Args[1] != "C05" {
		fmt.Fprintln(os.Stderr, "usage: vcheck C05 [--replay <file>]")
		os.Exit(2)
	}
	for _, t := range []string{"quick", "thorough"} {
		for _, v := range valueSet(t) {
			symNames[v.v] = v.name
		}
	}
	if len(os.Args) >= 3 && os.Args[2] == "lworker" {
		c05LedgerWorker()
		return
	}
	if len(os.Args) >= 4 && (os.Args[2] == "--replay" || os.Args[2] == "-replay" || os.Args[2] == "replay") {
		os.Exit(replay(os.Args[3]))
	}
	tier := common.Tier()
	rep := common.NewReport("C05", "exploration")
	nw := runtime.NumCPU()

	r := &run{V: valueSet(tier), inV: map[uint64]bool{}, l0: newStateMap(), l1: newStateMap()}
	r.n = len(r.V)
	for _, a := range r.V {
		r.inV[a.v] = true
		for _, b := range r.V {
			r.pairs = append(r.pairs, M{Currency: a.v, SupplementaryCurrency: b.v})
		}
	}
	cv := chainValueSet(tier)
	for _, a := range cv {
		if !r.inV[a.v] {
			panic("chain alphabet must be a subset of the product alphabet")
		}
		for _, b := range cv {
			r.amts = append(r.amts, M{Currency: a.v, SupplementaryCurrency: b.v})
		}
	}
	mk := func() *worker { return newWorker(r.inV) }
	t0 := time.Now()
	phaseWall := map[string]float64{}
	lap := func(name string) { phaseWall[name] = time.Since(t0).Seconds(); t0 = time.Now() }
	n2 := len(r.pairs)
	total := &stats{}

	// --- product: New over V², Supply over (V²)², Transfer and Drain over (V²)³ ---------------------------------
	total.merge(parallel(1, 1, mk, func(w *worker, _ int) {
		for _, p := range r.pairs {
			w.checkNew(p.Currency, p.SupplementaryCurrency)
		}
	}))
	total.merge(parallel(nw, n2, mk, func(w *worker, im int) {
		for _, a := range r.pairs {
			w.checkSupply(1, a, r.pairs[im], M{}, true)
		}
	}))
	total.merge(parallel(nw, n2*n2, mk, func(w *worker, task int) {
		ia, ifr := task/n2, task%n2
		a, f := r.pairs[ia], r.pairs[ifr]
		base := uint64(task) * uint64(n2)
		for it, t := range r.pairs {
			if f2, t2, ok := w.checkTransfer(1, a, f, t); ok {
				r.l0.insert(norm(f2, t2), parent{idx: base + uint64(it)})
			}
		}
	}))
	productEvals := total.evals
	lap("product")

	// --- chain: 2nd op from every distinct pair state a successful product Transfer reached, 3rd op from every new state
	singles := newSingleSet()
	l0 := r.l0.keys()
	total.merge(parallel(nw, (len(l0)+63)/64, mk, func(w *worker, task int) {
		for i := task * 64; i < len(l0) && i < (task+1)*64; i++ {
			w.chainStep(2, l0[i], r.amts, singles, func(s pairKey, p parent) {
				if _, ok := r.l0.get(s); !ok {
					r.l1.insert(s, p)
				}
			})
		}
	}))
	lap("chain_op2")
	l1 := r.l1.keys()
	total.merge(parallel(nw, (len(l1)+63)/64, mk, func(w *worker, task int) {
		for i := task * 64; i < len(l1) && i < (task+1)*64; i++ {
			w.chainStep(3, l1[i], r.amts, singles, func(pairKey, parent) { w.st.final++ })
		}
	}))

	lap("chain_op3")
	rep.Set("phase_wall_s", phaseWall)
	// --- report ---------------------------------------------------------------------------------------------------
	var evals, distinct uint64
	for op := 0; op < nOp; op++ {
		evals += total.evals[op]
		distinct += total.nontriv[op] + total.chainNT[op]
		lo := map[int]string{opNew: "new", opSupply: "supply", opTransfer: "transfer", opDrain: "drain"}[op]
		rep.Set(lo+"_evaluations", int(total.evals[op]))
		rep.Set(lo+"_product_evaluations", int(productEvals[op]))
		rep.Set(lo+"_success", int(total.succ[op]))
		rep.Set(lo+"_failure", int(total.fail[op]))
		if op != opDrain {
			rep.Set(lo+"_distinct_nontrivial_product", int(total.nontriv[op]))
			rep.Set(lo+"_distinct_nontrivial_chain_only", int(total.chainNT[op]))
		}
		if op == opSupply || op == opTransfer {
			rep.Set(lo+"_failure_in_supplementary_phase", int(total.failLate[op]))
		}
	}
	rep.Set("evaluations", int(evals))
	rep.Set("distinct_nontrivial", int(distinct))
	rep.Set("exhaustive", true)
	var vnames, cnames []string
	for _, v := range r.V {
		vnames = append(vnames, v.name)
	}
	for _, v := range cv {
		cnames = append(cnames, v.name)
	}
	rep.Set("alphabet", vnames)
	rep.Set("chain_amount_alphabet", cnames)
	rep.Set("chain_states", len(l0)+len(l1))
	rep.Set("chain_states_after_op1", len(l0))
	rep.Set("chain_states_after_op2_new", len(l1))
	rep.Set("chain_evaluations", int(total.chainEval))
	rep.Set("chain_transitions", int(total.chainEdge))
	rep.Set("chain_op3_successors_unstored", int(total.final))
	rep.Set("max_sequence_length", 3)
	rep.Set("rule", fmt.Sprintf("PRODUCT driver, complete and deterministic (no sampling). Alphabet V = %d boundary values per uint64 field (key alphabet). "+
		"Product phase: spice.New on all V^2 argument pairs; m.Supply(a) on all (m,a) in (V^2)^2; spice.Transfer(a,&from,&to) and from.Drain(a,&to) on all (a,from,to) in (V^2)^3 "+
		"(Drain is checked differentially against Transfer on identical copies, the RefSpice oracle judges the Transfer result). "+
		"Chain phase: every distinct unordered pair state {x,y} left by a successful product Transfer is a start state; in it every op of "+
		"{Transfer x->y, Transfer y->x (each with its Drain twin), x.Supply, y.Supply} is applied with every amount of the reduced alphabet (chain_amount_alphabet)^2; "+
		"new pair states (not reached before) are expanded once more the same way, which gives every op sequence of length 3 whose first op comes from the product; "+
		"successors of the third op are checked, not stored. Every evaluation calls the real, un-modelled op on copies and compares with math/big arithmetic over cur*10^18+supp. "+
		"evaluations = number of calls of an op under test. distinct_nontrivial counts DISTINCT (op, operands) cases whose outcome is decided after the op's first (currency-part) guard: "+
		"Transfer(a,from,to): a.cur <= from.cur and a.cur + to.cur <= 2^64-1; Supply(m,a): m.cur + a.cur <= 2^64-1; and in both: the op succeeded, or it failed although every operand is canonical "+
		"(then the failure was decided in the supplementary phase, after state had been mutated: rollback path; failures with a non-canonical operand are conservatively not counted); "+
		"New(c,s): s >= 10^18 (carry path). Product cases are distinct by construction (product of a duplicate-free set). Drain evaluations are never counted (same operands as the Transfer twin). "+
		"A chain case is counted only if some operand field lies outside V (otherwise the product already counted it); chain Transfer cases are distinct because pair states are de-duplicated "+
		"across both levels and stored unordered, the two directions are separate ops and the mirrored direction is skipped when x == y; chain Supply cases are counted only for the first pair state "+
		"in which the receiver value occurs (global set of receiver values).", len(r.V)))
	vc := map[string]int{}

	// violations: one Add per key with the simplest witness (the per-key case count goes into the text and into violation_occurrences)
	for i := range total.viol {
		e := &total.viol[i]
		if e.count == 0 {
			continue
		}
		key := keyString(i)
		steps, what := r.path(&e.best)
		scen := "product"
		if e.best.phase > 1 {
			scen = fmt.Sprintf("chain (op %d of the sequence)", e.best.phase)
			what = fmt.Sprintf("after %d earlier op(s): %s", len(steps)-1, what)
		}
		what += fmt.Sprintf(" [%d cases in this run map to this key; simplest shown]", e.count)
		pred := i / (nOp * nEC * nCause)
		rep.Add(common.Violation{Predicate: "C05." + predName[pred], Key: key, What: what, Scenario: scen,
			Witness: map[string]any{"steps": steps, "occurrences": e.count, "tier": tier}})
		vc[key] = int(e.count)
	}
	rep.Set("violation_occurrences", vc)

	for i := range total.samples {
		c := &total.samples[i]
		if !c.has {
			continue
		}
		steps, what := r.path(c)
		rep.Sample(map[string]any{"kind": sampleName[i], "steps": steps, "text": what})
	}

	rep.Assume("RefSpice (math/big over currency*10^18+supplementary, canonical iff supplementary < 10^18, representable iff value < 2^64*10^18) is the specification of the four ops")
	rep.Assume("inputs outside the boundary alphabet are reached only as results of ops within the length-3 chains; behaviour between boundaries is not enumerated")
	rep.Assume("src/spice has no concurrency primitives, so the instrumented copy built by bin/check is textually the repository's code; every witness is re-executed on the un-instrumented package by a plain go test during triage")
	rep.Assume("Drain is judged by equality with Transfer on the same operands (every product and chain case), Transfer by the oracle")
	rep.Assume("the ledger-admission part of C05 (CreateLeaf/AddLeaf/LoadDag refusing non-canonical amounts) is not part of this run")
	c05Predicates(rep)
	c05LedgerPart(rep)
	os.Exit(rep.Finish())
}
