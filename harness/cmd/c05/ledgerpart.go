package main

import (
	"runtime"
	"time"

	"github.com/bartossh/Computantis/src/spice"
	"verif.local/harness/common"
	"verif.local/harness/ledger"
	"verif.local/harness/space"
	"verif.local/harness/world"
)

// Ledger part of C05: transactions with non-canonical amounts (supplementary >= 10^18) are offered through
// every entry point of real accounting books (propose, gossip from an untrusted and from a trusted sealer,
// orphan retry) in an explicit-state search; no node may ever hold one.

const e18u = uint64(1_000_000_000_000_000_000)

func c05LedgerCfg() ledger.Cfg {
	tx := func(l, f, t string, c, s uint64) ledger.TxSpec { return ledger.TxSpec{Label: l, From: f, To: t, Cur: c, Supp: s} }
	return ledger.Cfg{
		Nodes:       []string{"G", "N1"},
		Supply:      spice.Melange{Currency: 10},
		Menu:        []ledger.TxSpec{tx("n1", "R", "A", 0, e18u), tx("ok1", "R", "A", 1, 0), tx("n2", "R", "A", 1, 2*e18u+5)},
		Crafted:     []ledger.TxSpec{tx("mn", "R", "B", 0, e18u+1)},
		TrustedCraf: []ledger.TxSpec{tx("yn", "R", "B", 0, 1<<63)},
		Tick:        true,
		Props:       map[string]bool{"C05": true},
	}
}

func c05LedgerWorker() {
	space.Opt.KeyFunc = world.KeyFunc
	space.WorkerMain(ledger.New(c05LedgerCfg()))
}

func c05LedgerPart(rep *common.Report) {
	depth := 4
	if common.Tier() == "thorough" {
		depth = 6
	}
	st := space.SearchF(func(v common.Violation) {
		if v.Property == "C05" || v.Property == "" || v.Property == "ALL" {
			if w, ok := v.Witness.(map[string]any); ok {
				w["run"] = "ledger-part"
			}
			rep.Add(v)
		}
	}, rep.Sample, []string{"C05", "lworker"}, depth, runtime.NumCPU(), common.Deadline(120*time.Second, 20*time.Minute), 500)
	rep.Set("ledger_part", map[string]any{"states": st.States, "transitions": st.Transitions, "depth_completed": st.DepthDone, "depth_bound": depth,
		"exhaustive_within_bound": st.Exhaustive, "cap_hit": st.CapHit, "results": st.Results, "counters": st.Counters})
	rep.Assume("ledger part: explicit-state search over propose / deliver / crafted (untrusted and trusted sealer) / tick events with non-canonical amounts on two real nodes, depth as stated; events atomic")
}
