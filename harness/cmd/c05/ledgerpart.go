package main

import (
	"fmt"
	"github.com/bartossh/Computantis/src/transaction"
	"runtime"
	"time"

	"github.com/bartossh/Computantis/src/spice"
	"verif.local/harness/common"
	"verif.local/harness/ledger"
	"verif.local/harness/space"
	"verif.local/harness/world"
)

// Ledger part of C05: transactions with non-canonical amounts (supplementary >= 10^18) are offered through
// every entry point of real accounting books (propose, gossip from an untrusted and from a trusted sealer,
// orphan retry) in an explicit-state search; no node may ever hold one.

const e18u = uint64(1_000_000_000_000_000_000)

func c05LedgerCfg() ledger.Cfg {
	tx := func(l, f, t string, c, s uint64) ledger.TxSpec {
		return ledger.TxSpec{Label: l, From: f, To: t, Cur: c, Supp: s}
	}
	return ledger.Cfg{
		Nodes:       []string{"G", "N1"},
		Supply:      spice.Melange{Currency: 10},
		Menu:        []ledger.TxSpec{tx("n1", "R", "A", 0, e18u), tx("ok1", "R", "A", 1, 0), tx("n2", "R", "A", 1, 2*e18u+5)},
		Crafted:     []ledger.TxSpec{tx("mn", "R", "B", 0, e18u+1)},
		TrustedCraf: []ledger.TxSpec{tx("yn", "R", "B", 0, 1<<63)},
		Tick:        true,
		Props:       map[string]bool{"C05": true},
	}
}

// c05WrapCfg: amounts at the 2^64 edge in a ledger that gets truncated. Every single transfer and balance is
// representable (supply 2^64-1: R pays A 2^63, A pays B 2^63 - the same coins move twice, so the SUM of what the
// wallets spent inside the truncated region is 2^64), then fillers and truncations. No history may create or destroy
// value: the conservation and checkpoint oracles of the ledger model judge every state.
func c05WrapCfg() ledger.Cfg {
	tx := func(l, f, t string, c, s uint64) ledger.TxSpec {
		return ledger.TxSpec{Label: l, From: f, To: t, Cur: c, Supp: s}
	}
	fill := func(l string) ledger.TxSpec { return ledger.TxSpec{Label: l, From: "R", To: "B", Data: "filler"} }
	return ledger.Cfg{
		Nodes:    []string{"G"},
		Supply:   spice.Melange{Currency: 1<<64 - 1},
		Menu:     []ledger.TxSpec{fill("c4"), fill("c5"), tx("w3", "B", "A", 1<<62, 999_999_999_999_999_999)},
		Hidden:   []ledger.TxSpec{tx("w1", "R", "A", 1<<63, 0), tx("w2", "A", "B", 1<<63, 0), fill("c1"), fill("c2"), fill("c3")},
		Prefix:   []string{"P:0:w1", "P:0:w2", "P:0:c1", "P:0:c2", "P:0:c3"},
		Truncate: true,
		Props:    map[string]bool{"C02": true, "C07": true},
	}
}

func c05LedgerWorker() {
	space.Opt.KeyFunc = world.KeyFunc
	space.WorkerMainMulti(func(tag string) space.Model {
		if tag == "wrap" {
			return ledger.New(c05WrapCfg())
		}
		return ledger.New(c05LedgerCfg())
	})
}

func c05LedgerPart(rep *common.Report) {
	depth := 4
	if common.Tier() == "thorough" {
		depth = 6
	}
	st := space.SearchF(func(v common.Violation) {
		if v.Property == "C05" || v.Property == "" || v.Property == "ALL" {
			if w, ok := v.Witness.(map[string]any); ok {
				w["run"] = "ledger-part"
			}
			rep.Add(v)
		}
	}, rep.Sample, []string{"C05", "lworker"}, depth, runtime.NumCPU(), common.Deadline(120*time.Second, 20*time.Minute), 500)
	rep.Set("ledger_part", map[string]any{"states": st.States, "transitions": st.Transitions, "depth_completed": st.DepthDone, "depth_bound": depth,
		"exhaustive_within_bound": st.Exhaustive, "cap_hit": st.CapHit, "results": st.Results, "counters": st.Counters})
	// second run: conservation across truncation at the 2^64 edge (oracles of C02 / C07, reported under C05)
	pool := space.NewPool([]string{"C05", "lworker"}, runtime.NumCPU())
	defer pool.Close()
	st2 := space.SearchP(pool, "wrap", func(v common.Violation) {
		if v.Property != "C02" && v.Property != "C07" {
			return
		}
		if known := map[string]bool{"C07.balance-changed/tip-does-not-descend-from-cut": true}; known[v.Key] {
			return
		}
		v.Property = "C05"
		v.Predicate = "C05.ledger-conservation"
		v.Key = "C05.value-not-conserved-in-ledger/" + v.Key
		if w, ok := v.Witness.(map[string]any); ok {
			w["run"] = "ledger-part/wrap"
		}
		rep.Add(v)
	}, rep.Sample, depth, common.Deadline(60*time.Second, 10*time.Minute), 500)
	rep.Set("ledger_part_wrap", map[string]any{"states": st2.States, "transitions": st2.Transitions, "depth_completed": st2.DepthDone,
		"exhaustive_within_bound": st2.Exhaustive, "cap_hit": st2.CapHit, "results": st2.Results, "counters": st2.Counters})
	rep.Assume("ledger part: explicit-state search over propose / deliver / crafted (untrusted and trusted sealer) / tick events with non-canonical amounts on two real nodes, depth as stated; events atomic")
}

// c05Predicates: the yes/no questions the ledger asks about an amount (is it nothing? does this transaction move
// spice? is it empty?) over the whole boundary product. They gate every funds check, so a wrap-around in one of them
// makes value appear or vanish as surely as one in the arithmetic.
func c05Predicates(rep *common.Report) {
	n := 0
	for _, a := range valueSet(common.Tier()) {
		for _, b := range valueSet(common.Tier()) {
			m := spice.Melange{Currency: a.v, SupplementaryCurrency: b.v}
			zero := a.v == 0 && b.v == 0
			n++
			if m.Empty() != zero {
				rep.Add(common.Violation{Predicate: "C05.predicates", Key: "C05.predicate-wrong/Empty",
					What:    fmt.Sprintf("Melange{%d, %d}.Empty() = %v", a.v, b.v, m.Empty()),
					Witness: map[string]any{"currency": fmt.Sprint(a.v), "supplementary": fmt.Sprint(b.v)}})
			}
			for _, data := range [][]byte{nil, {}, []byte("d")} {
				t := transaction.Transaction{Spice: m, Data: data}
				if t.IsSpiceTransfer() != !zero {
					rep.Add(common.Violation{Predicate: "C05.predicates", Key: "C05.predicate-wrong/IsSpiceTransfer",
						What:    fmt.Sprintf("a transaction carrying Melange{%d, %d} (data %d bytes): IsSpiceTransfer() = %v", a.v, b.v, len(data), t.IsSpiceTransfer()),
						Witness: map[string]any{"currency": fmt.Sprint(a.v), "supplementary": fmt.Sprint(b.v)}})
				}
				if t.IsEmpty() != (zero && len(data) == 0) {
					rep.Add(common.Violation{Predicate: "C05.predicates", Key: "C05.predicate-wrong/IsEmpty",
						What:    fmt.Sprintf("a transaction carrying Melange{%d, %d} (data %d bytes): IsEmpty() = %v", a.v, b.v, len(data), t.IsEmpty()),
						Witness: map[string]any{"currency": fmt.Sprint(a.v), "supplementary": fmt.Sprint(b.v)}})
				}
			}
		}
	}
	rep.Set("predicate_pairs", n)
}
