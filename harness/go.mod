module verif.local/harness

go 1.21

require (
	github.com/bartossh/Computantis/src v0.0.0
	verif.local/vsched v0.0.0
)

require (
	github.com/shamaton/msgpack/v2 v2.1.1 // indirect
	github.com/vmihailenco/msgpack v4.0.4+incompatible // indirect
)

replace github.com/bartossh/Computantis/src => /repo/src

replace verif.local/vsched => /verif/engine/vsched
