module verif.local/harness

go 1.21

require (
	github.com/bartossh/Computantis/src v0.0.0
	google.golang.org/grpc v1.58.3
	google.golang.org/protobuf v1.33.0
	verif.local/vsched v0.0.0
)

require (
	github.com/allegro/bigcache v1.2.1 // indirect
	github.com/andybalholm/brotli v1.0.5 // indirect
	github.com/cespare/xxhash/v2 v2.2.0 // indirect
	github.com/dgraph-io/badger/v4 v4.2.0 // indirect
	github.com/dgraph-io/ristretto v0.1.1 // indirect
	github.com/dustin/go-humanize v1.0.0 // indirect
	github.com/emirpasic/gods v1.18.1 // indirect
	github.com/gogo/protobuf v1.3.2 // indirect
	github.com/golang/glog v1.1.0 // indirect
	github.com/golang/groupcache v0.0.0-20190702054246-869f871628b6 // indirect
	github.com/golang/protobuf v1.5.3 // indirect
	github.com/golang/snappy v0.0.3 // indirect
	github.com/google/flatbuffers v1.12.1 // indirect
	github.com/google/uuid v1.5.0 // indirect
	github.com/heimdalr/dag v1.3.1 // indirect
	github.com/klauspost/compress v1.17.1 // indirect
	github.com/mr-tron/base58 v1.2.0 // indirect
	github.com/pkg/errors v0.9.1 // indirect
	github.com/shamaton/msgpack/v2 v2.1.1 // indirect
	github.com/valyala/bytebufferpool v1.0.0 // indirect
	github.com/valyala/fasthttp v1.51.0 // indirect
	github.com/vmihailenco/msgpack v4.0.4+incompatible // indirect
	go.mongodb.org/mongo-driver v1.12.1 // indirect
	go.opencensus.io v0.22.5 // indirect
	golang.org/x/exp v0.0.0-20231006140011-7918f672742d // indirect
	golang.org/x/net v0.23.0 // indirect
	golang.org/x/sys v0.18.0 // indirect
	golang.org/x/text v0.14.0 // indirect
	google.golang.org/genproto/googleapis/rpc v0.0.0-20230711160842-782d3b101e98 // indirect
)

replace github.com/bartossh/Computantis/src => /repo/src

replace verif.local/vsched => /verif/engine/vsched
