module verif.local/harness

go 1.21

require (
	github.com/bartossh/Computantis/src v0.0.0
	verif.local/vsched v0.0.0
)

replace github.com/bartossh/Computantis/src => /repo/src

replace verif.local/vsched => /verif/engine/vsched
