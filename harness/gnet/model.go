// Package gnet is the SPACE model of a small virtual gossip network of real nodes
// (C11: reach everyone exactly once and terminate; C12: forged gossiper lists).
package gnet

import (
	"os"
	"context"
	"crypto/sha256"
	"encoding/hex"
	"fmt"
	"github.com/bartossh/Computantis/src/gossip"
	"sort"
	"strconv"
	"strings"

	"github.com/bartossh/Computantis/src/protobufcompiled"
	"github.com/bartossh/Computantis/src/spice"
	"github.com/bartossh/Computantis/src/transaction"
	"verif.local/harness/common"
	"verif.local/harness/world"
	"verif.local/vsched"
)

// Cfg configures one gossip world.
type Cfg struct {
	Nodes     []string    // node names; Nodes[0] must be "G" (genesis node)
	Edges     [][2]string // undirected links
	Origin    string      // node at which the item(s) enter
	Items     string      // "vertex" | "two-vertices" | "trx"
	Dup       bool        // allow one duplicate delivery per message
	Expire    bool        // allow each node's duplicate-suppression window to lapse once (event F:n)
	Adversary string      // C12: name of the malicious relay ("" = none)
	Masks     []int       // C12: forgery subsets the adversary may attach (bit mask over 6 forgeries)
	Prop      string      // "C11" or "C12"
	Bait      bool        // C12: the adversary may first send a neighbour a bait vertex naming the item's hash as parent
	SyncRPC   bool        // gossip RPCs return to the sender only on delivery, with the handler's answer
}

// Model implements space.Model.
type Model struct {
	Cfg       Cfg
	full      []*world.FullNode
	byName    map[string]*world.FullNode
	W         *world.LW
	Net       *world.Net
	items     [][32]byte // item hashes (vertices or transaction)
	itemKind  string
	kinds     map[[32]byte]string // per-item kind where a run mixes kinds ("trx-settled")
	settled   bool                // "trx-settled": the receiver has confirmed the contract at the origin
	contract  transaction.Transaction
	seen      map[string]map[[32]byte]bool // node -> items its flashback has seen
	sendViol  []common.Violation
	initViol  []common.Violation // violations of the sends made while the origin created the items
	sends     map[string]int
	counters  map[string]int
	injected  bool // "then-second": the second item has been proposed at the origin
	preBag    int
	advDone   map[int]bool
	baited    map[string]bool // C12: neighbours the adversary has sent its bait vertex to
	lastFirst bool            // the last delivery handed its item to that node for the first time
	lastHeld  bool            // the target already held the item before the last delivery
	// orphanAdmitted[node][item]: the node admitted the item outside a first-time gossip delivery
	// (missing-parent fetch or orphan retry) - the path on which the code never forwards
	orphanAdmitted map[string]map[[32]byte]bool
	expired        map[string]bool
	evCount        int
	firstBatch     map[string]int // (from|item) -> index of the event in which the node forwarded the item
}

// New creates the model.
func New(cfg Cfg) *Model { return &Model{Cfg: cfg, counters: map[string]int{}} }

// Setup boots the nodes of this worker process.
func (m *Model) Setup() {
	m.full = world.GetFullNodes(m.Cfg.Nodes...)
	m.byName = map[string]*world.FullNode{}
	for _, f := range m.full {
		m.byName[f.Name] = f
	}
}

func (m *Model) neighbours(n string) []string {
	var out []string
	for _, e := range m.Cfg.Edges {
		if e[0] == n {
			out = append(out, e[1])
		}
		if e[1] == n {
			out = append(out, e[0])
		}
	}
	sort.Strings(out)
	return out
}

// Init resets the world and injects the item(s) at the origin through the real notary Propose handler.
func (m *Model) Init() {
	base := make([]*world.Node, len(m.full))
	for i, f := range m.full {
		base[i] = f.Node
	}
	m.W = world.NewLW(base, spice.Melange{Currency: 10}, 0)
	ctx := context.Background()
	for _, f := range m.full {
		f.ResetServices(ctx)
	}
	m.Net = world.NewNet(m.full, m.Cfg.Edges)
	m.Net.Sync = m.Cfg.SyncRPC
	m.seen = map[string]map[[32]byte]bool{}
	for _, n := range m.Cfg.Nodes {
		m.seen[n] = map[[32]byte]bool{}
	}
	m.sendViol = nil
	m.initViol = nil
	m.sends = map[string]int{}
	m.items = nil
	m.advDone = map[int]bool{}
	m.baited = map[string]bool{}
	m.injected = false
	m.settled = false
	m.kinds = map[[32]byte]string{}
	m.orphanAdmitted = map[string]map[[32]byte]bool{}
	m.expired = map[string]bool{}
	m.evCount = 0
	m.firstBatch = map[string]int{}
	for _, n := range m.Cfg.Nodes {
		m.orphanAdmitted[n] = map[[32]byte]bool{}
	}
	m.Net.OnSend = m.onSend
	vsched.Settle()
	R, A, B := world.Cast("R"), world.Cast("A"), world.Cast("B")
	origin := m.byName[m.Cfg.Origin]
	// burst: the origin's clients propose back to back, the node's background loops get to run only afterwards
	burst := false
	propose := func(t transaction.Transaction) {
		pt, err := world.TrxToProto(t)
		if err != nil {
			panic(err)
		}
		if _, err := origin.Notary.Propose(ctx, pt); err != nil {
			panic("gnet: origin propose failed: " + err.Error())
		}
		if !burst {
			vsched.Settle()
		}
	}
	switch m.Cfg.Items {
	case "vertex", "two-vertices", "two-vertices-burst", "then-second", "pair-then-third":
		m.itemKind = "vertex"
		burst = m.Cfg.Items == "two-vertices-burst"
		t1 := world.MakeTx(R, A.Addr, "g1", nil, spice.Melange{Currency: 1}, 9101)
		m.W.Ref.LabelTx("g1", t1)
		propose(t1)
		if m.Cfg.Items == "two-vertices" || m.Cfg.Items == "two-vertices-burst" || m.Cfg.Items == "pair-then-third" {
			t2 := world.MakeTx(R, B.Addr, "g2", nil, spice.Melange{Currency: 1}, 9102)
			m.W.Ref.LabelTx("g2", t2)
			propose(t2)
		}
		if burst {
			burst = false
			vsched.Settle()
		}
		s := origin.Book.VerifSnapshot()
		for _, v := range s.Vertices {
			m.W.Ref.Learn(v)
		}
		for _, v := range s.Vertices {
			if v.Hash != m.W.Genesis.Hash {
				m.items = append(m.items, v.Hash)
			}
		}
		sort.Slice(m.items, func(a, b int) bool { return m.W.Ref.Name(m.items[a]) < m.W.Ref.Name(m.items[b]) })
	case "trx", "trx-settled":
		m.itemKind = "trx"
		t := world.MakeTx(A, B.Addr, "gc", []byte("contract"), spice.Melange{}, 9103)
		m.W.Ref.LabelTx("gc", t)
		propose(t)
		m.items = append(m.items, t.Hash)
		m.kinds[t.Hash] = "trx"
		m.contract = t
	}
	for _, it := range m.items {
		m.seen[m.Cfg.Origin][it] = true
	}
	// what the origin sent while the items were created is judged with the first event of every path
	m.initViol = append([]common.Violation(nil), m.sendViol...)
	if os.Getenv("GNET_DEBUG") != "" {
		for _, msg := range m.Net.Bag {
			fmt.Fprintf(os.Stderr, "gnet init: msg %d %s>%s %s viol=%d\n", msg.ID, msg.From, msg.To, m.itemName(msg.Item()), len(m.initViol))
		}
	}
}

// kind returns the kind of an item ("vertex" or "trx").
func (m *Model) kind(h [32]byte) string {
	if k, ok := m.kinds[h]; ok {
		return k
	}
	return m.itemKind
}

func (m *Model) itemName(h [32]byte) string {
	if m.kind(h) == "trx" {
		return m.W.Ref.TxLabels[h]
	}
	return m.W.Ref.Name(h)
}

func (m *Model) holds(n string, item [32]byte) bool {
	f := m.byName[n]
	if m.kind(item) == "trx" {
		for k := range f.Cache.VerifDump() {
			if k == "trx-"+hex.EncodeToString(item[:]) {
				return true
			}
		}
		if m.settled {
			// once the contract was confirmed somewhere, holding the vertex that seals it counts as holding it
			if _, err := f.Book.ReadTransactionByHash(context.Background(), item); err == nil {
				return true
			}
		}
		return false
	}
	return f.HasVertex(item)
}

// onSend is called by the virtual network for every outgoing gossip message.
func (m *Model) onSend(msg *world.Msg) {
	if msg.From == m.Cfg.Adversary {
		return // the adversary's own messages are not judged
	}
	item := msg.Item()
	name := m.itemName(item)
	valid := world.ValidGossipers(item, msg.Gossipers())
	m.counters["sends"]++
	bk := msg.From + "|" + name
	if ev, ok := m.firstBatch[bk]; !ok {
		m.firstBatch[bk] = m.evCount
	} else if ev != m.evCount {
		m.sendViol = append(m.sendViol, common.Violation{Property: "C11", Predicate: "C11.once", Key: "C11.forwarded-in-two-batches/" + m.kind(item),
			What: fmt.Sprintf("node %s forwarded %s again (to %s) although it had already forwarded it earlier", msg.From, name, msg.To)})
	}
	k := fmt.Sprintf("%s>%s:%s", msg.From, msg.To, name)
	m.sends[k]++
	if m.sends[k] > 1 {
		m.sendViol = append(m.sendViol, common.Violation{Property: "C11", Predicate: "C11.once", Key: "C11.forwarded-twice/" + m.kind(item),
			What: fmt.Sprintf("node %s sent %s to %s %d times", msg.From, name, msg.To, m.sends[k])})
	}
	for _, v := range valid {
		if v == msg.To {
			m.sendViol = append(m.sendViol, common.Violation{Property: "C11", Predicate: "C11.not-to-verified", Key: "C11.sent-to-verified-gossiper/" + m.kind(item),
				What: fmt.Sprintf("node %s sent %s to %s although %s is a validly listed gossiper", msg.From, name, msg.To, msg.To)})
		}
	}
	if m.kind(item) == "vertex" && !m.holds(msg.From, item) {
		m.sendViol = append(m.sendViol, common.Violation{Property: "C11", Predicate: "C11.after-accept", Key: "C11.forwarded-before-accept/vertex",
			What: fmt.Sprintf("node %s forwarded %s which its own ledger does not hold", msg.From, name)})
	}
	self := false
	for _, v := range valid {
		if v == msg.From {
			self = true
		}
	}
	if !self {
		m.sendViol = append(m.sendViol, common.Violation{Property: "C11", Predicate: "C11.signed", Key: "C11.forwarded-without-own-signature/" + m.kind(item),
			What: fmt.Sprintf("node %s forwarded %s without a valid own gossiper entry", msg.From, name)})
	}
}

// Enabled lists deliverable messages, duplicates, ticks and adversary actions.
func (m *Model) Enabled() []string {
	var out []string
	for _, msg := range m.Net.Bag {
		if msg.To == m.Cfg.Adversary && m.Cfg.Adversary != "" {
			if msg.Delivered == 0 {
				masks := m.Cfg.Masks
				if m.Cfg.Items == "then-second" && len(m.items) > 0 && msg.Item() == m.items[0] && !m.injected {
					masks = []int{0} // first item: the adversary relays honestly, it attacks the second one
				}
				for _, mask := range masks {
					out = append(out, fmt.Sprintf("A:%d:%d", msg.ID, mask))
				}
			}
			continue
		}
		if msg.Delivered == 0 {
			out = append(out, fmt.Sprintf("V:%d", msg.ID))
		} else if m.Cfg.Dup && msg.Delivered == 1 {
			out = append(out, fmt.Sprintf("U:%d", msg.ID))
		}
	}
	if m.Cfg.Bait && m.Cfg.Adversary != "" {
		learnt := false
		for _, msg := range m.Net.Bag {
			if msg.To == m.Cfg.Adversary {
				learnt = true
			}
		}
		if learnt {
			for i, nb := range m.neighbours(m.Cfg.Adversary) {
				if !m.baited[nb] && nb != m.Cfg.Origin {
					out = append(out, fmt.Sprintf("B:%d", i))
				}
			}
		}
	}
	if (m.Cfg.Items == "then-second" || m.Cfg.Items == "pair-then-third") && !m.injected && m.quiescent() {
		out = append(out, "I:0")
	}
	if m.Cfg.Items == "trx-settled" && !m.settled {
		out = append(out, "C:0")
	}
	if m.Cfg.Expire {
		for i, f := range m.full {
			if f.Name == m.Cfg.Adversary || m.expired[f.Name] || len(m.seen[f.Name]) == 0 {
				continue
			}
			pending := false
			for _, msg := range m.Net.Bag {
				if msg.To == f.Name && msg.Delivered == 0 {
					pending = true
				}
			}
			if pending {
				out = append(out, fmt.Sprintf("F:%d", i))
			}
		}
	}
	for i, f := range m.full {
		if f.Name == m.Cfg.Adversary {
			continue
		}
		if len(f.Book.VerifSnapshot().Parked) > 0 {
			out = append(out, fmt.Sprintf("K:%d", i))
		}
	}
	return out
}

// BeforeLast remembers the size of the bag before the last event.
func (m *Model) BeforeLast(string) {
	m.preBag = len(m.Net.Bag)
	m.sendViol = nil
}

// Apply performs one event.
func (m *Model) Apply(e string) string {
	m.evCount++
	before := m.holdMatrix()
	res, direct, node := m.apply(e)
	after := m.holdMatrix()
	for n, row := range after {
		for it, h := range row {
			if h && !before[n][it] && !(n == node && it == direct) {
				m.orphanAdmitted[n][it] = true
				m.counters["orphan-path-admissions"]++
			}
		}
	}
	return res
}

func (m *Model) holdMatrix() map[string]map[[32]byte]bool {
	out := map[string]map[[32]byte]bool{}
	for _, n := range m.Cfg.Nodes {
		out[n] = map[[32]byte]bool{}
		if n == m.Cfg.Adversary {
			continue
		}
		for _, it := range m.items {
			out[n][it] = m.holds(n, it)
		}
	}
	return out
}

// apply performs the event; it also returns the (node, item) that was handed over directly by a first-time delivery.
func (m *Model) apply(e string) (res string, direct [32]byte, node string) {
	p := strings.Split(e, ":")
	switch p[0] {
	case "V", "U":
		id, _ := strconv.Atoi(p[1])
		msg := m.Net.Bag[id]
		m.lastFirst = !m.seen[msg.To][msg.Item()]
		m.lastHeld = m.holds(msg.To, msg.Item())
		res := m.Net.Deliver(id)
		vsched.Settle()
		m.seenMark(msg)
		return res, msg.Item(), msg.To
	case "K":
		i, _ := strconv.Atoi(p[1])
		if tk := m.full[i].RetryTicker; tk != nil && !tk.Stopped {
			tk.Fire()
			vsched.Settle()
			return "fired", direct, ""
		}
		return "no-ticker", direct, ""
	case "I":
		// the origin seals a second, dependent item once the first one has spread
		m.injected = true
		origin := m.byName[m.Cfg.Origin]
		lbl, seq := "g2", 9102
		if m.Cfg.Items == "pair-then-third" {
			lbl, seq = "g3", 9104
		}
		t2 := world.MakeTx(world.Cast("R"), world.Cast("B").Addr, lbl, nil, spice.Melange{Currency: 1}, seq)
		m.W.Ref.LabelTx(lbl, t2)
		pt, err := world.TrxToProto(t2)
		if err != nil {
			panic(err)
		}
		if _, err := origin.Notary.Propose(context.Background(), pt); err != nil {
			return "error", direct, ""
		}
		vsched.Settle()
		s := origin.Book.VerifSnapshot()
		for _, v := range s.Vertices {
			m.W.Ref.Learn(v)
		}
		for _, v := range s.Vertices {
			if m.W.Ref.TxLabels[v.Transaction.Hash] == lbl {
				m.items = append(m.items, v.Hash)
				m.seen[m.Cfg.Origin][v.Hash] = true
				return "ok", v.Hash, m.Cfg.Origin
			}
		}
		return "ok", direct, ""
	case "C":
		// the receiver confirms the awaiting contract at the origin: the vertex sealing it is gossiped, every node
		// that admits it takes the transaction off its awaiting list (late transaction messages may still be in flight)
		m.settled = true
		origin := m.byName[m.Cfg.Origin]
		pt, err := world.TrxToProto(world.CounterSign(m.contract, world.Cast("B")))
		if err != nil {
			panic(err)
		}
		if _, err := origin.Notary.Confirm(context.Background(), pt); err != nil {
			return "error", direct, ""
		}
		vsched.Settle()
		s := origin.Book.VerifSnapshot()
		for _, v := range s.Vertices {
			m.W.Ref.Learn(v)
		}
		for _, v := range s.Vertices {
			if v.Transaction.Hash == m.contract.Hash {
				m.items = append(m.items, v.Hash)
				m.kinds[v.Hash] = "vertex"
				m.seen[m.Cfg.Origin][v.Hash] = true
				return "ok", v.Hash, m.Cfg.Origin
			}
		}
		return "ok", direct, ""
	case "F":
		i, _ := strconv.Atoi(p[1])
		f := m.full[i]
		f.Flash.VerifReset()
		m.seen[f.Name] = map[[32]byte]bool{}
		m.expired[f.Name] = true
		return "expired", direct, ""
	case "A":
		id, _ := strconv.Atoi(p[1])
		mask, _ := strconv.Atoi(p[2])
		m.adversary(id, mask)
		return "forged", direct, ""
	case "B":
		// bait: the adversary gossips, to neighbour p[1], a vertex of its own (validly signed) whose parents are the hash
		// of the item it has learnt about; the neighbour asks its peers - the adversary among them - for that "parent"
		i, _ := strconv.Atoi(p[1])
		nb := m.neighbours(m.Cfg.Adversary)[i]
		m.baited[nb] = true
		adv := m.byName[m.Cfg.Adversary]
		item := m.items[0]
		t := world.MakeTx(world.Cast("A"), world.Cast("B").Addr, "bait-"+nb, []byte("bait"), spice.Melange{}, 9300+i)
		v := m.W.Craft(adv.Actor, t, item, item, 2)
		pv := gossip.VerifVertexToProto(&v)
		d, sg := adv.Actor.Sign(append([]byte(adv.Actor.Addr), v.Hash[:]...))
		msg := &world.Msg{From: m.Cfg.Adversary, To: nb, Vrx: &protobufcompiled.VrxMsgGossip{Vertex: pv,
			Gossipers: []*protobufcompiled.Gossiper{{Address: adv.Actor.Addr, Digest: d[:], Signature: sg}}}}
		msg.ID = len(m.Net.Bag)
		m.Net.Bag = append(m.Net.Bag, msg)
		res := m.Net.Deliver(msg.ID)
		vsched.Settle()
		return "bait-" + res, direct, ""
	}
	panic("gnet: unknown event " + e)
}

func (m *Model) seenMark(msg *world.Msg) {
	it := msg.Item()
	if m.seen[msg.To] != nil && len(it) == 32 {
		m.seen[msg.To][it] = true
	}
}

// adversary consumes message id addressed to the malicious relay and forwards the intact item to all of
// its neighbours with forged gossiper entries appended according to mask.
func (m *Model) adversary(id, mask int) {
	msg := m.Net.Bag[id]
	msg.Delivered++
	m.advDone[id] = true
	adv := m.byName[m.Cfg.Adversary]
	item := msg.Item()
	other := sha256.Sum256(append([]byte("other-item"), item[:]...))
	for _, nb := range m.neighbours(m.Cfg.Adversary) {
		h := m.byName[nb] // the honest node the forgeries try to name
		gs := append([]*protobufcompiled.Gossiper(nil), msg.Gossipers()...)
		sign := func(a *world.Actor, addr string, it [32]byte) *protobufcompiled.Gossiper {
			d, s := a.Sign(append([]byte(addr), it[:]...))
			return &protobufcompiled.Gossiper{Address: addr, Digest: d[:], Signature: s}
		}
		if mask&1 != 0 { // garbage entry naming the honest node
			gs = append(gs, &protobufcompiled.Gossiper{Address: h.Actor.Addr, Digest: make([]byte, 32), Signature: make([]byte, 64)})
		}
		if mask&2 != 0 { // the honest node's valid signature for a different item
			gs = append(gs, sign(h.Actor, h.Actor.Addr, other))
		}
		if mask&4 != 0 { // the adversary's own valid entry
			gs = append(gs, sign(adv.Actor, adv.Actor.Addr, item))
		}
		if mask&8 != 0 { // honest address, adversary's signature
			gs = append(gs, sign(adv.Actor, h.Actor.Addr, item))
		}
		if mask&16 != 0 && len(gs) > 0 { // duplicate of an existing entry
			gs = append(gs, gs[0])
		}
		if mask&32 != 0 { // Sybil key
			sy := world.Cast("sybil")
			gs = append(gs, sign(sy, sy.Addr, item))
		}
		if mask&128 != 0 { // signatures the adversary captured from parent-fetch requests the honest node sent to it for this very hash
			for _, f := range m.Net.Fetches {
				if f.To == m.Cfg.Adversary && f.From == nb && len(f.Req.Data) == 32 && [32]byte(f.Req.Data) == item {
					gs = append(gs, &protobufcompiled.Gossiper{Address: h.Actor.Addr, Digest: f.Req.Hash, Signature: f.Req.Signature})
				}
			}
		}
		if mask&64 != 0 { // replay: genuine entries of honest nodes, copied verbatim from messages about EARLIER items
			seen := map[string]bool{}
			for _, old := range m.Net.Bag {
				oi := old.Item()
				if oi == item {
					continue
				}
				for _, g := range old.Gossipers() {
					if g == nil || seen[g.Address] || g.Address == adv.Actor.Addr {
						continue
					}
					if len(world.ValidGossipers(oi, []*protobufcompiled.Gossiper{g})) == 1 {
						seen[g.Address] = true
						gs = append(gs, g)
					}
				}
			}
		}
		out := &world.Msg{From: m.Cfg.Adversary, To: nb}
		if msg.Vrx != nil {
			out.Vrx = &protobufcompiled.VrxMsgGossip{Vertex: msg.Vrx.Vertex, Gossipers: gs}
		} else {
			out.Trx = &protobufcompiled.TrxMsgGossip{Trx: msg.Trx.Trx, Gossipers: gs}
		}
		out.ID = len(m.Net.Bag)
		m.Net.Bag = append(m.Net.Bag, out)
	}
}

func (m *Model) nodeKey(f *world.FullNode) string {
	s := f.Book.VerifSnapshot()
	var live, parked, awaiting, flash []string
	for _, v := range s.Vertices {
		m.W.Ref.Learn(v)
	}
	for _, v := range s.Vertices {
		live = append(live, m.W.Ref.Name(v.Hash))
	}
	for _, p := range s.Parked {
		parked = append(parked, fmt.Sprintf("%s#%d", m.W.Ref.Name(p.Vertex.Hash), p.Repeated))
	}
	for k := range f.Cache.VerifDump() {
		if strings.HasPrefix(k, "trx-") {
			awaiting = append(awaiting, k[4:12])
		}
	}
	for it := range m.seen[f.Name] {
		flash = append(flash, m.itemName(it))
	}
	for _, l := range [][]string{live, parked, awaiting, flash} {
		sort.Strings(l)
	}
	var peers []string
	if f.Gossip != nil {
		for a := range f.Gossip.Peers() {
			peers = append(peers, world.AddrName(a))
		}
	}
	sort.Strings(peers)
	return fmt.Sprintf("%s{L[%s] P[%s] A[%s] F[%s] N[%s]}", f.Name, strings.Join(live, " "), strings.Join(parked, " "), strings.Join(awaiting, " "), strings.Join(flash, " "), strings.Join(peers, " "))
}

// Key is the canonical state key: per-node ledgers, awaiting sets, seen sets and the in-flight bag.
func (m *Model) Key() string {
	var parts []string
	for _, f := range m.full {
		parts = append(parts, m.nodeKey(f))
	}
	var bag []string
	for _, msg := range m.Net.Bag {
		st := "p"
		if msg.Delivered == 1 {
			st = "d"
			if !m.Cfg.Dup {
				continue
			}
		} else if msg.Delivered > 1 {
			continue
		}
		it := msg.Item()
		bag = append(bag, fmt.Sprintf("%s:%s>%s:%s:[%s]/%d", st, msg.From, msg.To, m.itemName(it), strings.Join(world.ValidGossipers(it, msg.Gossipers()), ","), len(msg.Gossipers())))
	}
	sort.Strings(bag)
	var exp []string
	for n := range m.expired {
		exp = append(exp, n)
	}
	sort.Strings(exp)
	var fb []string
	for k := range m.firstBatch {
		fb = append(fb, k)
	}
	sort.Strings(fb)
	k := strings.Join(parts, " ") + " BAG[" + strings.Join(bag, " ") + "] EXP[" + strings.Join(exp, ",") + "] FWD[" + strings.Join(fb, ",") + "]" + fmt.Sprintf(" INJ=%v SET=%v BAIT=%v", m.injected, m.settled, baitKey(m.baited))
	h := sha256.Sum256([]byte(k))
	return hex.EncodeToString(h[:12])
}

// Counters returns and clears the counters.
func (m *Model) Counters() map[string]int {
	c := m.counters
	m.counters = map[string]int{}
	return c
}

func (m *Model) quiescent() bool {
	for _, msg := range m.Net.Bag {
		if msg.Delivered == 0 {
			return false
		}
	}
	for _, f := range m.full {
		if len(f.Book.VerifSnapshot().Parked) > 0 {
			return false
		}
	}
	return true
}

// honestReach returns the nodes connected to the origin through honest nodes only.
func (m *Model) honestReach() map[string]bool {
	seen := map[string]bool{m.Cfg.Origin: true}
	stack := []string{m.Cfg.Origin}
	for len(stack) > 0 {
		n := stack[len(stack)-1]
		stack = stack[:len(stack)-1]
		for _, nb := range m.neighbours(n) {
			if nb == m.Cfg.Adversary || seen[nb] {
				continue
			}
			seen[nb] = true
			stack = append(stack, nb)
		}
	}
	return seen
}

// Check evaluates the oracles for the last transition.
func (m *Model) Check(e, res string) []common.Violation {
	out := append([]common.Violation(nil), m.sendViol...)
	if m.evCount == 1 {
		out = append(out, m.initViol...)
	}
	m.counters["transitions"]++
	p := strings.Split(e, ":")
	// per-delivery decision oracle (C12.decision, also meaningful without an adversary)
	if p[0] == "V" || p[0] == "U" {
		id, _ := strconv.Atoi(p[1])
		msg := m.Net.Bag[id]
		item := msg.Item()
		valid := world.ValidGossipers(item, msg.Gossipers())
		inValid := map[string]bool{}
		for _, v := range valid {
			inValid[v] = true
		}
		n := msg.To
		var sentTo []string
		for _, s := range m.Net.Bag[m.preBag:] {
			if s.From == n && s.Item() == item {
				sentTo = append(sentTo, s.To)
			}
		}
		sort.Strings(sentTo)
		m.counters["deliveries"]++
		// expected: nothing if the node has seen the item before or is validly listed; otherwise (if it accepted) all peers not validly listed
		firstTime := m.lastFirst
		var want []string
		if firstTime && !inValid[n] && (m.kind(item) == "trx" || m.holds(n, item)) && res == "ok" {
			for _, nb := range m.neighbours(n) {
				if !inValid[nb] {
					want = append(want, nb)
				}
			}
		}
		if inValid[n] && len(sentTo) == 0 {
			m.counters["skipped-self-validly-listed"]++
		}
		if strings.Join(sentTo, ",") != strings.Join(want, ",") {
			cause := "other"
			switch {
			case inValid[n] && len(sentTo) > 0:
				cause = "processed-although-validly-listed"
			case !inValid[n] && firstTime && len(sentTo) == 0 && m.holdsNow(n, item):
				cause = "accepted-but-not-forwarded"
			case len(sentTo) < len(want):
				cause = "peer-skipped"
			case len(sentTo) > len(want):
				cause = "sent-to-listed-or-twice"
			}
			prop := m.Cfg.Prop
			out = append(out, common.Violation{Property: prop, Predicate: prop + ".decision", Key: prop + ".forward-set-differs/" + cause + "/" + m.kind(item),
				What: fmt.Sprintf("node %s handling %s (valid gossipers %v, %d entries): forwarded to %v, reference says %v", n, m.itemName(item), valid, len(msg.Gossipers()), sentTo, want)})
		}
	}
	if m.quiescent() {
		m.counters["quiescent-states"]++
		reach := m.honestReach()
		for _, n := range m.Cfg.Nodes {
			if n == m.Cfg.Adversary || !reach[n] {
				continue
			}
			for _, it := range m.items {
				if !m.holds(n, it) {
					prop := m.Cfg.Prop
					cause := "never-received"
					if m.seen[n][it] {
						cause = "received-but-not-admitted"
					} else if m.starvedByOrphanPath(n, it) {
						cause = "upstream-relay-admitted-through-orphan-path"
					}
					out = append(out, common.Violation{Property: prop, Predicate: prop + ".everyone", Key: prop + ".not-reached/" + cause + "/" + m.kind(it),
						What: fmt.Sprintf("at quiescence node %s does not hold %s (origin %s)", n, m.itemName(it), m.Cfg.Origin)})
				}
			}
		}
	}
	return out
}

func (m *Model) holdsNow(n string, item [32]byte) bool { return m.holds(n, item) }

// Describe lists the messages of the virtual network with their delivery state and valid gossipers (debug aid).
func (m *Model) Describe() string {
	var out []string
	for _, msg := range m.Net.Bag {
		it := msg.Item()
		out = append(out, fmt.Sprintf("#%d %s>%s %s delivered=%d valid=%v entries=%d", msg.ID, msg.From, msg.To, m.itemName(it), msg.Delivered, world.ValidGossipers(it, msg.Gossipers()), len(msg.Gossipers())))
	}
	for _, n := range m.Cfg.Nodes {
		var seen []string
		for it := range m.seen[n] {
			seen = append(seen, m.itemName(it))
		}
		sort.Strings(seen)
		out = append(out, fmt.Sprintf("node %s seen=%v expired=%v", n, seen, m.expired[n]))
	}
	return strings.Join(out, "\n")
}

// starvedByOrphanPath reports whether node n never received the item because, walking upstream through nodes that
// never received it either, one reaches a relay that admitted it through the orphan path (missing-parent fetch or
// retry), the path on which the code does not forward (the listed known finding of C11).
func (m *Model) starvedByOrphanPath(n string, it [32]byte) bool {
	visited := map[string]bool{n: true}
	stack := []string{n}
	for len(stack) > 0 {
		cur := stack[len(stack)-1]
		stack = stack[:len(stack)-1]
		for _, nb := range m.neighbours(cur) {
			if visited[nb] || nb == m.Cfg.Adversary {
				continue
			}
			visited[nb] = true
			if m.orphanAdmitted[nb][it] {
				return true
			}
			if !m.holds(nb, it) && !m.seen[nb][it] {
				stack = append(stack, nb)
			}
		}
	}
	return false
}

func baitKey(b map[string]bool) string {
	var l []string
	for k := range b {
		l = append(l, k)
	}
	sort.Strings(l)
	return strings.Join(l, ",")
}
