package ledger

import (
	"context"
	"fmt"
	"github.com/bartossh/Computantis/src/transaction"
	"math/big"
	"sort"
	"strings"

	"github.com/bartossh/Computantis/src/accountant"
	"github.com/bartossh/Computantis/src/spice"
	"verif.local/harness/common"
	"verif.local/harness/world"
	"verif.local/vsched"
)

func sameVertex(a, b accountant.Vertex) bool {
	return a.Hash == b.Hash && a.Transaction.Hash == b.Transaction.Hash && a.LeftParentHash == b.LeftParentHash &&
		a.RightParentHash == b.RightParentHash && a.Weight == b.Weight && a.CreatedAt.UnixNano() == b.CreatedAt.UnixNano() &&
		string(a.Signature) == string(b.Signature) && a.SignerPublicAddress == b.SignerPublicAddress &&
		a.Transaction.IssuerAddress == b.Transaction.IssuerAddress && a.Transaction.ReceiverAddress == b.Transaction.ReceiverAddress &&
		a.Transaction.Spice == b.Transaction.Spice && string(a.Transaction.Data) == string(b.Transaction.Data) &&
		a.Transaction.Subject == b.Transaction.Subject && string(a.Transaction.IssuerSignature) == string(b.Transaction.IssuerSignature) &&
		string(a.Transaction.ReceiverSignature) == string(b.Transaction.ReceiverSignature) &&
		a.Transaction.CreatedAt.UnixNano() == b.Transaction.CreatedAt.UnixNano()
}

// ---- C07: truncation is transparent (transition oracle for a successful T event) ----

func (m *Model) checkC07(i int, pre, post view) []common.Violation {
	var out []common.Violation
	R := m.W.Ref
	m.counters["C07.truncations"]++
	moved := map[[32]byte]accountant.Vertex{}
	for h, x := range post.stored {
		if _, was := pre.stored[h]; !was {
			moved[h] = x
		}
	}
	m.counters["C07.moved"] += len(moved)
	if len(pre.stored) > 0 {
		m.counters["C07.repeated-truncations"]++
	}
	// nothing lost, content identical, readable by hash. All look-ups are made first and judged afterwards: what a
	// look-up returned must still be intact after the later look-ups (results must not share storage buffers).
	type looked struct {
		h    [32]byte
		x    accountant.Vertex
		got  accountant.Vertex
		err  error
		tr   transaction.Transaction
		terr error
	}
	var hs [][32]byte
	for h := range pre.all() {
		hs = append(hs, h)
	}
	sort.Slice(hs, func(a, b int) bool { return R.Name(hs[a]) < R.Name(hs[b]) })
	var looks []looked
	for _, h := range hs {
		x := pre.all()[h]
		px, ok := post.all()[h]
		if !ok {
			out = append(out, viol("C07", "C07.lookup", "C07.vertex-lost", fmt.Sprintf("node %d lost %s in truncation", i, R.Name(h)), nil))
			continue
		}
		if !sameVertex(x, px) {
			out = append(out, viol("C07", "C07.lookup", "C07.vertex-content-changed", fmt.Sprintf("node %d: content of %s changed in truncation", i, R.Name(h)), nil))
		}
		l := looked{h: h, x: x}
		l.got, l.err = m.nodes[i].Book.ReadVertex(context.Background(), h)
		l.tr, l.terr = m.nodes[i].Book.ReadTransactionByHash(context.Background(), x.Transaction.Hash)
		looks = append(looks, l)
	}
	for _, l := range looks {
		x := l.x
		if l.err != nil || !sameVertex(l.got, x) {
			out = append(out, viol("C07", "C07.lookup", "C07.read-vertex-differs", fmt.Sprintf("node %d: ReadVertex(%s) after truncation (judged after all look-ups were made): err=%v", i, R.Name(l.h), l.err), nil))
		}
		tr := l.tr
		if l.terr != nil || tr.Hash != x.Transaction.Hash || tr.Spice != x.Transaction.Spice || tr.IssuerAddress != x.Transaction.IssuerAddress ||
			string(tr.Data) != string(x.Transaction.Data) || string(tr.IssuerSignature) != string(x.Transaction.IssuerSignature) || string(tr.ReceiverSignature) != string(x.Transaction.ReceiverSignature) {
			out = append(out, viol("C07", "C07.lookup", "C07.read-transaction-differs", fmt.Sprintf("node %d: ReadTransactionByHash(%s) after truncation (judged after all look-ups were made): err=%v", i, R.TxLabels[x.Transaction.Hash], l.terr), nil))
		}
	}
	// the moved set is closed under ancestors and every moved vertex left the live DAG
	for h, x := range moved {
		if _, still := post.live[h]; still {
			out = append(out, viol("C07", "C07.moved", "C07.moved-vertex-still-live", fmt.Sprintf("node %d: %s is checkpointed and still in the live DAG", i, R.Name(h)), nil))
		}
		for _, p := range [][32]byte{x.LeftParentHash, x.RightParentHash} {
			if p == ([32]byte{}) {
				continue
			}
			if _, ok := post.stored[p]; !ok {
				out = append(out, viol("C07", "C07.moved", "C07.checkpoint-not-ancestor-closed", fmt.Sprintf("node %d: %s was checkpointed but its parent %s was not", i, R.Name(h), R.Name(p)), nil))
			}
		}
	}
	// checkpointed funds = net flow of exactly the stored vertices, each once
	set := map[[32]byte]bool{}
	for h, x := range post.stored {
		R.Learn(x)
		set[h] = true
	}
	addrs := map[string]bool{}
	for _, x := range post.stored {
		addrs[x.Transaction.IssuerAddress] = true
		addrs[x.Transaction.ReceiverAddress] = true
	}
	for a := range post.S.Funds {
		addrs[a] = true
	}
	for a := range addrs {
		in, o := R.Flow(a, set)
		want := new(big.Int).Sub(in, o)
		got := new(big.Int)
		if f, ok := post.S.Funds[a]; ok {
			got = world.Big(f)
		}
		if want.Sign() < 0 {
			m.counters["C07.negative-checkpoint"]++
			if a == post.S.Genesis {
				continue // the genesis issuer's net flow is negative by construction; nothing representable to store
			}
		}
		if got.Cmp(want) != 0 {
			out = append(out, viol("C07", "C07.checkpoint", "C07.checkpoint-funds-wrong", fmt.Sprintf("node %d: checkpointed funds of %s are %s, net flow of the checkpointed vertices is %s", i, world.AddrName(a), got, want), nil))
		}
	}
	// balances tip by tip are unchanged (reference on pre view vs reference on post view; the node is compared with the reference by C06)
	for _, tip := range pre.S.Leaves {
		if _, ok := post.live[tip]; !ok {
			out = append(out, viol("C07", "C07.balances", "C07.tip-disappeared", fmt.Sprintf("node %d: tip %s disappeared in truncation", i, R.Name(tip)), nil))
			continue
		}
		for _, a := range m.addresses() {
			b0, b1 := m.refBalance(pre, tip, a), m.refBalance(post, tip, a)
			if b0.Cmp(b1) != 0 {
				m.counters["C07.balance-changed"]++
				cause := "other"
				anc := R.Ancestors(tip)
				for h := range moved {
					if !anc[h] {
						cause = "tip-does-not-descend-from-cut"
					}
				}
				out = append(out, viol("C07", "C07.balances", "C07.balance-changed/"+cause, fmt.Sprintf("node %d: balance of %s over tip %s was %s before truncation and is %s after", i, world.AddrName(a), R.Name(tip), b0, b1), nil))
			}
		}
	}
	// re-submission of checkpointed vertices and transactions is still refused (mutating if wrongly accepted: done last)
	var mh [][32]byte
	for h := range post.stored {
		mh = append(mh, h)
	}
	sort.Slice(mh, func(a, b int) bool { return R.Name(mh[a]) < R.Name(mh[b]) })
	for _, h := range mh {
		x := post.stored[h]
		if m.isGenesis(x) {
			continue
		}
		c := x
		err := m.nodes[i].Book.AddLeaf(context.Background(), &c)
		vsched.Settle()
		if err == nil {
			out = append(out, viol("C07", "C07.resubmit", "C07.checkpointed-vertex-accepted-again", fmt.Sprintf("node %d accepted checkpointed vertex %s again", i, R.Name(h)), nil))
		}
		t := x.Transaction
		_, err = m.nodes[i].Book.CreateLeaf(context.Background(), &t)
		vsched.Settle()
		if err == nil {
			out = append(out, viol("C07", "C07.resubmit", "C07.checkpointed-transaction-sealed-again", fmt.Sprintf("node %d sealed checkpointed transaction %s again", i, R.TxLabels[t.Hash]), nil))
		}
	}
	return out
}

// checkC07NodeBalances: the node's own answers after the truncation attempt equal the reference balances before it.
func (m *Model) checkC07NodeBalances(i int, pre, post view) []common.Violation {
	var out []common.Violation
	R := m.W.Ref
	for _, tip := range pre.S.Leaves {
		if _, ok := post.live[tip]; !ok {
			continue
		}
		if len(R.Ancestors(tip))+1 < len(pre.all()) {
			continue // not the tip of everything: per-branch changes are the known global-checkpoint finding
		}
		for _, a := range m.addresses() {
			want := m.refBalance(pre, tip, a)
			if want.Sign() < 0 {
				continue
			}
			got, err := m.balanceAt(i, R.Name(tip), a)
			if err != nil || world.Big(got).Cmp(want) != 0 {
				m.counters["C07.node-balance-changed"]++
				out = append(out, viol("C07", "C07.balances", "C07.node-balance-changed-by-truncation", fmt.Sprintf("node %d: balance of %s over tip %s was %s before the truncation attempt, the node now answers %v (err %v)", i, world.AddrName(a), R.Name(tip), want, world.Big(got), err), nil))
			}
		}
	}
	return out
}

// checkC07State is the state part of the truncation oracle (no pre-state needed): checkpointed funds equal the
// net flow of exactly the stored vertices, the stored set is ancestor-closed and disjoint from the live DAG.
func (m *Model) checkC07State(i int, post view) []common.Violation {
	var out []common.Violation
	R := m.W.Ref
	set := map[[32]byte]bool{}
	addrs := map[string]bool{}
	for h, x := range post.stored {
		R.Learn(x)
		set[h] = true
		addrs[x.Transaction.IssuerAddress] = true
		addrs[x.Transaction.ReceiverAddress] = true
		if _, still := post.live[h]; still {
			out = append(out, viol("C07", "C07.moved", "C07.moved-vertex-still-live", fmt.Sprintf("node %d: %s is checkpointed and still in the live DAG", i, R.Name(h)), nil))
		}
		for _, p := range [][32]byte{x.LeftParentHash, x.RightParentHash} {
			if p == ([32]byte{}) {
				continue
			}
			if _, ok := post.stored[p]; !ok {
				out = append(out, viol("C07", "C07.moved", "C07.checkpoint-not-ancestor-closed", fmt.Sprintf("node %d: %s was checkpointed but its parent %s was not", i, R.Name(h), R.Name(p)), nil))
			}
		}
	}
	for a := range post.S.Funds {
		addrs[a] = true
	}
	for a := range addrs {
		in, o := R.Flow(a, set)
		want := new(big.Int).Sub(in, o)
		got := new(big.Int)
		if f, ok := post.S.Funds[a]; ok {
			got = world.Big(f)
		}
		if want.Sign() < 0 && a == post.S.Genesis {
			continue
		}
		if got.Cmp(want) != 0 {
			out = append(out, viol("C07", "C07.checkpoint", "C07.checkpoint-funds-wrong", fmt.Sprintf("node %d: checkpointed funds of %s are %s, net flow of the checkpointed vertices is %s", i, world.AddrName(a), got, want), nil))
		}
	}
	for _, x := range post.live {
		for _, p := range [][32]byte{x.LeftParentHash, x.RightParentHash} {
			if p == ([32]byte{}) {
				continue
			}
			if !post.has(p) {
				out = append(out, viol("C07", "C07.lookup", "C07.vertex-lost", fmt.Sprintf("node %d: parent %s of live %s is neither live nor checkpointed", i, R.Name(p), R.Name(x.Hash)), nil))
			}
		}
	}
	return out
}

// ---- C13: orphans are parked and later admitted ----

func (m *Model) checkC13(post []view, e, res string) []common.Violation {
	var out []common.Violation
	R := m.W.Ref
	kind := evKind(e)
	size, repeats := accountant.VerifBufferBounds()
	for i, v := range post {
		if len(v.S.Parked) > size {
			out = append(out, viol("C13", "C13.bounds", "C13.buffer-over-capacity", fmt.Sprintf("node %d parks %d vertices, capacity is %d", i, len(v.S.Parked), size), nil))
		}
		for _, p := range v.S.Parked {
			if p.Repeated > repeats+1 {
				out = append(out, viol("C13", "C13.bounds", "C13.retries-over-bound", fmt.Sprintf("node %d retried %s %d times, bound is %d", i, R.Name(p.Vertex.Hash), p.Repeated, repeats), nil))
			}
			if err := p.Vertex.VerifVerify(world.SharedVerifier); err != nil {
				out = append(out, viol("C13", "C13.invalid", "C13.invalid-vertex-parked", fmt.Sprintf("node %d parked %s which does not verify", i, R.Name(p.Vertex.Hash)), nil))
			}
		}
	}
	if kind == "K" && len(m.pre) > 0 {
		// a retry tick replays parked vertices of a valid history under the node's own long-lived context: it may admit, park
		// again or give up, but it never takes an admitted vertex out of the ledger
		i := atoi(strings.Split(e, ":")[1])
		if i < len(m.pre) && i < len(post) {
			for h := range m.pre[i].live {
				if !post[i].has(h) {
					out = append(out, viol("C13", "C13.same-ledger", "C13.admitted-vertex-removed-by-retry", fmt.Sprintf("node %d: the retry tick removed %s, which was in the ledger before", i, R.Name(h)), nil))
				}
			}
		}
	}
	if kind == "D" && len(m.pre) > 0 {
		p := strings.Split(e, ":")
		i, k := atoi(p[1]), atoi(p[2])
		x := m.produced[k]
		pre := m.pre[i]
		missing := false
		for _, ph := range [][32]byte{x.LeftParentHash, x.RightParentHash} {
			if _, ok := pre.live[ph]; !ok {
				missing = true
			}
		}
		known := pre.has(x.Hash)
		_, trxKnown := pre.S.TrxIndex[x.Transaction.Hash]
		if !known && !trxKnown {
			m.counters["C13.deliveries"]++
			if missing {
				m.counters["C13.parent-missing"]++
			}
			if missing && res != "parent-missing" && res != "leaf-rejected" {
				out = append(out, viol("C13", "C13.reported", "C13.missing-parent-not-reported", fmt.Sprintf("node %d: %s delivered before its parent, result %s", i, R.Name(x.Hash), res), nil))
			}
			if !missing && res == "parent-missing" {
				out = append(out, viol("C13", "C13.reported", "C13.parent-reported-missing-but-present", fmt.Sprintf("node %d: %s reported parent missing although both parents are live", i, R.Name(x.Hash)), nil))
			}
		}
	}
	// completeness: when nothing is parked and nothing is in flight, the receiver holds every vertex the producer holds
	if len(post) >= 2 {
		src, dst := post[0], post[1]
		if m.overBudget {
			m.counters["C13.over-budget-states"]++
		}
		if len(dst.S.Parked) == 0 && !m.overBudget {
			alldel := true
			for k := range m.produced {
				if m.produced[k].SignerPublicAddress == m.nodes[1].Actor.Addr {
					continue
				}
				if m.delivered[fmt.Sprintf("1/%d", k)] == 0 {
					alldel = false
				}
			}
			if alldel && len(m.produced) > 0 {
				m.counters["C13.complete-states"]++
				for h := range src.all() {
					if !dst.has(h) {
						key := "C13.lost/" + m.lostCause(h, dst)
						out = append(out, viol("C13", "C13.same-ledger", key, fmt.Sprintf("every vertex was delivered and nothing is parked, but node 1 lacks %s held by node 0", R.Name(h)), nil))
					}
				}
			}
		}
	}
	return out
}

func (m *Model) lostCause(h [32]byte, dst view) string {
	x := m.W.Ref.ByHash[h].V
	for _, p := range [][32]byte{x.LeftParentHash, x.RightParentHash} {
		if !dst.has(p) {
			return "parent-also-missing"
		}
	}
	if _, ok := dst.S.TrxIndex[x.Transaction.Hash]; ok {
		return "transaction-held-by-other-vertex"
	}
	return "dropped"
}

// ---- C14: sync reproduces the peer ----

// SyncVariants are the stream shapes offered as sync events: the peer's own stream and five single corruptions.
var SyncVariants = []string{"ok", "dup-vertex", "dup-trx", "unknown-parent", "second-self-sealed", "empty-trx"}

// sync loads the spare node from node i's stream (optionally corrupted) and reports loaded / not-loaded.
func (m *Model) sync(i int, variant string) string {
	ctx := context.Background()
	m.spare.Reset(ctx, m.Cfg.TruncateAt)
	src := m.nodes[i].Book
	var cause error
	cancel := func(e error) {
		if cause == nil {
			cause = e
		}
	}
	if variant == "ok" {
		m.spare.Book.LoadDag(cancel, src.StreamDAG(ctx))
	} else {
		// corrupted variants use the default stream order (the corruption, not the order, is the subject)
		oldq := vsched.Quiet(true)
		defer vsched.Quiet(oldq)
		var vs []*accountant.Vertex
		ch := src.StreamDAG(ctx)
		for {
			v, ok := vsched.Recv2(ch)
			if !ok || v == nil {
				break
			}
			c := *v
			vs = append(vs, &c)
		}
		R, A, M := world.Cast("R"), world.Cast("A"), world.Cast("M")
		last := vs[0]
		switch variant {
		case "dup-vertex":
			c := *last
			vs = append(vs, &c)
		case "dup-trx":
			x := m.W.Craft(M, last.Transaction, last.Hash, last.Hash, last.Weight+1)
			vs = append(vs, &x)
		case "unknown-parent":
			var ph [32]byte
			ph[0], ph[31] = 0xAB, 0xCD
			x := m.W.Craft(M, world.MakeTx(R, A.Addr, "c14-up", nil, sp1(), 777001), ph, ph, last.Weight+1)
			vs = append(vs, &x)
		case "second-self-sealed":
			x := m.W.Craft(M, world.MakeTx(M, A.Addr, "c14-ss", nil, sp1(), 777002), last.Hash, last.Hash, last.Weight+1)
			vs = append(vs, &x)
		case "empty-trx":
			t := world.MakeTx(R, A.Addr, "c14-empty", nil, spice.Melange{}, 777003)
			x := m.W.Craft(M, t, last.Hash, last.Hash, last.Weight+1)
			vs = append(vs, &x)
		}
		out := vsched.MakeChan[*accountant.Vertex](len(vs) + 1)
		for _, v := range vs {
			vsched.Send(out, v)
		}
		vsched.Close(out)
		m.spare.Book.LoadDag(cancel, out)
	}
	vsched.Settle()
	if m.spare.Book.DagLoaded() {
		return "loaded"
	}
	return "not-loaded"
}

func sp1() spice.Melange { return spice.Melange{Currency: 1} }

func (m *Model) checkC14(post []view) []common.Violation {
	if m.synced == "" {
		return nil
	}
	var out []common.Violation
	R := m.W.Ref
	variant := strings.SplitN(m.synced, "=", 2)[0]
	src := post[m.syncSrc]
	dst := mkView(m.spare.Book.VerifSnapshot())
	m.counters["C14.syncs"]++
	if variant != "ok" {
		m.counters["C14.corrupt-streams"]++
		if dst.S.DagLoaded {
			out = append(out, viol("C14", "C14.all-or-nothing", "C14.loaded-corrupt-stream/"+variant, fmt.Sprintf("a stream with %s left the loading node marked as loaded", variant), nil))
		}
		return out
	}
	truncated := len(src.stored) > 0
	cause := "other"
	if truncated {
		cause = "source-truncated"
		m.counters["C14.truncated-sources"]++
	}
	if !dst.S.DagLoaded {
		out = append(out, viol("C14", "C14.same-ledger", "C14.not-loaded/"+cause, fmt.Sprintf("syncing from node %d left the joining node not loaded (%d live, %d checkpointed vertices at the source)", m.syncSrc, len(src.live), len(src.stored)), nil))
		return out
	}
	for h, x := range src.all() {
		y, ok := dst.all()[h]
		if !ok || !sameVertex(x, y) {
			out = append(out, viol("C14", "C14.same-ledger", "C14.vertex-missing/"+cause, fmt.Sprintf("joining node lacks (or altered) %s held by the peer", R.Name(h)), nil))
			break
		}
	}
	for h := range dst.all() {
		if !src.has(h) {
			out = append(out, viol("C14", "C14.same-ledger", "C14.vertex-extra/"+cause, fmt.Sprintf("joining node holds %s which the peer does not", R.Name(h)), nil))
			break
		}
	}
	se, de := map[string]bool{}, map[string]bool{}
	for _, e := range src.S.Edges {
		se[R.Name(e[0])+">"+R.Name(e[1])] = true
	}
	for _, e := range dst.S.Edges {
		de[R.Name(e[0])+">"+R.Name(e[1])] = true
	}
	if len(se) != len(de) {
		out = append(out, viol("C14", "C14.same-ledger", "C14.edges-differ/"+cause, fmt.Sprintf("peer has %d parent links, joining node %d", len(se), len(de)), nil))
	} else {
		for e := range se {
			if !de[e] {
				out = append(out, viol("C14", "C14.same-ledger", "C14.edges-differ/"+cause, "joining node lacks parent link "+e, nil))
				break
			}
		}
	}
	if src.S.Genesis != dst.S.Genesis {
		out = append(out, viol("C14", "C14.genesis", "C14.genesis-wallet-differs/"+cause, fmt.Sprintf("peer's genesis wallet is %s, joining node took %s", world.AddrName(src.S.Genesis), world.AddrName(dst.S.Genesis)), nil))
	}
	// balances tip by tip
	for _, tip := range src.S.Leaves {
		for _, a := range m.addresses() {
			want := m.refBalance(src, tip, a)
			got, err := m.balanceOn(m.spare, R.Name(tip), a)
			m.counters["C14.balance-queries"]++
			if (want.Sign() < 0) != (err != nil) || (err == nil && world.Big(got).Cmp(want) != 0) {
				out = append(out, viol("C14", "C14.balances", "C14.balance-differs/"+cause, fmt.Sprintf("balance of %s over tip %s: peer %s, joining node %v (err %v)", world.AddrName(a), R.Name(tip), want, world.Big(got), err), nil))
			}
		}
	}
	// identical verdicts on follow-up gossip (mutating: last)
	for k, x := range m.produced {
		if src.has(x.Hash) {
			continue
		}
		c1, c2 := x, x
		r1 := world.ErrClass(m.nodes[m.syncSrc].Book.AddLeaf(context.Background(), &c1))
		vsched.Settle()
		r2 := world.ErrClass(m.spare.Book.AddLeaf(context.Background(), &c2))
		vsched.Settle()
		m.counters["C14.follow-ups"]++
		if r1 != r2 {
			out = append(out, viol("C14", "C14.same-decisions", "C14.follow-up-verdict-differs/"+cause, fmt.Sprintf("vertex #%d %s: peer answers %s, joining node %s", k, R.Name(x.Hash), r1, r2), nil))
		}
	}
	return out
}
