package ledger

import (
	"os"
	"bytes"
	"context"
	"crypto/sha256"
	"fmt"
	"math/big"
	"sort"
	"strings"

	"github.com/bartossh/Computantis/src/accountant"
	"github.com/bartossh/Computantis/src/spice"
	"verif.local/harness/common"
	"verif.local/harness/world"
	"verif.local/vsched"
)

func (m *Model) on(p string) bool { return m.Cfg.Props == nil || m.Cfg.Props[p] }

func viol(prop, pred, key, what string, wit any) common.Violation {
	return common.Violation{Property: prop, Predicate: pred, Key: key, What: what, Witness: wit}
}

func (m *Model) trusted(v view, addr string) bool {
	for _, t := range v.S.Trusted {
		if t == addr {
			return true
		}
	}
	return false
}

func (m *Model) isGenesis(x accountant.Vertex) bool {
	return x.LeftParentHash == ([32]byte{}) && x.RightParentHash == ([32]byte{}) && x.Hash == m.W.Genesis.Hash
}

// covered is the reference test of C01 for vertex x in the history anc(x) ∪ extra.
func (m *Model) covered(x accountant.Vertex, extra map[[32]byte]accountant.Vertex) (ok bool, in, out *big.Int) {
	R := m.W.Ref
	set := R.Ancestors(x.Hash)
	for h, sv := range extra {
		R.Learn(sv)
		set[h] = true
	}
	delete(set, x.Hash)
	in, out = R.Flow(x.Transaction.IssuerAddress, set)
	need := new(big.Int).Add(out, world.Big(x.Transaction.Spice))
	return in.Cmp(need) >= 0, in, need
}

// Check evaluates all enabled oracles for the transition pre --ev--> current.
func (m *Model) Check(e, res string) []common.Violation {
	var out []common.Violation
	post := m.views()
	kind := evKind(e)
	m.counters["transitions"]++
	for i := range m.nodes {
		var pre *view
		if i < len(m.pre) {
			pre = &m.pre[i]
		}
		po := post[i]
		if po.S.Throughput < po.S.Weight && po.S.DagLoaded { // isValidWeight is constantly true while throughput >= weight
			out = append(out, viol("ALL", "abstraction", "ABSTRACTION.unsound/throughput<weight", "dropping throughput from the state key is unsound here", nil))
		}
		if m.on("C01") && pre != nil {
			out = append(out, m.checkC01(i, *pre, po, kind)...)
		}
		if m.on("C02") {
			out = append(out, m.checkC02(i, po)...)
		}
		if m.on("C03") {
			out = append(out, m.checkC03(i, po, e, res)...)
		}
		if m.on("C09") {
			out = append(out, m.checkC09(i, pre, po, e, res)...)
		}
		if m.on("C10") {
			out = append(out, m.checkC10(i, po)...)
		}
		if m.Cfg.Props["C05"] {
			out = append(out, m.checkC05(i, po)...)
		}
		if len(m.nodes[i].Log.Fatals) > 0 {
			out = append(out, viol("C08", "C08.nofatal", "C08.fatal/"+kind+"/"+fatalClass(m.nodes[i].Log.Fatals[0]),
				fmt.Sprintf("node %d would terminate (log.Fatal) after %s: %s", i, e, m.nodes[i].Log.Fatals[0]), nil))
		}
	}
	if m.on("C07") && (kind == "T" || kind == "TC") {
		i := atoi(strings.Split(e, ":")[1])
		var vs []common.Violation
		if kind == "T" && res == "ok" {
			vs = m.checkC07(i, m.pre[i], post[i])
		} else {
			// a truncation that failed or was cancelled must leave the ledger as it was, or in a state that still satisfies the truncation invariants
			vs = m.checkC07State(i, post[i])
		}
		vs = append(vs, m.checkC07NodeBalances(i, m.pre[i], post[i])...)
		for k := range vs {
			if m.cancelledTrunc[i] {
				if kind == "T" && res == "ok" {
					vs[k].Key += "/truncation-resumed-after-a-cancelled-one"
				} else {
					vs[k].Key += "/after-cancelled-truncation"
				}
			}
		}
		out = append(out, vs...)
	}
	if m.on("C06") {
		out = append(out, m.checkC06(post)...)
	}
	if m.on("C13") {
		out = append(out, m.checkC13(post, e, res)...)
	}
	if m.on("C14") && m.spare != nil {
		out = append(out, m.checkC14(post)...)
	}
	if m.on("C09") && m.spare != nil && strings.HasPrefix(m.synced, "ok=") {
		// a node that was marked as loaded after a sync is a node like any other: the structural invariant holds on it
		if sv := mkView(m.spare.Book.VerifSnapshot()); sv.S.DagLoaded {
			if os.Getenv("LEDGER_DEBUG") != "" {
				fmt.Fprintf(os.Stderr, "C09 joined: live=%d stored=%d srcStored=%d viol=%d\n", len(sv.live), len(sv.stored), len(post[m.syncSrc].stored), len(m.checkC09(len(m.nodes), nil, sv, e, res)))
			}
			for _, v := range m.checkC09(len(m.nodes), nil, sv, e, res) {
				v.Key += "/joined-node"
				out = append(out, v)
			}
		}
	}
	return out
}

func fatalClass(s string) string {
	for _, k := range []string{"is unknown", "already exists", "unexpected"} {
		if strings.Contains(s, k) {
			return strings.ReplaceAll(k, " ", "-")
		}
	}
	if len(s) > 24 {
		s = s[:24]
	}
	return strings.ReplaceAll(s, " ", "-")
}

func atoi(s string) int {
	n := 0
	fmt.Sscanf(s, "%d", &n)
	return n
}

func evKind(e string) string {
	if i := strings.Index(e, ":"); i >= 0 {
		return e[:i]
	}
	return e
}

// ---- C01 ----

func (m *Model) checkC01(i int, pre, post view, kind string) []common.Violation {
	var out []common.Violation
	pc := pre.confirmed()
	for h := range post.confirmed() {
		if pc[h] {
			continue
		}
		x, ok := post.all()[h]
		if !ok {
			continue
		}
		m.counters["C01.newly-confirmed"]++
		if !world.IsTransfer(x.Transaction) || m.isGenesis(x) || m.trusted(post, x.SignerPublicAddress) {
			continue
		}
		m.counters["C01.tested"]++
		ok2, in, need := m.covered(x, pre.stored)
		if ok2 {
			continue
		}
		m.counters["C01.uncovered"]++
		cause := "event-" + kind
		// structural cause: the vertex was a root of the live DAG (all its parents checkpointed) when it got confirmed
		if _, liveBefore := pre.live[h]; liveBefore {
			isRoot := true
			for _, p := range [][32]byte{x.LeftParentHash, x.RightParentHash} {
				if _, pl := pre.live[p]; pl {
					isRoot = false
				}
			}
			if isRoot {
				cause = "root-tip-after-truncation"
			}
		}
		out = append(out, viol("C01", "C01.covered", "C01.uncovered/"+cause,
			fmt.Sprintf("node %d confirmed %s although its issuer %s received %s and needs %s in the history it builds on", i, m.W.Ref.Name(h),
				world.AddrName(x.Transaction.IssuerAddress), in, need), nil))
	}
	return out
}

// ---- C02 ----

func (m *Model) checkC02(i int, v view) []common.Violation {
	var out []common.Violation
	conf := v.confirmed()
	all := v.all()
	set := map[[32]byte]bool{}
	for h := range conf {
		x := all[h]
		if m.trusted(v, x.SignerPublicAddress) && !m.isGenesis(x) {
			return nil // exempt state: contains vertices sealed under the trusted-node exemption
		}
		m.W.Ref.Learn(x)
		set[h] = true
	}
	if len(set) == 0 {
		return nil
	}
	m.counters["C02.states"]++
	gen := v.S.Genesis
	wallets := map[string]bool{}
	for h := range set {
		t := all[h].Transaction
		wallets[t.IssuerAddress] = true
		wallets[t.ReceiverAddress] = true
	}
	sum := new(big.Int)
	for w := range wallets {
		if w == gen {
			continue
		}
		in, o := m.W.Ref.Flow(w, set)
		bal := new(big.Int).Sub(in, o)
		sum.Add(sum, bal)
		if bal.Sign() < 0 {
			m.counters["C02.overdrawn"]++
			// narrow classifier: every confirmed spend of w is individually covered in its own history
			onlyConcurrent := true
			for h := range set {
				x := all[h]
				if x.Transaction.IssuerAddress == w && world.IsTransfer(x.Transaction) {
					if ok, _, _ := m.covered(x, v.stored); !ok {
						onlyConcurrent = false
					}
				}
			}
			cause := "other"
			if onlyConcurrent {
				cause = "only-concurrent-branches"
			}
			out = append(out, viol("C02", "C02.solvent", "C02.overdraw/"+cause,
				fmt.Sprintf("node %d: wallet %s received %s but spent %s over all confirmed vertices", i, world.AddrName(w), in, o), nil))
		}
	}
	if _, hasGen := set[m.W.Genesis.Hash]; hasGen {
		want := world.Big(m.Cfg.Supply)
		if sum.Cmp(want) != 0 {
			paidToG, _ := m.W.Ref.Flow(gen, set)
			cause := "other"
			if new(big.Int).Add(sum, paidToG).Cmp(want) == 0 && paidToG.Sign() > 0 {
				cause = "paid-to-genesis-wallet"
			}
			out = append(out, viol("C02", "C02.supply", "C02.supply/"+cause,
				fmt.Sprintf("node %d: balances of all non-genesis wallets add up to %s, genesis supply is %s", i, sum, want), nil))
		}
	}
	return out
}

// ---- C03 ----

func (m *Model) checkC03(i int, v view, e, res string) []common.Violation {
	var out []common.Violation
	R := m.W.Ref
	for h := range v.live {
		if _, both := v.stored[h]; both {
			out = append(out, viol("C03", "C03.unique-vertex", "C03.vertex-in-dag-and-storage", fmt.Sprintf("node %d holds %s both in the live DAG and in storage", i, R.Name(h)), nil))
		}
	}
	holders := map[[32]byte][][32]byte{}
	for h, x := range v.all() {
		holders[x.Transaction.Hash] = append(holders[x.Transaction.Hash], h)
	}
	for th, hs := range holders {
		if len(hs) > 1 {
			var ns []string
			for _, h := range hs {
				ns = append(ns, R.Name(h))
			}
			sort.Strings(ns)
			m.counters["C03.dup"]++
			out = append(out, viol("C03", "C03.unique-trx", "C03.trx-in-two-vertices", fmt.Sprintf("node %d holds transaction %s in %d vertices: %s", i, R.TxLabels[th], len(hs), strings.Join(ns, ", ")), nil))
		}
		idx, ok := v.S.TrxIndex[th]
		if !ok {
			out = append(out, viol("C03", "C03.index", "C03.index-missing", fmt.Sprintf("node %d: no index entry for transaction %s held by %s", i, R.TxLabels[th], R.Name(hs[0])), nil))
			continue
		}
		found := false
		for _, h := range hs {
			if bytes.Equal(idx, h[:]) {
				found = true
			}
		}
		if !found {
			out = append(out, viol("C03", "C03.index", "C03.index-points-elsewhere", fmt.Sprintf("node %d: index entry of %s does not point at its holder", i, R.TxLabels[th]), nil))
		}
	}
	for th := range v.S.TrxIndex {
		if _, ok := holders[th]; !ok {
			// an index entry for a parked (not yet admitted) vertex is not created by the code; any ghost entry blocks re-proposal
			m.counters["C03.ghost"]++
			out = append(out, viol("C03", "C03.index", "C03.index-ghost-entry", fmt.Sprintf("node %d: index entry for transaction %s although no vertex holds it (it can never be proposed again)", i, R.TxLabels[th]), nil))
		}
	}
	if v.S.Undecodable > 0 {
		out = append(out, viol("C03", "C03.storage", "C03.undecodable-storage-entry", fmt.Sprintf("node %d: %d storage entries do not decode", i, v.S.Undecodable), nil))
	}
	return out
}

// ---- C09 ----

func (m *Model) checkC09(i int, pre *view, v view, e, res string) []common.Violation {
	var out []common.Violation
	R := m.W.Ref
	edges := map[string]bool{}
	for _, ed := range v.S.Edges {
		edges[string(ed[0][:])+string(ed[1][:])] = true
	}
	want := 0
	for h, x := range v.live {
		if id, ok := v.S.DagIDs[h]; !ok || id != h {
			out = append(out, viol("C09", "C09.id", "C09.id-not-hash", fmt.Sprintf("node %d stores %s under a different id", i, R.Name(h)), nil))
		}
		ps := map[[32]byte]bool{x.LeftParentHash: true, x.RightParentHash: true}
		for p := range ps {
			if p == ([32]byte{}) {
				if !m.isGenesis(x) && x.Hash != m.W.Genesis.Hash {
					out = append(out, viol("C09", "C09.parents", "C09.zero-parent-non-genesis", fmt.Sprintf("node %d: %s declares a zero parent", i, R.Name(h)), nil))
				}
				continue
			}
			if _, pl := v.live[p]; pl {
				want++
				if !edges[string(p[:])+string(h[:])] {
					m.counters["C09.missing-edge"]++
					out = append(out, viol("C09", "C09.edges", "C09.edge-missing", fmt.Sprintf("node %d: no edge %s -> %s although the parent is live", i, R.Name(p), R.Name(h)), nil))
				}
			} else if _, ps := v.stored[p]; !ps {
				out = append(out, viol("C09", "C09.parents", "C09.parent-neither-live-nor-checkpointed", fmt.Sprintf("node %d: parent %s of %s is neither live nor checkpointed", i, R.Name(p), R.Name(h)), nil))
			}
		}
		if err := x.VerifVerify(world.SharedVerifier); err != nil {
			out = append(out, viol("C09", "C09.authentic", "C09.vertex-does-not-verify", fmt.Sprintf("node %d holds %s which does not verify: %v", i, R.Name(h), err), nil))
		}
		if sha256.Sum256(x.VerifDigestInput()) != x.Hash {
			out = append(out, viol("C09", "C09.authentic", "C09.hash-does-not-recompute", fmt.Sprintf("node %d: hash of %s does not recompute", i, R.Name(h)), nil))
		}
	}
	if len(v.S.Edges) != want {
		out = append(out, viol("C09", "C09.edges", "C09.edge-extra", fmt.Sprintf("node %d has %d edges, declared live parent links are %d", i, len(v.S.Edges), want), nil))
	}
	// acyclic by declared parents (over live vertices)
	state := map[[32]byte]int{}
	var visit func(h [32]byte) bool
	visit = func(h [32]byte) bool {
		switch state[h] {
		case 1:
			return false
		case 2:
			return true
		}
		state[h] = 1
		x := v.live[h]
		for _, p := range [][32]byte{x.LeftParentHash, x.RightParentHash} {
			if _, ok := v.live[p]; ok && !visit(p) {
				return false
			}
		}
		state[h] = 2
		return true
	}
	for h := range v.live {
		if !visit(h) {
			out = append(out, viol("C09", "C09.acyclic", "C09.cycle", fmt.Sprintf("node %d: cycle through %s", i, R.Name(h)), nil))
			break
		}
	}
	// a vertex created by this node's proposal: parents were valid tips, weight = max+1
	if pre != nil && (evKind(e) == "P" || evKind(e) == "PC") && res == "ok" && m.lastNew != nil && atoi(strings.Split(e, ":")[1]) == i {
		x := *m.lastNew
		m.counters["C09.proposals"]++
		var mw uint64
		leaves := map[[32]byte]bool{}
		for _, l := range pre.S.Leaves {
			leaves[l] = true
		}
		for _, p := range [][32]byte{x.LeftParentHash, x.RightParentHash} {
			pv, ok := pre.live[p]
			if !ok || !leaves[p] {
				out = append(out, viol("C09", "C09.created", "C09.created-on-non-tip", fmt.Sprintf("node %d created %s on %s which was not a tip", i, R.Name(x.Hash), R.Name(p)), nil))
				continue
			}
			if pv.Weight > mw {
				mw = pv.Weight
			}
			if world.IsTransfer(pv.Transaction) && !m.isGenesis(pv) && !m.trusted(*pre, pv.SignerPublicAddress) {
				if ok, _, _ := m.covered(pv, pre.stored); !ok {
					out = append(out, viol("C09", "C09.created", "C09.created-on-invalid-tip", fmt.Sprintf("node %d created %s on tip %s which fails the funds test", i, R.Name(x.Hash), R.Name(p)), nil))
				}
			}
		}
		if x.Weight != mw+1 {
			out = append(out, viol("C09", "C09.created", "C09.weight-rule", fmt.Sprintf("node %d created %s with weight %d, parents' max is %d", i, R.Name(x.Hash), x.Weight, mw), nil))
		}
	}
	return out
}

// ---- C10 ----

func (m *Model) checkC10(i int, v view) []common.Violation {
	var out []common.Violation
	R := m.W.Ref
	for h, x := range v.all() {
		if m.isGenesis(x) {
			if x.Transaction.ReceiverAddress == x.Transaction.IssuerAddress {
				out = append(out, viol("C10", "C10.genesis", "C10.genesis-pays-itself", fmt.Sprintf("node %d: genesis names its own issuer as receiver", i), nil))
			}
			continue
		}
		if x.Transaction.IssuerAddress == x.SignerPublicAddress ||
			(world.KeyOf(x.Transaction.IssuerAddress) != "" && world.KeyOf(x.Transaction.IssuerAddress) == world.KeyOf(x.SignerPublicAddress)) {
			m.counters["C10.self-sealed"]++
			out = append(out, viol("C10", "C10.silver", "C10.self-sealed-vertex", fmt.Sprintf("node %d holds %s whose transaction was issued by its own sealing wallet %s", i, R.Name(h), world.AddrName(x.SignerPublicAddress)), nil))
		}
		if v.S.Genesis != "" && (x.Transaction.IssuerAddress == v.S.Genesis || world.KeyOf(x.Transaction.IssuerAddress) == world.KeyOf(v.S.Genesis)) {
			out = append(out, viol("C10", "C10.golden", "C10.genesis-wallet-spends", fmt.Sprintf("node %d holds %s issued by the genesis wallet", i, R.Name(h)), nil))
		}
		if world.IsEmptyTx(x.Transaction) {
			out = append(out, viol("C10", "C10.nonempty", "C10.empty-transaction-sealed", fmt.Sprintf("node %d holds %s with neither data nor spice", i, R.Name(h)), nil))
		}
	}
	return out
}

// ---- C06 ----

// refBalance is checkpoint(stored) + in - out over tip and its live ancestors.
func (m *Model) refBalance(v view, tip [32]byte, addr string) *big.Int {
	set := map[[32]byte]bool{tip: true}
	stack := [][32]byte{tip}
	for len(stack) > 0 {
		h := stack[len(stack)-1]
		stack = stack[:len(stack)-1]
		x := v.live[h]
		for _, p := range [][32]byte{x.LeftParentHash, x.RightParentHash} {
			if _, ok := v.live[p]; ok && !set[p] {
				set[p] = true
				stack = append(stack, p)
			}
		}
	}
	for h, x := range v.stored {
		m.W.Ref.Learn(x)
		set[h] = true
	}
	for h := range set {
		if x, ok := v.live[h]; ok {
			m.W.Ref.Learn(x)
		}
	}
	in, out := m.W.Ref.Flow(addr, set)
	return new(big.Int).Sub(in, out)
}

// maxRepresentable is (2^64-1)*10^18 + 10^18-1.
var maxRepresentable = func() *big.Int {
	x := new(big.Int).Lsh(big.NewInt(1), 64)
	x.Mul(x, new(big.Int).SetUint64(spice.MaxAmountPerSupplementaryCurrency))
	return x.Sub(x, big.NewInt(1))
}()

// grossFlow returns the gross inflow and outflow behind refBalance.
func (m *Model) grossFlow(v view, tip [32]byte, addr string) (*big.Int, *big.Int) {
	set := map[[32]byte]bool{tip: true}
	stack := [][32]byte{tip}
	for len(stack) > 0 {
		h := stack[len(stack)-1]
		stack = stack[:len(stack)-1]
		x := v.live[h]
		for _, p := range [][32]byte{x.LeftParentHash, x.RightParentHash} {
			if _, ok := v.live[p]; ok && !set[p] {
				set[p] = true
				stack = append(stack, p)
			}
		}
	}
	for h := range v.stored {
		set[h] = true
	}
	return m.W.Ref.Flow(addr, set)
}

// balanceAt asks the node for the balance of addr with the given tip forced to be the one used.
func (m *Model) balanceAt(i int, tipName string, addr string) (spice.Melange, error) {
	return m.balanceOn(m.nodes[i], tipName, addr)
}

func (m *Model) balanceOn(n *world.Node, tipName string, addr string) (spice.Melange, error) {
	vsched.SetMapPolicy(func(label string, keys []string) int {
		// CalculateBalance uses the LAST leaf visited: visit every other leaf first
		for j, k := range keys {
			if !strings.HasPrefix(k, tipName+"|") {
				return j
			}
		}
		return 0
	})
	defer vsched.SetMapPolicy(nil)
	b, err := n.Book.CalculateBalance(context.Background(), addr)
	vsched.Settle()
	return b.Spice, err
}

func (m *Model) addresses() []string {
	names := []string{"G", "R", "A", "B", "N1", "M", "never"}
	var out []string
	for _, n := range names {
		out = append(out, world.Cast(n).Addr)
	}
	return out
}

func (m *Model) checkC06(post []view) []common.Violation {
	var out []common.Violation
	R := m.W.Ref
	for i, v := range post {
		if !v.S.DagLoaded {
			continue
		}
		before := m.nodeKey(v)
		for _, tip := range v.S.Leaves {
			for _, a := range m.addresses() {
				want := m.refBalance(v, tip, a)
				got, err := m.balanceAt(i, R.Name(tip), a)
				m.counters["C06.queries"]++
				switch {
				case want.Sign() < 0:
					m.counters["C06.negative"]++
					if err == nil {
						cause := "other"
						if _, gs := v.stored[m.W.Genesis.Hash]; gs && a == v.S.Genesis {
							cause = "genesis-wallet-after-its-vertex-was-checkpointed"
						}
						out = append(out, viol("C06", "C06.error-iff-negative", "C06.number-for-negative-sum/"+cause, fmt.Sprintf("node %d tip %s: balance of %s is %s but the query returned %d.%d", i, R.Name(tip), world.AddrName(a), want, got.Currency, got.SupplementaryCurrency), nil))
					}
				case err != nil && want.Cmp(maxRepresentable) > 0:
					m.counters["C06.unrepresentable"]++ // the true sum does not fit the two-part currency: an error is the only honest answer
				case err != nil:
					cause := world.ErrClass(err)
					in, _ := m.grossFlow(v, tip, a)
					if in.Cmp(maxRepresentable) > 0 {
						cause = "gross-inflow-exceeds-2^64"
					}
					out = append(out, viol("C06", "C06.equals-reference", "C06.error-on-representable/"+cause, fmt.Sprintf("node %d tip %s: balance of %s is %s but the query failed: %v", i, R.Name(tip), world.AddrName(a), want, err), nil))
				case world.Big(got).Cmp(want) != 0:
					m.counters["C06.mismatch"]++
					out = append(out, viol("C06", "C06.equals-reference", "C06.wrong-balance", fmt.Sprintf("node %d tip %s: balance of %s is %s, node reports %s", i, R.Name(tip), world.AddrName(a), want, world.Big(got)), nil))
				}
			}
		}
		after := m.nodeKey(mkView(m.nodes[i].Book.VerifSnapshot()))
		if before != after {
			out = append(out, viol("C06", "C06.readonly", "C06.query-changed-ledger", fmt.Sprintf("node %d: balance queries changed the ledger", i), map[string]string{"before": before, "after": after}))
		}
	}
	// nodes holding the same vertices agree tip by tip: both equal the reference above (transitivity) — counted for evidence
	for i := range post {
		for j := i + 1; j < len(post); j++ {
			if sameVertexSet(post[i], post[j]) {
				m.counters["C06.equal-ledgers-compared"]++
			}
		}
	}
	return out
}

func sameVertexSet(a, b view) bool {
	if len(a.live) != len(b.live) || len(a.stored) != len(b.stored) {
		return false
	}
	for h := range a.live {
		if _, ok := b.live[h]; !ok {
			return false
		}
	}
	for h := range a.stored {
		if _, ok := b.stored[h]; !ok {
			return false
		}
	}
	return true
}

// SnapshotOracles evaluates the state oracles of the given properties (C03, C09, C10, C02) on one node of an
// arbitrary ledger world (used by the SCHED scenarios, which do not go through the SPACE model).
func SnapshotOracles(w *world.LW, n *world.Node, props ...string) []common.Violation {
	m := &Model{W: w, counters: map[string]int{}, Cfg: Cfg{Supply: w.Supply}}
	m.nodes = []*world.Node{n}
	v := mkView(n.Book.VerifSnapshot())
	for _, x := range v.S.Vertices {
		w.Ref.Learn(x)
	}
	var out []common.Violation
	for _, p := range props {
		switch p {
		case "C03":
			out = append(out, m.checkC03(0, v, "", "")...)
		case "C09":
			out = append(out, m.checkC09(0, nil, v, "", "")...)
		case "C10":
			out = append(out, m.checkC10(0, v)...)
		case "C02":
			out = append(out, m.checkC02(0, v)...)
		case "C07":
			out = append(out, m.checkC07State(0, v)...)
		case "C01":
			// state form of C01: every confirmed untrusted spice transfer is covered in its own history (+ checkpoint)
			conf := v.confirmed()
			for h := range conf {
				x := v.all()[h]
				if !world.IsTransfer(x.Transaction) || m.isGenesis(x) || m.trusted(v, x.SignerPublicAddress) {
					continue
				}
				if ok, in, need := m.covered(x, v.stored); !ok {
					out = append(out, viol("C01", "C01.covered", "C01.uncovered/concurrent-proposals", fmt.Sprintf("%s is confirmed although its issuer %s received %s and needs %s in the history it builds on", m.W.Ref.Name(h), world.AddrName(x.Transaction.IssuerAddress), in, need), nil))
				}
			}
		}
	}
	return out
}

// ---- C05 (ledger part): an amount that is not canonical is never accepted into the ledger ----

func (m *Model) checkC05(i int, v view) []common.Violation {
	var out []common.Violation
	conf := v.confirmed()
	for h, x := range v.all() {
		m.counters["C05.vertices-inspected"]++
		if x.Transaction.Spice.SupplementaryCurrency < spice.MaxAmountPerSupplementaryCurrency {
			continue
		}
		how := "tentative-tip"
		if conf[h] {
			how = "confirmed"
		}
		who := "untrusted-sealer"
		if m.trusted(v, x.SignerPublicAddress) {
			who = "trusted-sealer"
		}
		if x.SignerPublicAddress == m.nodes[i].Actor.Addr {
			who = "own-proposal"
		}
		out = append(out, viol("C05", "C05.ledger-canonical", "C05.noncanonical-amount-in-ledger/"+how+"/"+who,
			fmt.Sprintf("node %d holds %s (%s, %s) whose amount %d.%d is not canonical", i, m.W.Ref.Name(h), how, who, x.Transaction.Spice.Currency, x.Transaction.Spice.SupplementaryCurrency), nil))
	}
	for _, p := range v.S.Parked {
		if p.Vertex.Transaction.Spice.SupplementaryCurrency >= spice.MaxAmountPerSupplementaryCurrency {
			m.counters["C05.noncanonical-parked"]++
		}
	}
	return out
}
