// Package ledger is the SPACE model of a small world of real accounting books:
// events propose / deliver / crafted-deliver / truncate / tick / sync, canonical
// state keys and the oracles of C01, C02, C03, C06, C07, C09, C10, C13, C14.
package ledger

import (
	"context"
	"crypto/sha256"
	"encoding/hex"
	"fmt"
	"sort"
	"strconv"
	"strings"
	"time"

	"github.com/bartossh/Computantis/src/accountant"
	"github.com/bartossh/Computantis/src/spice"
	"github.com/bartossh/Computantis/src/transaction"
	"verif.local/harness/world"
	"verif.local/vsched"
)

// TxSpec describes one transaction of the menu.
type TxSpec struct {
	Label    string
	From, To string // cast names
	Cur      uint64
	Supp     uint64
	Data     string // non-empty: contract data
	// EmptyData: the data buffer is allocated but holds no byte ([]byte{} instead of nil) - "no data" as callers of
	// transaction.New usually spell it
	EmptyData bool
}

// Cfg configures the model.
type Cfg struct {
	Nodes           []string
	Supply          spice.Melange
	Menu            []TxSpec // proposable through nodes
	Crafted         []TxSpec // vertices sealed by the outside sealer M on a node's current tips
	TrustedCraf     []TxSpec // vertices sealed by the trusted sealer T
	Truncate        bool
	TruncCancel     []int // C07: additionally offer truncations cancelled at the k-th context poll (once per node)
	Wait            bool  // offer (once) the event "five minutes pass" while some vertex is parked
	DeliverCancel   []int // additionally offer each first delivery with a context cancelled from its k-th poll on (the vertex may be delivered again normally)
	ProposeCancel   []int // additionally offer each proposal with a context that reports cancellation from its k-th poll on (once per transaction)
	Tick            bool
	Dup             bool // allow one duplicate delivery per (node, vertex)
	Sync            bool // C14: evaluate sync to a spare node in every state (needs spare node name in Spare)
	Spare           string
	MaxProposeNodes int // a transaction may be proposed at this many different nodes (default 2)
	TruncateAt      uint64
	Props           map[string]bool // oracles enabled
	Prefix          []string        // events applied (quietly) in Init, e.g. to start from a non-initial history
	Hidden          []TxSpec        // transactions usable by Prefix events but not offered as events
}

// Model implements space.Model.
type Model struct {
	Cfg       Cfg
	nodes     []*world.Node
	spare     *world.Node
	W         *world.LW
	txs       map[string]transaction.Transaction
	produced  []accountant.Vertex
	delivered map[string]int
	proposed  map[string]map[int]bool
	crafted   map[string]bool
	pre       []view
	preKey    string
	counters  map[string]int
	lastNew   *accountant.Vertex
	truncated map[int]int
	// overBudget: some vertex was (or may have been) dropped because the orphan buffer was full or its
	// retries were used up; the admission guarantee of C13 is only demanded inside that budget
	overBudget     bool
	cancelledTrunc map[int]bool // a cancelled (partial) truncation happened on this node
	waited         bool
	cancelTried    map[string]bool // a proposal of this transaction with a cancelled context was made
	synced         string          // C14: "<variant>=<result>" once a sync event ran (terminal)
	syncSrc        int
}

// New creates the model.
func New(cfg Cfg) *Model {
	if cfg.MaxProposeNodes == 0 {
		cfg.MaxProposeNodes = 2
	}
	return &Model{Cfg: cfg, counters: map[string]int{}}
}

// Setup boots the node instances of this worker process.
func (m *Model) Setup() {
	m.nodes = world.GetNodes(m.Cfg.Nodes...)
	if m.Cfg.Spare != "" {
		m.spare = world.GetNodes(m.Cfg.Spare)[0]
	}
}

// actor resolves a cast name; "NAME~kind" is the same wallet under an alias address (see world.Alias).
func (m *Model) actor(n string) *world.Actor {
	if i := strings.Index(n, "~"); i > 0 {
		return world.Alias(n[:i], n[i+1:])
	}
	return world.Cast(n)
}

// Init resets the world.
func (m *Model) Init() {
	m.W = world.NewLW(m.nodes, m.Cfg.Supply, m.Cfg.TruncateAt)
	m.txs = map[string]transaction.Transaction{}
	m.produced = nil
	m.delivered = map[string]int{}
	m.proposed = map[string]map[int]bool{}
	m.crafted = map[string]bool{}
	m.truncated = map[int]int{}
	m.overBudget = false
	m.cancelledTrunc = map[int]bool{}
	m.cancelTried = map[string]bool{}
	m.waited = false
	m.synced = ""
	m.pre = nil
	for _, lists := range [][]TxSpec{m.Cfg.Menu, m.Cfg.Crafted, m.Cfg.TrustedCraf, m.Cfg.Hidden} {
		for _, s := range lists {
			m.txs[s.Label] = m.mkTx(s)
		}
	}
	if len(m.Cfg.TrustedCraf) > 0 {
		for _, n := range m.nodes {
			n.Book.AddTrustedNode(m.actor("T").Addr)
		}
	}
	for _, ev := range m.Cfg.Prefix {
		m.Apply(ev)
		vsched.Settle()
	}
}

func (m *Model) mkTx(s TxSpec) transaction.Transaction {
	if s.EmptyData {
		t := world.MakeTx(m.actor(s.From), m.actor(s.To).Addr, s.Label, []byte{}, spice.Melange{Currency: s.Cur, SupplementaryCurrency: s.Supp}, seq(s.Label))
		m.W.Ref.LabelTx(s.Label, t)
		return t
	}
	if s.Data != "" {
		t := world.MakeTx(m.actor(s.From), m.actor(s.To).Addr, s.Label, []byte(s.Data), spice.Melange{Currency: s.Cur, SupplementaryCurrency: s.Supp}, seq(s.Label))
		m.W.Ref.LabelTx(s.Label, t)
		return t
	}
	t := world.MakeTx(m.actor(s.From), m.actor(s.To).Addr, s.Label, nil, spice.Melange{Currency: s.Cur, SupplementaryCurrency: s.Supp}, seq(s.Label))
	m.W.Ref.LabelTx(s.Label, t)
	return t
}

func seq(label string) int {
	n := 0
	for _, c := range label {
		n = (n*131 + int(c)) % 1_000_000
	}
	return n
}

// ---- events ----

func ev(kind string, a ...any) string {
	parts := []string{kind}
	for _, x := range a {
		parts = append(parts, fmt.Sprint(x))
	}
	return strings.Join(parts, ":")
}

// Enabled lists the events enabled in the current state.
func (m *Model) Enabled() []string {
	var out []string
	if m.synced != "" {
		return nil
	}
	if m.Cfg.Sync && m.spare != nil {
		for i := range m.nodes {
			for _, variant := range SyncVariants {
				out = append(out, ev("S", i, variant))
			}
		}
	}
	for _, s := range m.Cfg.Menu {
		if len(m.proposed[s.Label]) >= m.Cfg.MaxProposeNodes {
			continue
		}
		for i := range m.nodes {
			if m.proposed[s.Label][i] {
				continue
			}
			out = append(out, ev("P", i, s.Label))
			if !m.cancelTried[s.Label] {
				for _, k := range m.Cfg.ProposeCancel {
					out = append(out, ev("PC", i, s.Label, k))
				}
			}
		}
	}
	for k, v := range m.produced {
		for i, n := range m.nodes {
			if v.SignerPublicAddress == n.Actor.Addr {
				continue
			}
			d := m.delivered[fmt.Sprintf("%d/%d", i, k)]
			if d == 0 || (m.Cfg.Dup && d == 1) {
				out = append(out, ev("D", i, k))
			}
			if d == 0 && !m.cancelTried[fmt.Sprintf("D%d/%d", i, k)] {
				for _, c := range m.Cfg.DeliverCancel {
					out = append(out, ev("DC", i, k, c))
				}
			}
		}
	}
	for _, s := range m.Cfg.Crafted {
		if !m.crafted[s.Label] {
			for i := range m.nodes {
				out = append(out, ev("X", i, s.Label))
				for _, k := range m.Cfg.DeliverCancel {
					out = append(out, ev("XC", i, s.Label, k))
				}
			}
		}
	}
	for _, s := range m.Cfg.TrustedCraf {
		if !m.crafted[s.Label] {
			for i := range m.nodes {
				out = append(out, ev("Y", i, s.Label))
			}
		}
	}
	if m.Cfg.Truncate {
		td := int(accountant.VerifTruncateDiff())
		for i, n := range m.nodes {
			s := n.Book.VerifSnapshot()
			if len(s.Vertices) > td+1 && m.truncated[i] < 2 {
				out = append(out, ev("T", i))
				if !m.cancelledTrunc[i] {
					for _, k := range m.Cfg.TruncCancel {
						out = append(out, ev("TC", i, k))
					}
				}
			}
		}
	}
	if m.Cfg.Tick {
		for i, n := range m.nodes {
			if len(n.Book.VerifSnapshot().Parked) > 0 {
				out = append(out, ev("K", i))
			}
		}
	}
	if m.Cfg.Wait && !m.waited {
		for _, n := range m.nodes {
			if len(n.Book.VerifSnapshot().Parked) > 0 {
				out = append(out, "W")
				break
			}
		}
	}
	return out
}

// tips returns the node's tips in canonical order.
func (m *Model) tips(i int) []accountant.Vertex {
	s := m.nodes[i].Book.VerifSnapshot()
	byHash := map[[32]byte]accountant.Vertex{}
	for _, v := range s.Vertices {
		byHash[v.Hash] = v
	}
	var out []accountant.Vertex
	for _, l := range s.Leaves {
		out = append(out, byHash[l])
	}
	sort.Slice(out, func(a, b int) bool { return m.W.Ref.Name(out[a].Hash) < m.W.Ref.Name(out[b].Hash) })
	return out
}

// Apply performs one event.
func (m *Model) Apply(e string) string {
	p := strings.Split(e, ":")
	ctx := context.Background()
	m.lastNew = nil
	switch p[0] {
	case "P":
		i, _ := strconv.Atoi(p[1])
		t := m.txs[p[2]]
		if m.proposed[p[2]] == nil {
			m.proposed[p[2]] = map[int]bool{}
		}
		m.proposed[p[2]][i] = true
		v, err := m.W.Propose(ctx, i, t)
		if err == nil {
			m.produced = append(m.produced, v)
			vv := v
			m.lastNew = &vv
		}
		return world.ErrClass(err)
	case "PC":
		// a proposal whose caller goes away: the context reports cancellation from its k-th poll on
		i, _ := strconv.Atoi(p[1])
		k, _ := strconv.Atoi(p[3])
		t := m.txs[p[2]]
		m.cancelTried[p[2]] = true
		v, err := m.W.Propose(world.NewCountCtx(k), i, t)
		if err == nil {
			if m.proposed[p[2]] == nil {
				m.proposed[p[2]] = map[int]bool{}
			}
			m.proposed[p[2]][i] = true
			m.produced = append(m.produced, v)
			vv := v
			m.lastNew = &vv
		}
		return world.ErrClass(err)
	case "DC":
		// a gossip delivery whose caller goes away: the vertex may arrive again later
		i, _ := strconv.Atoi(p[1])
		k, _ := strconv.Atoi(p[2])
		c, _ := strconv.Atoi(p[3])
		m.cancelTried[fmt.Sprintf("D%d/%d", i, k)] = true
		m.noteBudget(i)
		return world.ErrClass(m.W.Deliver(world.NewCountCtx(c), i, m.produced[k]))
	case "D":
		i, _ := strconv.Atoi(p[1])
		k, _ := strconv.Atoi(p[2])
		m.delivered[fmt.Sprintf("%d/%d", i, k)]++
		m.noteBudget(i)
		return world.ErrClass(m.W.Deliver(ctx, i, m.produced[k]))
	case "Z":
		// a vertex sealed by the outside sealer M directly on the genesis vertex (an old parent): creates a side branch
		i, _ := strconv.Atoi(p[1])
		t := m.txs[p[2]]
		m.crafted[p[2]] = true
		g := m.W.Genesis
		if len(p) > 3 {
			// Z:i:label:k - sealed on the k-th produced vertex instead (siblings, deeper side branches)
			k, _ := strconv.Atoi(p[3])
			g = m.produced[k]
		}
		v := m.W.Craft(m.actor("M"), t, g.Hash, g.Hash, g.Weight+1)
		m.produced = append(m.produced, v)
		m.delivered[fmt.Sprintf("%d/%d", i, len(m.produced)-1)]++
		return world.ErrClass(m.W.Deliver(ctx, i, v))
	case "X", "Y", "XC":
		i, _ := strconv.Atoi(p[1])
		t := m.txs[p[2]]
		m.crafted[p[2]] = true
		if p[0] == "XC" {
			// the crafted vertex reaches the node in a call whose caller goes away at the k-th context poll
			k, _ := strconv.Atoi(p[3])
			ctx = world.NewCountCtx(k)
		}
		tips := m.tips(i)
		if len(tips) == 0 {
			return "no-tips"
		}
		l, r := tips[0], tips[0]
		if len(tips) > 1 {
			r = tips[1]
		}
		w := l.Weight
		if r.Weight > w {
			w = r.Weight
		}
		sealer := m.actor("M")
		if p[0] == "Y" {
			sealer = m.actor("T")
		}
		v := m.W.Craft(sealer, t, l.Hash, r.Hash, w+1)
		m.produced = append(m.produced, v)
		m.delivered[fmt.Sprintf("%d/%d", i, len(m.produced)-1)]++
		return world.ErrClass(m.W.Deliver(ctx, i, v))
	case "W":
		// time passes: nothing the ledger holds expires with time, so this must change no decision
		m.waited = true
		vsched.AdvanceClock(5 * time.Minute)
		return "ok"
	case "TC":
		i, _ := strconv.Atoi(p[1])
		k, _ := strconv.Atoi(p[2])
		m.cancelledTrunc[i] = true
		err := m.nodes[i].Book.VerifTruncate(world.NewCountCtx(k))
		return world.ErrClass(err)
	case "T":
		i, _ := strconv.Atoi(p[1])
		m.truncated[i]++
		err := m.nodes[i].Book.VerifTruncate(ctx)
		return world.ErrClass(err)
	case "S":
		i, _ := strconv.Atoi(p[1])
		res := m.sync(i, p[2])
		m.synced = p[2] + "=" + res
		m.syncSrc = i
		return res
	case "K":
		i, _ := strconv.Atoi(p[1])
		m.noteBudget(i)
		if tk := m.nodes[i].RetryTicker; tk != nil && !tk.Stopped {
			if tk.Fire() {
				return "fired"
			}
			return "not-fired"
		}
		return "no-ticker"
	}
	panic("ledger: unknown event " + e)
}

// noteBudget marks the path as outside the orphan buffer's budget when the next insertion could be refused.
func (m *Model) noteBudget(i int) {
	size, repeats := accountant.VerifBufferBounds()
	s := m.nodes[i].Book.VerifSnapshot()
	if len(s.Parked) >= size {
		m.overBudget = true
	}
	for _, p := range s.Parked {
		if p.Repeated >= repeats {
			// The retry budget only excuses a drop while something the vertex depends on has not even been
			// delivered yet. Once every ancestor has reached the node (admitted or parked), a fair retry loop
			// admits the vertex well inside the budget, so a drop is then the node's own doing.
			if !m.allAncestorsDelivered(i, p.Vertex.Hash) {
				m.overBudget = true
			}
		}
	}
}

func (m *Model) allAncestorsDelivered(i int, h [32]byte) bool {
	s := m.nodes[i].Book.VerifSnapshot()
	held := map[[32]byte]bool{}
	for _, v := range s.Vertices {
		held[v.Hash] = true
	}
	for _, v := range s.Stored {
		held[v.Hash] = true
	}
	for _, p := range s.Parked {
		held[p.Vertex.Hash] = true
	}
	for a := range m.W.Ref.Ancestors(h) {
		if !held[a] {
			return false
		}
	}
	return true
}

// ---- views ----

type view struct {
	S      accountant.VerifSnap
	live   map[[32]byte]accountant.Vertex
	stored map[[32]byte]accountant.Vertex
}

func mkView(s accountant.VerifSnap) view {
	v := view{S: s, live: map[[32]byte]accountant.Vertex{}, stored: map[[32]byte]accountant.Vertex{}}
	for _, x := range s.Vertices {
		v.live[x.Hash] = x
	}
	for _, x := range s.Stored {
		v.stored[x.Hash] = x
	}
	return v
}

func (v view) has(h [32]byte) bool {
	if _, ok := v.live[h]; ok {
		return true
	}
	_, ok := v.stored[h]
	return ok
}

func (v view) all() map[[32]byte]accountant.Vertex {
	out := map[[32]byte]accountant.Vertex{}
	for h, x := range v.stored {
		out[h] = x
	}
	for h, x := range v.live {
		out[h] = x
	}
	return out
}

// confirmed: stored, or referenced as a declared parent by another held vertex.
func (v view) confirmed() map[[32]byte]bool {
	out := map[[32]byte]bool{}
	for h := range v.stored {
		out[h] = true
	}
	for _, x := range v.all() {
		for _, p := range [][32]byte{x.LeftParentHash, x.RightParentHash} {
			if v.has(p) {
				out[p] = true
			}
		}
	}
	return out
}

func (m *Model) views() []view {
	out := make([]view, len(m.nodes))
	for i, n := range m.nodes {
		out[i] = mkView(n.Book.VerifSnapshot())
		for _, x := range out[i].S.Vertices {
			m.W.Ref.Learn(x)
		}
	}
	return out
}

// BeforeLast captures the pre-state.
// Tag marks a successful truncation of a single-tip ledger as a twin transition: with one tip every live vertex
// descends from the cut, so the node must decide every later event exactly as it would have without truncating.
func (m *Model) Tag(ev, res string) string {
	p := strings.Split(ev, ":")
	if p[0] != "T" || res != "ok" || !m.Cfg.Props["C07"] {
		return ""
	}
	i, _ := strconv.Atoi(p[1])
	if i < len(m.pre) && len(m.pre[i].S.Leaves) == 1 && len(m.pre[i].S.Parked) == 0 {
		return "twin"
	}
	return ""
}

// Projection is the truncation-invariant part of the state: which vertices each node holds (live or
// checkpointed), the transaction index and the parked vertices.
func (m *Model) Projection() string {
	if !m.Cfg.Props["C07"] {
		return ""
	}
	R := m.W.Ref
	var parts []string
	for i, v := range m.views() {
		var held, idx, parked []string
		for h := range v.live {
			held = append(held, R.Name(h))
		}
		for h := range v.stored {
			if _, both := v.live[h]; !both {
				held = append(held, R.Name(h))
			}
		}
		for th, vh := range v.S.TrxIndex {
			lbl, ok := R.TxLabels[th]
			if !ok {
				lbl = hx(th)
			}
			var h [32]byte
			copy(h[:], vh)
			idx = append(idx, lbl+">"+R.Name(h))
		}
		for _, p := range v.S.Parked {
			parked = append(parked, R.Name(p.Vertex.Hash))
		}
		sort.Strings(held)
		sort.Strings(idx)
		sort.Strings(parked)
		parts = append(parts, fmt.Sprintf("N%d{V[%s] I[%s] P[%s]}", i, strings.Join(held, " "), strings.Join(idx, " "), strings.Join(parked, " ")))
	}
	return strings.Join(parts, " ")
}

func (m *Model) BeforeLast(string) {
	old := vsched.Quiet(true)
	m.pre = m.views()
	vsched.Quiet(old)
}

func hx(h [32]byte) string { return hex.EncodeToString(h[:6]) }

// nodeKey renders the canonical state of one node.
func (m *Model) nodeKey(v view) string {
	R := m.W.Ref
	var live, stored, idx, parked, funds []string
	for h, x := range v.live {
		live = append(live, R.Name(h)+"^"+R.Name(x.LeftParentHash)+"^"+R.Name(x.RightParentHash))
	}
	for h := range v.stored {
		stored = append(stored, R.Name(h))
	}
	for th, vh := range v.S.TrxIndex {
		lbl, ok := R.TxLabels[th]
		if !ok {
			lbl = hx(th)
		}
		var h [32]byte
		copy(h[:], vh)
		idx = append(idx, lbl+">"+R.Name(h))
	}
	for _, p := range v.S.Parked {
		parked = append(parked, fmt.Sprintf("%s#%d", R.Name(p.Vertex.Hash), p.Repeated))
	}
	for a, f := range v.S.Funds {
		funds = append(funds, fmt.Sprintf("%s=%d.%d", world.AddrName(a), f.Currency, f.SupplementaryCurrency))
	}
	var edges []string
	for _, e := range v.S.Edges {
		edges = append(edges, R.Name(e[0])+">"+R.Name(e[1]))
	}
	for _, l := range [][]string{live, stored, idx, parked, funds, edges} {
		sort.Strings(l)
	}
	tr := append([]string(nil), v.S.Trusted...)
	for i := range tr {
		tr[i] = world.AddrName(tr[i])
	}
	sort.Strings(tr)
	return fmt.Sprintf("L[%s] E[%s] S[%s] I[%s] P[%s] F[%s] T[%s] loaded=%v gen=%s w=%d", strings.Join(live, " "), strings.Join(edges, " "),
		strings.Join(stored, " "), strings.Join(idx, " "), strings.Join(parked, " "), strings.Join(funds, " "), strings.Join(tr, " "),
		v.S.DagLoaded, world.AddrName(v.S.Genesis), v.S.Weight)
}

func (m *Model) fullKey(vs []view) string {
	var parts []string
	for i, v := range vs {
		parts = append(parts, fmt.Sprintf("N%d{%s}", i, m.nodeKey(v)))
	}
	var prod []string
	for k, v := range m.produced {
		d := ""
		for i := range m.nodes {
			d += strconv.Itoa(m.delivered[fmt.Sprintf("%d/%d", i, k)])
		}
		prod = append(prod, m.W.Ref.Name(v.Hash)+"/"+d)
	}
	var prop []string
	for l, s := range m.proposed {
		var ns []string
		for i := range s {
			ns = append(ns, strconv.Itoa(i))
		}
		sort.Strings(ns)
		prop = append(prop, l+"@"+strings.Join(ns, ""))
	}
	sort.Strings(prop)
	var cr []string
	for l := range m.crafted {
		cr = append(cr, l)
	}
	sort.Strings(cr)
	var tr []string
	for i, n := range m.truncated {
		tr = append(tr, fmt.Sprintf("%d:%d", i, n))
	}
	sort.Strings(tr)
	return strings.Join(parts, " ") + " PROD[" + strings.Join(prod, " ") + "] PROP[" + strings.Join(prop, " ") + "] CR[" + strings.Join(cr, " ") + "] TR[" + strings.Join(tr, " ") + "]" + fmt.Sprintf(" OB=%v SYNC=%s CT=%v PC=%v W=%v", m.overBudget, m.synced, len(m.cancelledTrunc), sortedKeys(m.cancelTried), m.waited)
}

// Key returns the canonical key (hashed) of the whole world.
func (m *Model) Key() string {
	k := m.fullKey(m.views())
	h := sha256.Sum256([]byte(k))
	return hex.EncodeToString(h[:12])
}

// LongKey returns the readable canonical state (for replays and debugging).
func (m *Model) LongKey() string { return m.fullKey(m.views()) }

// Counters returns and clears the non-vacuity counters.
func (m *Model) Counters() map[string]int {
	c := m.counters
	m.counters = map[string]int{}
	return c
}

// LongKeyOf replays a path and returns the readable state (debugging aid for replays).
func (m *Model) LongKeyOf(path []string, choices []int) string {
	var k string
	vsched.Run(vsched.Options{BranchData: true, Choices: choices, KeyFunc: world.KeyFunc}, func() {
		vsched.Quiet(true)
		m.Init()
		vsched.Quiet(false)
		for _, e := range path {
			m.Apply(e)
			vsched.Settle()
		}
		vsched.Quiet(true)
		k = m.LongKey()
	})
	return k
}

func sortedKeys(m map[string]bool) []string {
	var out []string
	for k := range m {
		out = append(out, k)
	}
	sort.Strings(out)
	return out
}
