// Package common holds the pieces shared by every check: evidence files,
// known-findings triage, violation artefacts and exit codes.
package common

import (
	"bufio"
	"encoding/json"
	"fmt"
	"os"
	"path/filepath"
	"sort"
	"strconv"
	"strings"
	"sync"
	"time"
)

// Root of the verification tree.
var Root = envOr("VERIF_ROOT", "/verif")

// OutRoot is where evidence and replay artefacts are written (VERIF_OUT; defaults to Root). Self-tests that run the
// checks against deliberately broken trees point it elsewhere so that the committed evidence describes /repo only.
var OutRoot = envOr("VERIF_OUT", Root)

func envOr(k, d string) string {
	if v := os.Getenv(k); v != "" {
		return v
	}
	return d
}

// Tier returns quick or thorough.
func Tier() string {
	if t := os.Getenv("VERIF_TIER"); t == "thorough" {
		return "thorough"
	}
	return "quick"
}

// Seed returns VERIF_SEED (0 if unset).
func Seed() int {
	n, _ := strconv.Atoi(os.Getenv("VERIF_SEED"))
	return n
}

// Finding is one line of known_findings.jsonl.
type Finding struct {
	Status   string `json:"status"` // known | fixed
	Property string `json:"property"`
	Key      string `json:"key"`
	What     string `json:"what"`
	Commit   string `json:"commit,omitempty"`
	Witness  any    `json:"witness,omitempty"`
}

// LoadFindings reads /verif/known_findings.jsonl.
func LoadFindings() []Finding {
	f, err := os.Open(filepath.Join(Root, "known_findings.jsonl"))
	if err != nil {
		return nil
	}
	defer f.Close()
	var out []Finding
	sc := bufio.NewScanner(f)
	sc.Buffer(make([]byte, 1<<20), 1<<24)
	for sc.Scan() {
		line := strings.TrimSpace(sc.Text())
		if line == "" || strings.HasPrefix(line, "#") {
			continue
		}
		var fd Finding
		if err := json.Unmarshal([]byte(line), &fd); err == nil {
			out = append(out, fd)
		}
	}
	return out
}

// Violation is one oracle failure with its stable finding key and replayable witness.
type Violation struct {
	Property  string `json:"property"`
	Predicate string `json:"predicate"`
	Key       string `json:"key"`
	What      string `json:"what"`
	Scenario  string `json:"scenario,omitempty"`
	Witness   any    `json:"witness,omitempty"`
}

// Report collects the outcome of one check run.
type Report struct {
	mu         sync.Mutex
	Property   string
	Level      string
	start      time.Time
	findings   []Finding
	viol       map[string]*Violation // by key (first witness kept)
	violCount  map[string]int
	Coverage   map[string]any
	Assumption []string
	samples    []any
}

// NewReport starts a report.
func NewReport(property, level string) *Report {
	return &Report{Property: property, Level: level, start: time.Now(), findings: LoadFindings(),
		viol: map[string]*Violation{}, violCount: map[string]int{}, Coverage: map[string]any{}}
}

// Add records a violation (deduplicated by key).
func (r *Report) Add(v Violation) {
	r.mu.Lock()
	defer r.mu.Unlock()
	v.Property = r.Property
	r.violCount[v.Key]++
	if _, ok := r.viol[v.Key]; !ok {
		vv := v
		r.viol[v.Key] = &vv
	}
}

// Sample records an explored case for the evidence file (first 8 kept).
func (r *Report) Sample(s any) {
	r.mu.Lock()
	defer r.mu.Unlock()
	if len(r.samples) < 8 {
		r.samples = append(r.samples, s)
	}
}

// SampleCount returns how many samples are stored.
func (r *Report) SampleCount() int {
	r.mu.Lock()
	defer r.mu.Unlock()
	return len(r.samples)
}

// Set stores a coverage key.
func (r *Report) Set(k string, v any) {
	r.mu.Lock()
	defer r.mu.Unlock()
	r.Coverage[k] = v
}

// Inc adds to an integer coverage key.
func (r *Report) Inc(k string, d int) {
	r.mu.Lock()
	defer r.mu.Unlock()
	n, _ := r.Coverage[k].(int)
	r.Coverage[k] = n + d
}

// Assume records an assumption for the evidence file.
func (r *Report) Assume(s string) { r.Assumption = append(r.Assumption, s) }

// Keys returns the violation keys seen.
func (r *Report) Keys() []string {
	var ks []string
	for k := range r.viol {
		ks = append(ks, k)
	}
	sort.Strings(ks)
	return ks
}

// Finish writes the evidence file, prints KNOWN-FINDING / VIOLATION lines and returns the exit code.
// replayKey / replayFile: "replay by re-running" mode for checks whose enumeration is complete and deterministic
// (the product checks): the whole check is run again and the answer is whether the recorded key is still produced.
var replayKey, replayFile string

// ReplayByRerun switches the report into replay mode for the violation stored in file.
func ReplayByRerun(file string) error {
	b, err := os.ReadFile(file)
	if err != nil {
		return err
	}
	var v struct {
		Key string `json:"key"`
	}
	if err := json.Unmarshal(b, &v); err != nil || v.Key == "" {
		return fmt.Errorf("%s: not a violation artefact", file)
	}
	replayKey, replayFile = v.Key, file
	return nil
}

func (r *Report) Finish() int {
	if replayKey != "" {
		// neither the evidence file nor the stored artefacts are rewritten in replay mode
		if v, ok := r.viol[replayKey]; ok {
			fmt.Printf("replay (full re-run): %s reproduced (%d occurrences)\n  %s\n", replayKey, r.violCount[replayKey], v.What)
			fmt.Printf("VIOLATION property=%s replay=%s\n", r.Property, replayFile)
			return 1
		}
		fmt.Printf("replay (full re-run): %s did not reproduce on the current tree\n", replayKey)
		return 0
	}
	known := map[string]Finding{}
	for _, f := range r.findings {
		if f.Property == r.Property && f.Status == "known" {
			known[f.Key] = f
		}
	}
	exit := 0
	nviol := 0
	var knownHit []string
	for _, k := range r.Keys() {
		v := r.viol[k]
		if f, ok := known[k]; ok {
			fmt.Printf("KNOWN-FINDING: property=%s %s [%s] (%d occurrences)\n", r.Property, f.What, k, r.violCount[k])
			knownHit = append(knownHit, k)
			continue
		}
		nviol++
		dir := filepath.Join(OutRoot, "replays")
		os.MkdirAll(dir, 0o755)
		path := filepath.Join(dir, fmt.Sprintf("%s-%s.json", r.Property, sanitize(k)))
		b, _ := json.MarshalIndent(v, "", " ")
		os.WriteFile(path, b, 0o644)
		fmt.Printf("VIOLATION property=%s replay=%s\n", r.Property, path)
		fmt.Printf("  key=%s predicate=%s occurrences=%d\n  %s\n", k, v.Predicate, r.violCount[k], v.What)
		exit = 1
	}
	cov := r.Coverage
	if len(r.samples) > 0 {
		cov["samples"] = r.samples
	}
	cov["known_findings_hit"] = knownHit
	cov["violation_keys"] = r.Keys()
	ev := map[string]any{
		"property_id": r.Property,
		"tier":        Tier(),
		"seed":        Seed(),
		"level":       r.Level,
		"coverage":    cov,
		"assumptions": r.Assumption,
		"wall_s":      time.Since(r.start).Seconds(),
		"violations":  nviol,
	}
	b, _ := json.MarshalIndent(ev, "", " ")
	os.MkdirAll(filepath.Join(OutRoot, "evidence"), 0o755)
	if err := os.WriteFile(filepath.Join(OutRoot, "evidence", r.Property+".json"), b, 0o644); err != nil {
		fmt.Fprintln(os.Stderr, "cannot write evidence:", err)
		return 2
	}
	fmt.Printf("%s: tier=%s violations=%d known=%d wall=%.1fs\n", r.Property, Tier(), nviol, len(knownHit), time.Since(r.start).Seconds())
	return exit
}

func sanitize(s string) string {
	var b strings.Builder
	for _, c := range s {
		switch {
		case c >= 'a' && c <= 'z', c >= 'A' && c <= 'Z', c >= '0' && c <= '9', c == '.', c == '-', c == '_':
			b.WriteRune(c)
		default:
			b.WriteByte('_')
		}
	}
	return b.String()
}

// Deadline returns the internal deadline for a tier (never turns into a failure).
func Deadline(quick, thorough time.Duration) time.Time {
	if s := os.Getenv("VERIF_BUDGET_S"); s != "" {
		if n, err := strconv.Atoi(s); err == nil {
			return time.Now().Add(time.Duration(n) * time.Second)
		}
	}
	if Tier() == "thorough" {
		return time.Now().Add(thorough)
	}
	return time.Now().Add(quick)
}
