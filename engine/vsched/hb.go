package vsched

import (
	"unsafe"
)

// VC is a vector clock indexed by task id.
type VC []int

func (v VC) clone() VC { return append(VC(nil), v...) }

func (v VC) tick(id int) VC {
	for len(v) <= id {
		v = append(v, 0)
	}
	v[id]++
	return v
}

func join(a, b VC) VC {
	n := len(a)
	if len(b) > n {
		n = len(b)
	}
	out := make(VC, n)
	for i := range out {
		var x, y int
		if i < len(a) {
			x = a[i]
		}
		if i < len(b) {
			y = b[i]
		}
		if x > y {
			out[i] = x
		} else {
			out[i] = y
		}
	}
	return out
}

// leq reports a ≤ b pointwise.
func leq(a, b VC) bool {
	for i, x := range a {
		var y int
		if i < len(b) {
			y = b[i]
		}
		if x > y {
			return false
		}
	}
	return true
}

// Sync is a happens-before carrier embedded in shim objects (locks, atomics, library objects).
type Sync struct{ vc VC }

// Acquire joins the carrier's clock into the running task.
func (s *Sync) Acquire() {
	e := cur()
	if e == nil || !e.opt.TrackHB {
		return
	}
	e.cur.vc = join(e.cur.vc, s.vc)
}

// Release publishes the running task's clock into the carrier.
func (s *Sync) Release() {
	e := cur()
	if e == nil || !e.opt.TrackHB {
		return
	}
	e.cur.vc = e.cur.vc.tick(e.cur.id)
	s.vc = join(s.vc, e.cur.vc)
}

// Reset clears the carrier (new generation).
func (s *Sync) Reset() { s.vc = nil }

type accessRec struct {
	keep    unsafe.Pointer // keeps the allocation alive for the execution: its address cannot be reused by another object
	loc     string
	lastW   VC
	lastWBy string
	hasW    bool
	reads   map[int]VC
	readBy  map[int]string
}

var libSync = map[uintptr]*Sync{}

// LibCall orders every call on the same library object (badger DB, bigcache) —
// a conservative happens-before edge that excludes false race reports.
func LibCall(name string, obj any) {
	e := cur()
	if e == nil {
		return
	}
	e.yield(&pendingOp{kind: opGeneric, name: name, obj: ObjID("lib", obj)})
	if e.opt.TrackHB {
		k := ptrOf(obj)
		s := e.libsync(k)
		s.Acquire()
		s.Release()
	}
}

// OSFn marks a call of a file-system function of package os as a visible step of its own: the scheduler may switch
// before it. The call itself stays the real one (the file system is shared state the runtime does not model further).
func OSFn[F any](f F, name string) F {
	if e := cur(); e != nil {
		e.yield(&pendingOp{kind: opGeneric, name: name, obj: "fs"})
	}
	return f
}

func (e *Exec) libsync(k uintptr) *Sync {
	m, _ := e.envs["libsync"].(map[uintptr]*Sync)
	if m == nil {
		m = map[uintptr]*Sync{}
		e.envs["libsync"] = m
	}
	s := m[k]
	if s == nil {
		s = &Sync{}
		m[k] = s
	}
	return s
}

func ptrOf(obj any) uintptr {
	type iface struct{ t, p unsafe.Pointer }
	return uintptr((*iface)(unsafe.Pointer(&obj)).p)
}

// Access records a read or write of a memory location for race detection and,
// when TrackHB is on, is a scheduling point.
func Access(addr unsafe.Pointer, write bool, loc string, site string) {
	e := cur()
	if e == nil || !e.opt.TrackHB {
		return
	}
	if e.opt.AccessYield {
		e.yield(&pendingOp{kind: opGeneric, name: "access", obj: loc})
	}
	t := e.cur
	k := uintptr(addr)
	r := e.accesses[k]
	if r == nil {
		r = &accessRec{keep: addr, loc: loc, reads: map[int]VC{}, readBy: map[int]string{}}
		e.accesses[k] = r
	}
	me := site
	if r.hasW && !leq(r.lastW, t.vc) {
		e.race(Race{Loc: loc, A: r.lastWBy, AWrite: true, B: me, BWrite: write})
	}
	if write {
		for id, rv := range r.reads {
			if id != t.id && !leq(rv, t.vc) {
				e.race(Race{Loc: loc, A: r.readBy[id], AWrite: false, B: me, BWrite: true})
			}
		}
		t.vc = t.vc.tick(t.id)
		r.lastW, r.lastWBy, r.hasW = t.vc.clone(), me, true
		r.reads = map[int]VC{}
		r.readBy = map[int]string{}
	} else {
		t.vc = t.vc.tick(t.id)
		r.reads[t.id] = t.vc.clone()
		r.readBy[t.id] = me
	}
}

func (e *Exec) race(r Race) {
	k := r.Loc + "|" + r.A + "|" + r.B
	if e.raceSeen[k] {
		return
	}
	e.raceSeen[k] = true
	e.res.Races = append(e.res.Races, r)
}

// AccessElem records an access to an element whose address is computed by p (an index expression evaluated a second
// time, ahead of the statement that uses it): p runs under recover, an out-of-range index or nil base records nothing.
func AccessElem(p func() unsafe.Pointer, write bool, loc string, site string) {
	e := cur()
	if e == nil || !e.opt.TrackHB {
		return
	}
	var addr unsafe.Pointer
	func() {
		defer func() { recover() }()
		addr = p()
	}()
	if addr != nil {
		Access(addr, write, loc, site)
	}
}

// AccessAppend records the write append(s, ...) makes into the spare capacity of s (nothing when it must reallocate).
func AccessAppend[T any](s []T, loc string, site string) {
	e := cur()
	if e == nil || !e.opt.TrackHB || len(s) >= cap(s) {
		return
	}
	Access(unsafe.Pointer(&s[: len(s)+1 : cap(s)][len(s)]), true, loc, site)
}

// AccessSlice records an access to the first element of s (one pseudo-location per backing array position 0 of the
// slice window): used for copy() and for byte slices handed to code that is not instrumented.
func AccessSlice[T any](s []T, write bool, loc string, site string) {
	e := cur()
	if e == nil || !e.opt.TrackHB || len(s) == 0 {
		return
	}
	Access(unsafe.Pointer(&s[0]), write, loc, site)
}
