package vsched

import (
	"fmt"
	"sort"
)

// Iter iterates a map in an order owned by the scheduler.
type Iter[K comparable, V any] struct {
	K      K
	V      V
	m      map[K]V
	keys   []K
	choice bool
	label  string
}

// MapIter ranges over m in canonical (sorted) order without branching.
func MapIter[K comparable, V any](m map[K]V) *Iter[K, V] { return mapIter(m, false, "") }

// MapIterChoice ranges over m; every step with ≥ 2 remaining keys is a data choice.
func MapIterChoice[K comparable, V any](m map[K]V, label string) *Iter[K, V] {
	return mapIter(m, true, label)
}

func mapIter[K comparable, V any](m map[K]V, choice bool, label string) *Iter[K, V] {
	it := &Iter[K, V]{m: m, choice: choice, label: label}
	it.keys = make([]K, 0, len(m))
	for k := range m {
		it.keys = append(it.keys, k)
	}
	e := cur()
	if e == nil || len(it.keys) < 2 {
		return it
	}
	names := make([]string, len(it.keys))
	for i, k := range it.keys {
		names[i] = e.keyName(any(k))
	}
	idx := sortStrings(names)
	sorted := make([]K, len(idx))
	for i, j := range idx {
		sorted[i] = it.keys[j]
	}
	it.keys = sorted
	return it
}

func (e *Exec) keyName(k any) string {
	if e.opt.KeyFunc != nil {
		if s, ok := e.opt.KeyFunc(k); ok {
			return s
		}
	}
	switch x := k.(type) {
	case string:
		return x
	case fmt.Stringer:
		return x.String()
	case int, int32, int64, uint, uint32, uint64, uint8, uint16, int8, int16, bool, [32]byte:
		return fmt.Sprintf("%020v", x)
	}
	panic(fmt.Sprintf("vsched: map key of type %T has no canonical order (set Options.KeyFunc)", k))
}

// Next advances the iterator; like Go's range it skips keys deleted meanwhile.
func (it *Iter[K, V]) Next() bool {
	for len(it.keys) > 0 {
		i := 0
		if it.choice && len(it.keys) > 1 {
			if e := cur(); e != nil && e.mapPolicy != nil {
				names := make([]string, len(it.keys))
				for j, k := range it.keys {
					names[j] = e.keyName(any(k))
				}
				i = e.mapPolicy(it.label, names)
				if i < 0 || i >= len(it.keys) {
					i = 0
				}
			} else {
				i = DataChoice("map:"+it.label, len(it.keys))
			}
		}
		k := it.keys[i]
		it.keys = append(it.keys[:i:i], it.keys[i+1:]...)
		v, ok := it.m[k]
		if !ok {
			continue
		}
		it.K, it.V = k, v
		return true
	}
	return false
}

var _ = sort.Strings

// SetMapPolicy installs (or with nil removes) a harness-owned resolution of map-order choices:
// while set, choice iterators ask the policy (label, canonical names of the remaining keys)
// instead of recording a choice point. Used by observers that need a specific tip.
func SetMapPolicy(f func(label string, keys []string) int) {
	if e := cur(); e != nil {
		e.mapPolicy = f
	}
}
