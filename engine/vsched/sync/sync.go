// Package sync is the controlled-runtime replacement for the standard sync
// package (same type and method names).  Pass-through mode delegates to the
// real primitives; controlled mode mirrors their blocking behaviour exactly
// (DESIGN.md Appendix A).
package sync

import (
	"bytes"
	gosync "sync"

	"verif.local/vsched"
)

// Locker mirrors sync.Locker.
type Locker = gosync.Locker

// Mutex mirrors sync.Mutex.
type Mutex struct {
	real gosync.Mutex
	gen  uint64
	held bool
	hb   vsched.Sync
	name string
}

func (m *Mutex) fresh() {
	if g := vsched.Gen(); m.gen != g {
		m.gen, m.held = g, false
		m.hb.Reset()
	}
}

func (m *Mutex) label() string {
	if m.name != "" {
		return m.name
	}
	return vsched.ObjID("mutex", m)
}

// SetName gives the mutex a diagnostic name.
func (m *Mutex) SetName(n string) { m.name = n }

// Lock locks m.
func (m *Mutex) Lock() {
	if !vsched.Active() {
		if vsched.Aborting() {
			return
		}
		m.real.Lock()
		return
	}
	m.fresh()
	vsched.Op("Mutex.Lock", m.label(), func() bool { m.fresh(); return !m.held })
	m.held = true
	m.hb.Acquire()
	vsched.Hold(m.label())
}

// TryLock tries to lock m.
func (m *Mutex) TryLock() bool {
	if !vsched.Active() {
		if vsched.Aborting() {
			return true
		}
		return m.real.TryLock()
	}
	m.fresh()
	vsched.Op("Mutex.TryLock", m.label(), nil)
	if m.held {
		return false
	}
	m.held = true
	m.hb.Acquire()
	vsched.Hold(m.label())
	return true
}

// Unlock unlocks m.
func (m *Mutex) Unlock() {
	if !vsched.Active() {
		if vsched.Aborting() {
			return
		}
		m.real.Unlock()
		return
	}
	m.fresh()
	vsched.ReleasePoint("Mutex.Unlock", m.label())
	if !m.held {
		vsched.Fatal("sync: unlock of unlocked mutex")
	}
	m.hb.Release()
	m.held = false
	vsched.Unhold(m.label())
}

// RWMutex mirrors sync.RWMutex's algorithm state.
type RWMutex struct {
	real       gosync.RWMutex
	gen        uint64
	w          Mutex // writer mutex
	readers    int   // active readers
	announced  bool  // a writer has announced itself (pending or holding)
	holding    bool  // the writer holds the lock
	readerWait int   // readers the announced writer still waits for
	epoch      int   // incremented at every Unlock: admits queued readers
	queued     int
	hbW        vsched.Sync // writer release -> everyone
	hbR        vsched.Sync // reader releases -> next writer
	name       string
}

func (rw *RWMutex) fresh() {
	if g := vsched.Gen(); rw.gen != g {
		*rw = RWMutex{gen: g, name: rw.name}
	}
}

func (rw *RWMutex) label() string {
	if rw.name != "" {
		return rw.name
	}
	return vsched.ObjID("rwmutex", rw)
}

// SetName gives the lock a diagnostic name.
func (rw *RWMutex) SetName(n string) { rw.name = n }

// RLock locks rw for reading.
func (rw *RWMutex) RLock() {
	if !vsched.Active() {
		if vsched.Aborting() {
			return
		}
		rw.real.RLock()
		return
	}
	rw.fresh()
	vsched.Op("RWMutex.RLock", rw.label(), nil)
	rw.fresh()
	if rw.announced {
		// queued behind the writer; admitted by its Unlock
		my := rw.epoch
		rw.queued++
		vsched.Op("RWMutex.RLock#queued", rw.label(), func() bool { return rw.gen != vsched.Gen() || rw.epoch > my })
		// readers counter was incremented on our behalf by Unlock
	} else {
		rw.readers++
	}
	rw.hbW.Acquire()
	vsched.Hold(rw.label() + ":R")
}

// TryRLock tries to lock rw for reading.
func (rw *RWMutex) TryRLock() bool {
	if !vsched.Active() {
		if vsched.Aborting() {
			return true
		}
		return rw.real.TryRLock()
	}
	rw.fresh()
	vsched.Op("RWMutex.TryRLock", rw.label(), nil)
	if rw.announced {
		return false
	}
	rw.readers++
	rw.hbW.Acquire()
	vsched.Hold(rw.label() + ":R")
	return true
}

// RUnlock undoes a single RLock call.
func (rw *RWMutex) RUnlock() {
	if !vsched.Active() {
		if vsched.Aborting() {
			return
		}
		rw.real.RUnlock()
		return
	}
	rw.fresh()
	vsched.ReleasePoint("RWMutex.RUnlock", rw.label())
	if rw.readers <= 0 {
		vsched.Fatal("sync: RUnlock of unlocked RWMutex")
	}
	rw.hbR.Release()
	rw.readers--
	if rw.announced && !rw.holding && rw.readerWait > 0 {
		rw.readerWait--
	}
	vsched.Unhold(rw.label() + ":R")
}

// Lock locks rw for writing.
func (rw *RWMutex) Lock() {
	if !vsched.Active() {
		if vsched.Aborting() {
			return
		}
		rw.real.Lock()
		return
	}
	rw.fresh()
	rw.w.name = rw.label() + ".w"
	// step 1: writer mutex + announcement (atomic in effect, see DESIGN Appendix A)
	vsched.Op("RWMutex.Lock", rw.label(), func() bool { rw.fresh(); rw.w.fresh(); return !rw.w.held })
	rw.w.fresh()
	rw.w.held = true
	rw.announced = true
	rw.readerWait = rw.readers
	// step 2: wait for the readers that were active at the announcement
	if rw.readerWait > 0 {
		vsched.Op("RWMutex.Lock#wait", rw.label(), func() bool { return rw.gen != vsched.Gen() || rw.readerWait == 0 })
	}
	rw.holding = true
	rw.hbW.Acquire()
	rw.hbR.Acquire()
	vsched.Hold(rw.label() + ":W")
}

// TryLock tries to lock rw for writing.
func (rw *RWMutex) TryLock() bool {
	if !vsched.Active() {
		if vsched.Aborting() {
			return true
		}
		return rw.real.TryLock()
	}
	rw.fresh()
	vsched.Op("RWMutex.TryLock", rw.label(), nil)
	rw.w.fresh()
	if rw.w.held || rw.readers > 0 {
		return false
	}
	rw.w.held, rw.announced, rw.holding = true, true, true
	rw.hbW.Acquire()
	rw.hbR.Acquire()
	vsched.Hold(rw.label() + ":W")
	return true
}

// Unlock unlocks rw for writing.
func (rw *RWMutex) Unlock() {
	if !vsched.Active() {
		if vsched.Aborting() {
			return
		}
		rw.real.Unlock()
		return
	}
	rw.fresh()
	vsched.ReleasePoint("RWMutex.Unlock", rw.label())
	if !rw.holding {
		vsched.Fatal("sync: Unlock of unlocked RWMutex")
	}
	rw.hbW.Release()
	rw.announced, rw.holding = false, false
	rw.readers += rw.queued // every reader queued during the writer's tenure is admitted at once
	rw.queued = 0
	rw.epoch++
	rw.w.held = false
	vsched.Unhold(rw.label() + ":W")
}

// RLocker mirrors (*sync.RWMutex).RLocker.
func (rw *RWMutex) RLocker() Locker { return (*rlocker)(rw) }

type rlocker RWMutex

func (r *rlocker) Lock()   { (*RWMutex)(r).RLock() }
func (r *rlocker) Unlock() { (*RWMutex)(r).RUnlock() }

// WaitGroup mirrors sync.WaitGroup.
type WaitGroup struct {
	real gosync.WaitGroup
	gen  uint64
	n    int
	hb   vsched.Sync
}

func (wg *WaitGroup) fresh() {
	if g := vsched.Gen(); wg.gen != g {
		wg.gen, wg.n = g, 0
		wg.hb.Reset()
	}
}

// Add adds delta to the counter.
func (wg *WaitGroup) Add(delta int) {
	if !vsched.Active() {
		if vsched.Aborting() {
			return
		}
		wg.real.Add(delta)
		return
	}
	wg.fresh()
	if delta < 0 {
		wg.hb.Release()
	}
	wg.n += delta
	if wg.n < 0 {
		panic("sync: negative WaitGroup counter")
	}
}

// Done decrements the counter.
func (wg *WaitGroup) Done() { wg.Add(-1) }

// Wait blocks until the counter is zero.
func (wg *WaitGroup) Wait() {
	if !vsched.Active() {
		if vsched.Aborting() {
			return
		}
		wg.real.Wait()
		return
	}
	wg.fresh()
	vsched.Op("WaitGroup.Wait", vsched.ObjID("wg", wg), func() bool { wg.fresh(); return wg.n == 0 })
	wg.hb.Acquire()
}

// Once mirrors sync.Once.
type Once struct {
	real gosync.Once
	gen  uint64
	done bool
	m    Mutex
}

// Do calls f exactly once.
func (o *Once) Do(f func()) {
	if !vsched.Active() {
		if vsched.Aborting() {
			return
		}
		o.real.Do(f)
		return
	}
	if g := vsched.Gen(); o.gen != g {
		o.gen, o.done = g, false
	}
	if o.done {
		return
	}
	o.m.Lock()
	defer o.m.Unlock()
	if !o.done {
		defer func() { o.done = true }()
		f()
	}
}

// Map and Pool are not used by the instrumented packages; aliases keep other code compiling.
type Map = gosync.Map

// Pool mirrors sync.Pool: inside an execution it is a deterministic LIFO free list whose Put/Get pair carries a
// happens-before edge (as the race detector models it); outside it delegates to the real pool.
type Pool struct {
	New   func() any
	real  gosync.Pool
	gen   uint64
	items []poolItem
}

type poolItem struct {
	x  any
	hb *vsched.Sync
}

func (p *Pool) fresh() {
	if g := vsched.Gen(); p.gen != g {
		p.gen = g
		p.items = nil
	}
}

// Put adds x to the pool.
func (p *Pool) Put(x any) {
	if !vsched.Active() {
		p.real.Put(x)
		return
	}
	p.fresh()
	poison(x)
	hb := &vsched.Sync{}
	hb.Release()
	p.items = append(p.items, poolItem{x, hb})
}

// poison overwrites the content of a byte buffer that is handed back to the pool: from that moment another
// goroutine may own and rewrite it, so whoever still reads it reads garbage - here deterministically, in every
// schedule, instead of only when a second user happens to come by.
func poison(x any) {
	fill := func(b []byte) {
		b = b[:cap(b)]
		for i := range b {
			b[i] = 0xA5
		}
	}
	switch v := x.(type) {
	case *[]byte:
		if v != nil {
			fill(*v)
		}
	case []byte:
		fill(v)
	case *bytes.Buffer:
		if v != nil {
			fill(v.Bytes())
		}
	}
}

// Get returns the most recently put item, or New().
func (p *Pool) Get() any {
	if !vsched.Active() {
		if x := p.real.Get(); x != nil {
			return x
		}
		if p.New != nil {
			return p.New()
		}
		return nil
	}
	p.fresh()
	if n := len(p.items); n > 0 {
		it := p.items[n-1]
		p.items = p.items[:n-1]
		it.hb.Acquire()
		return it.x
	}
	if p.New != nil {
		return p.New()
	}
	return nil
}
