// Package atomic is the controlled-runtime replacement for sync/atomic's typed values.
package atomic

import (
	goatomic "sync/atomic"

	"verif.local/vsched"
)

func point(name string, hb *vsched.Sync) {
	if vsched.Active() {
		vsched.ReleasePoint(name, "")
		hb.Acquire()
		hb.Release()
	}
}

// Uint64 mirrors atomic.Uint64.
type Uint64 struct {
	v  goatomic.Uint64
	hb vsched.Sync
}

func (x *Uint64) Load() uint64         { point("atomic.Load", &x.hb); return x.v.Load() }
func (x *Uint64) Store(v uint64)       { point("atomic.Store", &x.hb); x.v.Store(v) }
func (x *Uint64) Add(d uint64) uint64  { point("atomic.Add", &x.hb); return x.v.Add(d) }
func (x *Uint64) Swap(v uint64) uint64 { point("atomic.Swap", &x.hb); return x.v.Swap(v) }
func (x *Uint64) CompareAndSwap(o, n uint64) bool {
	point("atomic.CAS", &x.hb)
	return x.v.CompareAndSwap(o, n)
}

// Int32 mirrors atomic.Int32.
type Int32 struct {
	v  goatomic.Int32
	hb vsched.Sync
}

func (x *Int32) Load() int32        { point("atomic.Load", &x.hb); return x.v.Load() }
func (x *Int32) Store(v int32)      { point("atomic.Store", &x.hb); x.v.Store(v) }
func (x *Int32) Add(d int32) int32  { point("atomic.Add", &x.hb); return x.v.Add(d) }
func (x *Int32) Swap(v int32) int32 { point("atomic.Swap", &x.hb); return x.v.Swap(v) }
func (x *Int32) CompareAndSwap(o, n int32) bool {
	point("atomic.CAS", &x.hb)
	return x.v.CompareAndSwap(o, n)
}

// Int64 mirrors atomic.Int64.
type Int64 struct {
	v  goatomic.Int64
	hb vsched.Sync
}

func (x *Int64) Load() int64       { point("atomic.Load", &x.hb); return x.v.Load() }
func (x *Int64) Store(v int64)     { point("atomic.Store", &x.hb); x.v.Store(v) }
func (x *Int64) Add(d int64) int64 { point("atomic.Add", &x.hb); return x.v.Add(d) }
func (x *Int64) CompareAndSwap(o, n int64) bool {
	point("atomic.CAS", &x.hb)
	return x.v.CompareAndSwap(o, n)
}

// Uint32 mirrors atomic.Uint32.
type Uint32 struct {
	v  goatomic.Uint32
	hb vsched.Sync
}

func (x *Uint32) Load() uint32        { point("atomic.Load", &x.hb); return x.v.Load() }
func (x *Uint32) Store(v uint32)      { point("atomic.Store", &x.hb); x.v.Store(v) }
func (x *Uint32) Add(d uint32) uint32 { point("atomic.Add", &x.hb); return x.v.Add(d) }

// Bool mirrors atomic.Bool.
type Bool struct {
	v  goatomic.Bool
	hb vsched.Sync
}

func (x *Bool) Load() bool   { point("atomic.Load", &x.hb); return x.v.Load() }
func (x *Bool) Store(v bool) { point("atomic.Store", &x.hb); x.v.Store(v) }
