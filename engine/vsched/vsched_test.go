package vsched_test

import (
	"testing"

	"verif.local/vsched"
	vsync "verif.local/vsched/sync"
)

func exploreAll(t *testing.T, pre int, body func(), check func(r *vsched.Result)) vsched.Stats {
	x := &vsched.Explorer{Opt: vsched.Options{BranchSched: true, BranchData: true}, Bounds: vsched.Bounds{Preempt: pre, Data: -1}}
	x.Check = func(r *vsched.Result) bool {
		if r.Diverged != "" {
			t.Fatalf("diverged: %s", r.Diverged)
		}
		check(r)
		return true
	}
	x.Run(body)
	return x.Stats
}

func TestMutexCounter(t *testing.T) {
	outcomes := map[int]int{}
	var final int
	st := exploreAll(t, 2, func() {
		var mu vsync.Mutex
		c := 0
		inc := func() { mu.Lock(); v := c; vsched.PointAt("x", nil); c = v + 1; mu.Unlock() }
		a := vsched.GoClient("a", inc)
		b := vsched.GoClient("b", inc)
		vsched.Join(a, b)
		final = c
	}, func(r *vsched.Result) {
		if !r.RootDone {
			t.Fatalf("root not done: %+v", r.Blocked)
		}
		outcomes[final]++
	})
	if len(outcomes) != 1 || outcomes[2] == 0 {
		t.Fatalf("outcomes %v", outcomes)
	}
	t.Logf("mutex: %+v", st)
}

func TestLostUpdate(t *testing.T) {
	outcomes := map[int]int{}
	var final int
	st := exploreAll(t, 1, func() {
		c := 0
		inc := func() { v := c; vsched.PointAt("x", nil); c = v + 1 }
		a := vsched.GoClient("a", inc)
		b := vsched.GoClient("b", inc)
		vsched.Join(a, b)
		final = c
	}, func(r *vsched.Result) { outcomes[final]++ })
	if outcomes[1] == 0 || outcomes[2] == 0 {
		t.Fatalf("expected both outcomes, got %v", outcomes)
	}
	t.Logf("lost update: %+v %v", st, outcomes)
}

func TestRecursiveRLockDeadlock(t *testing.T) {
	dead := 0
	total := 0
	exploreAll(t, 2, func() {
		var rw vsync.RWMutex
		a := vsched.GoClient("reader", func() { rw.RLock(); rw.RLock(); rw.RUnlock(); rw.RUnlock() })
		b := vsched.GoClient("writer", func() { rw.Lock(); rw.Unlock() })
		vsched.Join(a, b)
	}, func(r *vsched.Result) {
		total++
		if !r.RootDone {
			dead++
		}
	})
	if dead == 0 || dead == total {
		t.Fatalf("dead=%d total=%d", dead, total)
	}
	t.Logf("recursive rlock: %d of %d executions deadlock", dead, total)
}

func TestChannels(t *testing.T) {
	outs := map[string]int{}
	var out string
	exploreAll(t, 2, func() {
		out = ""
		ch := vsched.MakeChan[int](0)
		done := vsched.MakeChan[bool](1)
		vsched.GoClient("p", func() {
			for i := 0; i < 3; i++ {
				c := vsched.R(done)
				if vsched.Select(true, c) == 0 {
					return
				}
				vsched.Send(ch, i)
			}
			vsched.Close(ch)
		})
		for {
			v, ok := vsched.Recv2(ch)
			if !ok {
				break
			}
			out += string(rune('0' + v))
		}
	}, func(r *vsched.Result) {
		if !r.RootDone {
			t.Fatalf("blocked %+v", r.Blocked)
		}
		outs[out]++
	})
	if len(outs) != 1 || outs["012"] == 0 {
		t.Fatalf("outs %v", outs)
	}
}

// The abandoned-walker pattern: consumer signals on a cap-1 channel and leaves;
// producer only looks at the signal before each blocking send.
func TestAbandonedProducerLeaks(t *testing.T) {
	leaks, total := 0, 0
	exploreAll(t, 1, func() {
		ids := vsched.MakeChan[int](0)
		signal := vsched.MakeChan[bool](1)
		vsched.Go(func() {
			for i := 0; i < 3; i++ {
				c := vsched.R(signal)
				if vsched.Select(true, c) == 0 {
					return
				}
				vsched.Send(ids, i)
			}
			vsched.Close(ids)
		})
		vsched.Recv(ids)
		vsched.Send(signal, true)
	}, func(r *vsched.Result) {
		total++
		for _, b := range r.Blocked {
			if b.Class == vsched.Child {
				leaks++
			}
		}
	})
	if leaks == 0 {
		t.Fatalf("no leak found in %d executions", total)
	}
	t.Logf("abandoned producer: leaks in %d of %d", leaks, total)
}

func TestReplayDeterminism(t *testing.T) {
	body := func() {
		var mu vsync.Mutex
		for i := 0; i < 3; i++ {
			vsched.GoClient("t", func() { mu.Lock(); vsched.PointAt("x", nil); mu.Unlock() })
		}
		vsched.Settle()
	}
	opt := vsched.Options{BranchSched: true, Choices: []int{1, 0, 2, 1}, Trace: true}
	r1 := vsched.Run(opt, body)
	r2 := vsched.Run(opt, body)
	if len(r1.Trace) != len(r2.Trace) {
		t.Fatalf("trace len %d vs %d", len(r1.Trace), len(r2.Trace))
	}
	for i := range r1.Trace {
		if r1.Trace[i] != r2.Trace[i] {
			t.Fatalf("trace differs at %d", i)
		}
	}
}

func TestMapIterChoice(t *testing.T) {
	seen := map[string]int{}
	var s string
	exploreAll(t, 0, func() {
		s = ""
		m := map[string]int{"a": 1, "b": 2, "c": 3}
		for it := vsched.MapIterChoice(m, "t"); it.Next(); {
			s += it.K
		}
	}, func(r *vsched.Result) { seen[s]++ })
	if len(seen) != 6 {
		t.Fatalf("orders: %v", seen)
	}
}

// A full buffered channel with a receiver that has not taken its item yet: the sender must wait.
func TestFullBufferWithPendingReceiver(t *testing.T) {
	outs := map[string]int{}
	var got string
	exploreAll(t, 2, func() {
		got = ""
		ch := vsched.MakeChan[int](1)
		vsched.GoClient("p", func() {
			for i := 0; i < 3; i++ {
				vsched.Send(ch, i)
			}
			vsched.Close(ch)
		})
		for {
			v, ok := vsched.Recv2(ch)
			if !ok {
				break
			}
			got += string(rune('0' + v))
		}
	}, func(r *vsched.Result) {
		if !r.RootDone || len(r.Panics) > 0 {
			t.Fatalf("blocked=%v panics=%v", r.Blocked, r.Panics)
		}
		outs[got]++
	})
	if len(outs) != 1 || outs["012"] == 0 {
		t.Fatalf("outs %v", outs)
	}
}
