module verif.local/vsched

go 1.21
