package vsched

import (
	"fmt"
	"reflect"
)

// chanState is the shim-side state of a managed channel.  The real channel
// value keeps flowing through the program's signatures but is never operated
// on in controlled mode.
type chanState struct {
	id      int
	name    string
	cap     int
	buf     []any
	bufVC   []VC
	closed  bool
	closeVC VC
	ref     any // keeps the real channel alive so its address stays unique
	recvN   int
	sendN   int
	recvVCs []VC // vc of k-th receive (for buffered send edges)
}

// Integer is the constraint for channel sizes.
type Integer interface {
	~int | ~int8 | ~int16 | ~int32 | ~int64 | ~uint | ~uint8 | ~uint16 | ~uint32 | ~uint64 | ~uintptr
}

func chanKey(ch any) uintptr {
	v := reflect.ValueOf(ch)
	if !v.IsValid() || v.IsNil() {
		return 0
	}
	return v.Pointer()
}

// MakeChan creates a channel; in controlled mode it is registered as managed.
func MakeChan[T any, N Integer](n N) chan T {
	ch := make(chan T, n)
	if e := cur(); e != nil {
		e.register(ch, int(n), "")
	}
	return ch
}

func (e *Exec) register(ch any, n int, name string) *chanState {
	k := chanKey(ch)
	cs := &chanState{id: len(e.chans), cap: n, ref: ch, name: name}
	if name == "" {
		cs.name = fmt.Sprintf("chan#%d", cs.id)
	}
	e.chans[k] = cs
	return cs
}

// NameChan gives a managed channel a diagnostic name.
func NameChan(ch any, name string) {
	if e := cur(); e != nil {
		if cs := e.chans[chanKey(ch)]; cs != nil {
			cs.name = name
		}
	}
}

// lookup returns the managed state, or (nil, isNil, ext) for nil / external channels.
func (e *Exec) lookup(ch any) (cs *chanState, isNil bool) {
	k := chanKey(ch)
	if k == 0 {
		return nil, true
	}
	return e.chans[k], false
}

func (cs *chanState) waitingReceiver(e *Exec, except *pendingOp) (*task, int) {
	for _, t := range e.tasks {
		if t.done || t.op == nil || t.op == except || t.op.completed {
			continue
		}
		switch t.op.kind {
		case opRecv:
			if t.op.ch == cs {
				return t, -1
			}
		case opSelect:
			for i, c := range t.op.cases {
				if !c.send && c.ch == cs {
					return t, i
				}
			}
		}
	}
	return nil, 0
}

func (cs *chanState) waitingSender(e *Exec, except *pendingOp) (*task, int) {
	for _, t := range e.tasks {
		if t.done || t.op == nil || t.op == except || t.op.completed {
			continue
		}
		switch t.op.kind {
		case opSend:
			if t.op.ch == cs {
				return t, -1
			}
		case opSelect:
			for i, c := range t.op.cases {
				if c.send && c.ch == cs {
					return t, i
				}
			}
		}
	}
	return nil, 0
}

func (cs *chanState) sendReady(e *Exec, op *pendingOp) bool {
	if cs.closed {
		return true // will panic
	}
	if len(cs.buf) < cs.cap {
		return true
	}
	if len(cs.buf) > 0 {
		// buffer full: a pending receiver will take from the buffer first, the sender has to wait for that
		return false
	}
	t, _ := cs.waitingReceiver(e, op)
	return t != nil
}

func (cs *chanState) recvReady(e *Exec, op *pendingOp) bool {
	if len(cs.buf) > 0 || cs.closed {
		return true
	}
	t, _ := cs.waitingSender(e, op)
	return t != nil
}

// doSend performs a send that is known to be ready. Returns panic message if closed.
func (e *Exec) doSend(cs *chanState, self *pendingOp, v any) string {
	if cs.closed {
		return "send on closed channel"
	}
	me := e.cur
	if t, ci := cs.waitingReceiver(e, self); t != nil && len(cs.buf) == 0 {
		// direct hand-off to a blocked receiver
		t.op.completed = true
		t.op.resVal, t.op.resOK, t.op.resCase = v, true, ci
		if e.opt.TrackHB {
			me.vc = me.vc.tick(me.id)
			j := join(me.vc, t.vc)
			t.vc = j.clone()
			if cs.cap == 0 {
				me.vc = j.clone()
			}
		}
		cs.sendN++
		cs.recvN++
		return ""
	}
	if len(cs.buf) < cs.cap {
		cs.buf = append(cs.buf, v)
		if e.opt.TrackHB {
			me.vc = me.vc.tick(me.id)
			// k-th receive happens before (k+cap)-th send completes
			if k := cs.sendN - cs.cap; k >= 0 && k < len(cs.recvVCs) {
				me.vc = join(me.vc, cs.recvVCs[k])
			}
			cs.bufVC = append(cs.bufVC, me.vc.clone())
		}
		cs.sendN++
		return ""
	}
	panic("vsched: doSend on a channel that is not ready")
}

// doRecv performs a receive that is known to be ready.
func (e *Exec) doRecv(cs *chanState, self *pendingOp) (any, bool) {
	me := e.cur
	if len(cs.buf) > 0 {
		v := cs.buf[0]
		cs.buf = cs.buf[1:]
		if e.opt.TrackHB {
			if len(cs.bufVC) > 0 {
				me.vc = join(me.vc, cs.bufVC[0])
				cs.bufVC = cs.bufVC[1:]
			}
			me.vc = me.vc.tick(me.id)
			cs.recvVCs = append(cs.recvVCs, me.vc.clone())
		}
		cs.recvN++
		// a blocked sender can now move its value into the buffer
		if t, ci := cs.waitingSender(e, self); t != nil && !cs.closed {
			var sv any
			if ci < 0 {
				sv = t.op.val
			} else {
				sv = t.op.cases[ci].val
			}
			cs.buf = append(cs.buf, sv)
			if e.opt.TrackHB {
				t.vc = join(t.vc.tick(t.id), me.vc)
				cs.bufVC = append(cs.bufVC, t.vc.clone())
			}
			cs.sendN++
			t.op.completed = true
			t.op.resCase = ci
		}
		return v, true
	}
	if t, ci := cs.waitingSender(e, self); t != nil && !cs.closed {
		var sv any
		if ci < 0 {
			sv = t.op.val
		} else {
			sv = t.op.cases[ci].val
		}
		t.op.completed = true
		t.op.resCase = ci
		if e.opt.TrackHB {
			t.vc = t.vc.tick(t.id)
			j := join(me.vc, t.vc)
			me.vc = j.clone()
			if cs.cap == 0 {
				t.vc = j.clone()
			}
		}
		cs.sendN++
		cs.recvN++
		return sv, true
	}
	if cs.closed {
		if e.opt.TrackHB {
			me.vc = join(me.vc, cs.closeVC)
		}
		return nil, false
	}
	panic("vsched: doRecv on a channel that is not ready")
}

func extClosed(ch any) bool {
	v := reflect.ValueOf(ch)
	chosen, _, rok := reflect.Select([]reflect.SelectCase{
		{Dir: reflect.SelectRecv, Chan: v},
		{Dir: reflect.SelectDefault},
	})
	if chosen == 0 {
		if rok {
			panic("vsched: external channel delivered a value (only close-only external channels are supported)")
		}
		return true
	}
	return false
}

func castVal[T any](v any) T {
	if v == nil {
		var z T
		return z
	}
	return v.(T)
}

// Send is `ch <- v`.
func Send[T any](ch chan<- T, v T) {
	e := cur()
	if e == nil {
		if Aborting() {
			return
		}
		ch <- v
		return
	}
	cs, isNil := e.lookup(ch)
	if isNil {
		e.yield(&pendingOp{kind: opGeneric, name: "send(nil chan)", ready: func() bool { return false }})
		return
	}
	if cs == nil {
		panic("vsched: send on an external (unmanaged) channel")
	}
	op := &pendingOp{kind: opSend, name: "chan.Send", obj: cs.name, ch: cs, val: any(v)}
	e.yield(op)
	if op.completed {
		if op.panicMsg != "" {
			panic(op.panicMsg)
		}
		return
	}
	if msg := e.doSend(cs, op, any(v)); msg != "" {
		panic(msg)
	}
}

// Recv2 is `v, ok := <-ch`.
func Recv2[T any](ch <-chan T) (T, bool) {
	e := cur()
	if e == nil {
		if Aborting() {
			var z T
			return z, false
		}
		v, ok := <-ch
		return v, ok
	}
	cs, isNil := e.lookup(ch)
	if isNil {
		e.yield(&pendingOp{kind: opGeneric, name: "recv(nil chan)", ready: func() bool { return false }})
		var z T
		return z, false
	}
	if cs == nil {
		// external close-only channel
		e.yield(&pendingOp{kind: opGeneric, name: "recv(ext)", ready: func() bool { return extClosed(ch) }})
		var z T
		return z, false
	}
	op := &pendingOp{kind: opRecv, name: "chan.Recv", obj: cs.name, ch: cs}
	e.yield(op)
	if op.completed {
		return castVal[T](op.resVal), op.resOK
	}
	v, ok := e.doRecv(cs, op)
	return castVal[T](v), ok
}

// Recv is `<-ch`.
func Recv[T any](ch <-chan T) T {
	v, _ := Recv2(ch)
	return v
}

// Close is `close(ch)`.
func Close[T any](ch chan<- T) {
	e := cur()
	if e == nil {
		if Aborting() {
			return
		}
		close(ch)
		return
	}
	cs, isNil := e.lookup(ch)
	if isNil {
		panic("close of nil channel")
	}
	if cs == nil {
		panic("vsched: close of an external (unmanaged) channel")
	}
	ReleasePoint("chan.Close", cs.name)
	if cs.closed {
		panic("close of closed channel")
	}
	cs.closed = true
	if e.opt.TrackHB {
		e.cur.vc = e.cur.vc.tick(e.cur.id)
		cs.closeVC = e.cur.vc.clone()
	}
	// blocked senders panic: mark them completed with a panic message
	for _, t := range e.tasks {
		if t.done || t.op == nil || t.op.completed {
			continue
		}
		if t.op.kind == opSend && t.op.ch == cs {
			t.op.completed = true
			t.op.panicMsg = "send on closed channel"
		}
	}
}

// Len / Cap of a managed channel (len(ch), cap(ch)).
func Len[T any](ch chan T) int {
	e := cur()
	if e == nil {
		return len(ch)
	}
	if cs, _ := e.lookup(ch); cs != nil {
		return len(cs.buf)
	}
	return len(ch)
}

// ---- select ----

// Case is one select case.
type Case struct {
	send   bool
	ch     any
	val    any
	cs     *chanState
	op     *pendingOp
	idx    int
	recvFn func() (any, bool) // pass-through receive
	sendFn func()
	rv     reflect.Value
	sv     reflect.Value
}

// R builds a receive case.
func R[T any](ch <-chan T) *CaseOf[T] {
	return &CaseOf[T]{Case: Case{ch: ch, rv: reflect.ValueOf(ch)}}
}

// S builds a send case.
func S[T any](ch chan<- T, v T) *CaseOf[T] {
	return &CaseOf[T]{Case: Case{send: true, ch: ch, val: any(v), rv: reflect.ValueOf(ch), sv: reflect.ValueOf(&v).Elem()}}
}

// CaseOf is a typed select case.
type CaseOf[T any] struct {
	Case
	got T
	ok  bool
}

// Val returns the received value of the chosen receive case.
func (c *CaseOf[T]) Val() T { return c.got }

// Ok returns the second result of the chosen receive case.
func (c *CaseOf[T]) Ok() bool { return c.ok }

func (c *CaseOf[T]) base() *Case { return &c.Case }
func (c *CaseOf[T]) set(v any, ok bool) {
	c.got, c.ok = castVal[T](v), ok
}
func (c *CaseOf[T]) setRV(v reflect.Value, ok bool) {
	if v.IsValid() {
		c.got = v.Interface().(T)
	}
	c.ok = ok
}

// Selectable is implemented by *CaseOf[T].
type Selectable interface {
	base() *Case
	set(v any, ok bool)
	setRV(v reflect.Value, ok bool)
}

func (e *Exec) caseReady(op *pendingOp, i int) bool {
	c := op.cases[i]
	if c.isNil {
		return false
	}
	if c.ext != nil {
		return c.ext()
	}
	if c.send {
		return c.ch.sendReady(e, op)
	}
	return c.ch.recvReady(e, op)
}

// Select performs a select statement; it returns the index of the chosen case, -1 for default.
func Select(hasDefault bool, cases ...Selectable) int {
	e := cur()
	if e == nil {
		if Aborting() {
			if hasDefault {
				return -1
			}
			panic(abortSentinel{})
		}
		return realSelect(hasDefault, cases)
	}
	op := &pendingOp{kind: opSelect, name: "select", hasDefault: hasDefault}
	for _, c := range cases {
		b := c.base()
		sc := selCase{send: b.send, val: b.val}
		cs, isNil := e.lookup(b.ch)
		switch {
		case isNil:
			sc.isNil = true
		case cs == nil:
			if b.send {
				panic("vsched: select send on an external channel")
			}
			ch := b.ch
			sc.ext = func() bool { return extClosed(ch) }
		default:
			sc.ch = cs
			op.obj += cs.name + " "
		}
		op.cases = append(op.cases, sc)
	}
	e.yield(op)
	if op.completed {
		i := op.resCase
		if op.panicMsg != "" {
			panic(op.panicMsg)
		}
		if !op.cases[i].send {
			cases[i].set(op.resVal, op.resOK)
		}
		return i
	}
	var ready []int
	for i := range op.cases {
		if e.caseReady(op, i) {
			ready = append(ready, i)
		}
	}
	if len(ready) == 0 {
		if hasDefault {
			return -1
		}
		panic("vsched: select scheduled with no ready case")
	}
	k := 0
	if len(ready) > 1 {
		k = DataChoice("select", len(ready))
	}
	i := ready[k]
	sc := op.cases[i]
	switch {
	case sc.ext != nil:
		cases[i].set(nil, false)
	case sc.send:
		if msg := e.doSend(sc.ch, op, sc.val); msg != "" {
			panic(msg)
		}
	default:
		v, ok := e.doRecv(sc.ch, op)
		cases[i].set(v, ok)
	}
	return i
}

func realSelect(hasDefault bool, cases []Selectable) int {
	var scs []reflect.SelectCase
	for _, c := range cases {
		b := c.base()
		if b.send {
			scs = append(scs, reflect.SelectCase{Dir: reflect.SelectSend, Chan: b.rv, Send: b.sv})
		} else {
			scs = append(scs, reflect.SelectCase{Dir: reflect.SelectRecv, Chan: b.rv})
		}
	}
	if hasDefault {
		scs = append(scs, reflect.SelectCase{Dir: reflect.SelectDefault})
	}
	i, v, ok := reflect.Select(scs)
	if hasDefault && i == len(cases) {
		return -1
	}
	if !cases[i].base().send {
		cases[i].setRV(v, ok)
	}
	return i
}

// Cap is cap(ch).
func Cap[T any](ch chan T) int { return cap(ch) }
