// Package vtime is the logical clock of the controlled runtime.
package vtime

import (
	"time"

	"verif.local/vsched"
)

// Now returns the logical time in controlled mode (advances 1µs per call).
func Now() time.Time {
	if !vsched.Active() {
		return time.Now()
	}
	return vsched.LogicalNow()
}

// Since is time.Since on the logical clock.
func Since(t time.Time) time.Duration { return Now().Sub(t) }

// Until is time.Until on the logical clock.
func Until(t time.Time) time.Duration { return t.Sub(Now()) }

// Sleep advances the logical clock (controlled) or sleeps (pass-through).
func Sleep(d time.Duration) {
	if !vsched.Active() {
		if vsched.Aborting() {
			return
		}
		time.Sleep(d)
		return
	}
	vsched.AdvanceClock(d)
	vsched.Op("sleep", "", nil)
}

// Ticker mirrors time.Ticker.
type Ticker struct {
	C    <-chan time.Time
	real *time.Ticker
	v    *vsched.Ticker
}

// NewTicker creates a ticker that fires only when the harness fires it.
func NewTicker(d time.Duration) *Ticker {
	if !vsched.Active() {
		if vsched.Aborting() {
			return &Ticker{C: make(chan time.Time)}
		}
		r := time.NewTicker(d)
		return &Ticker{C: r.C, real: r}
	}
	v := vsched.NewTicker(d, false)
	return &Ticker{C: v.C, v: v}
}

// Stop stops the ticker.
func (t *Ticker) Stop() {
	if t.real != nil {
		t.real.Stop()
	}
	if t.v != nil {
		t.v.Stop()
	}
}

// Reset is accepted and ignored in controlled mode.
func (t *Ticker) Reset(d time.Duration) {
	if t.real != nil {
		t.real.Reset(d)
	}
}

// After returns a channel fired by the harness.
func After(d time.Duration) <-chan time.Time {
	if !vsched.Active() {
		if vsched.Aborting() {
			return make(chan time.Time)
		}
		return time.After(d)
	}
	return vsched.NewTicker(d, true).C
}

// Timer mirrors time.Timer.
type Timer struct {
	C    <-chan time.Time
	real *time.Timer
	v    *vsched.Ticker
}

// NewTimer creates a one-shot timer fired only by the harness.
func NewTimer(d time.Duration) *Timer {
	if !vsched.Active() {
		if vsched.Aborting() {
			return &Timer{C: make(chan time.Time)}
		}
		r := time.NewTimer(d)
		return &Timer{C: r.C, real: r}
	}
	v := vsched.NewTicker(d, true)
	return &Timer{C: v.C, v: v}
}

// AfterFunc registers f to run as a task of its own when the harness fires the timer.
func AfterFunc(d time.Duration, f func()) *Timer {
	if !vsched.Active() {
		if vsched.Aborting() {
			return &Timer{}
		}
		return &Timer{real: time.AfterFunc(d, f)}
	}
	v := vsched.NewTicker(d, true)
	v.F = f
	return &Timer{v: v}
}

// Stop prevents the timer from firing; it reports whether the call stopped it before it fired.
func (t *Timer) Stop() bool {
	if t.real != nil {
		return t.real.Stop()
	}
	if t.v != nil {
		was := !t.v.Stopped && t.v.Fired == 0
		t.v.Stop()
		return was
	}
	return false
}

// Reset re-arms the timer (controlled mode: it may be fired once more).
func (t *Timer) Reset(d time.Duration) bool {
	if t.real != nil {
		return t.real.Reset(d)
	}
	if t.v != nil {
		was := !t.v.Stopped && t.v.Fired == 0
		t.v.Stopped = false
		t.v.Fired = 0
		t.v.D = d
		return was
	}
	return false
}
