package vsched

import (
	"fmt"
	"time"
)

// Bounds of a depth-first exploration.
type Bounds struct {
	Preempt int // max pre-emptions per execution (-1 = unbounded)
	Data    int // max data deviations per execution (-1 = unbounded)
	Sched   int // max schedule deviations = pre-emptions + non-default choices at blocking points (0 or -1 = unbounded)
}

// Stats of an exploration.
type Stats struct {
	Executions int
	Points     int64
	Steps      int64
	MaxPoints  int
	Exhaustive bool
	CapHit     string
	Diverged   int
}

// Explorer enumerates all executions of a body within bounds (iterative context bounding).
type Explorer struct {
	Opt      Options
	Bounds   Bounds
	Deadline time.Time
	MaxExec  int
	// Shard selects the level-1 subtrees this process explores: subtree k is taken iff k%ShardN==ShardI.
	ShardI, ShardN int
	Stats          Stats
	// Check is called after every execution; returning false stops the exploration.
	Check func(r *Result) bool
	stop  bool
	sub   int
}

func cost(pts []Point, upto int) (pre, data, sched int) {
	for i := 0; i < upto; i++ {
		p := pts[i]
		if p.Chosen == 0 {
			continue
		}
		switch p.Kind {
		case PSched:
			sched++
			if p.Preempt {
				pre++
			}
		case PData:
			data++
		}
	}
	return
}

// Run explores body. make is called before each execution to build a fresh body closure.
func (x *Explorer) Run(body func()) {
	x.Stats.Exhaustive = true
	x.explore(body, nil, 0)
	if x.stop && x.Stats.CapHit != "" {
		x.Stats.Exhaustive = false
	}
}

func (x *Explorer) explore(body func(), prefix []int, level int) {
	if x.stop {
		return
	}
	if !x.Deadline.IsZero() && time.Now().After(x.Deadline) {
		x.stop, x.Stats.CapHit = true, "deadline"
		return
	}
	if x.MaxExec > 0 && x.Stats.Executions >= x.MaxExec {
		x.stop, x.Stats.CapHit = true, "max executions"
		return
	}
	opt := x.Opt
	opt.Choices = prefix
	r := Run(opt, body)
	x.Stats.Executions++
	x.Stats.Points += int64(len(r.Points))
	x.Stats.Steps += int64(r.Steps)
	if len(r.Points) > x.Stats.MaxPoints {
		x.Stats.MaxPoints = len(r.Points)
	}
	if r.Diverged != "" {
		x.Stats.Diverged++
	}
	if r.HorizonHit {
		x.Stats.CapHit = "step horizon"
		x.Stats.Exhaustive = false
	}
	if x.Check != nil && !x.Check(r) {
		x.stop = true
		return
	}
	for i := len(prefix); i < len(r.Points); i++ {
		p := r.Points[i]
		pre, data, sd := cost(r.Points, i)
		switch p.Kind {
		case PSched:
			sd++
			if p.Preempt {
				pre++
			}
		case PData:
			data++
		}
		if x.Bounds.Sched > 0 && sd > x.Bounds.Sched {
			continue
		}
		if x.Bounds.Preempt >= 0 && pre > x.Bounds.Preempt {
			continue
		}
		if x.Bounds.Data >= 0 && data > x.Bounds.Data {
			continue
		}
		for alt := 1; alt < p.N; alt++ {
			if level == 0 && x.ShardN > 1 {
				k := x.sub
				x.sub++
				if k%x.ShardN != x.ShardI {
					continue
				}
			}
			np := make([]int, i+1)
			copy(np, r.Choices[:i])
			np[i] = alt
			x.explore(body, np, level+1)
			if x.stop {
				return
			}
		}
	}
}

// FormatChoices renders a choice list compactly.
func FormatChoices(c []int) string { return fmt.Sprint(c) }
