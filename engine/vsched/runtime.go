// Package vsched is a controlled runtime for Go concurrency primitives.
//
// In pass-through mode (no execution active) every operation delegates to the
// real primitive.  In controlled mode exactly one task (goroutine) runs at a
// time; every visible operation is a hand-off point at which the scheduler
// (strategy = a list of choices followed by defaults) decides who runs next.
// See /verif/DESIGN.md §3.2 and Appendix A for the semantics that are mirrored.
package vsched

import (
	"fmt"
	"io"
	"runtime/debug"
	"sort"
	"strings"
	"sync"
)

// Class of a task, used by harness oracles (deadlock / leak classification).
type Class int

const (
	Client Class = iota // spawned by the harness with GoClient / the root
	Child               // spawned by code under test during an operation
	Daemon              // spawned while the harness declared "daemon" spawning (constructors)
)

func (c Class) String() string { return [...]string{"client", "child", "daemon"}[c] }

type abortSentinel struct{}

// task is one controlled goroutine.
type task struct {
	id      int
	name    string
	class   Class
	wake    chan struct{}
	exited  chan struct{}
	done    bool
	started bool
	op      *pendingOp
	vc      VC
	held    []string // names of locks held (diagnostics)
	panicV  any
	panicS  string
	nops    int
	obs     uint64 // hash of observed return values (state caching)
	where   string // function in which the task is blocked (diagnostics)
}

type opKind int

const (
	opGeneric opKind = iota
	opSend
	opRecv
	opSelect
	opStart
)

type selCase struct {
	send  bool
	ch    *chanState  // nil when external or nil channel
	ext   func() bool // external close-only channel readiness (nil for managed/nil)
	val   any
	isNil bool
}

type pendingOp struct {
	kind       opKind
	name       string
	obj        string
	ready      func() bool
	ch         *chanState
	val        any
	cases      []selCase
	hasDefault bool
	// completion by a partner (rendezvous)
	completed bool
	resVal    any
	resOK     bool
	resCase   int
	panicMsg  string
}

// PointKind classifies choice points.
type PointKind int

const (
	PSched PointKind = iota
	PData            // map iteration order, select alternative
	PEnv             // harness-declared environment choice (free)
)

// Point is one recorded choice point of an execution.
type Point struct {
	Kind    PointKind
	N       int    // number of alternatives
	Chosen  int    // alternative taken
	Preempt bool   // PSched: the running task was still enabled (alternatives > 0 are pre-emptions)
	Label   string // diagnostics
}

// Options configure one execution.
type Options struct {
	Choices      []int // replayed prefix; afterwards default (0)
	BranchSched  bool  // record scheduling points (otherwise: deterministic, run-until-block, lowest id next)
	BranchData   bool  // record data points (map order / select); otherwise always alternative 0
	YieldRelease bool  // make unlock/close/atomic operations scheduling points as well
	TrackHB      bool  // maintain vector clocks and race detection on Access
	AccessYield  bool  // make every instrumented memory access a scheduling point as well
	MaxSteps     int   // safety horizon (0 = 2_000_000)
	KeyFunc      func(any) (string, bool)
	Trace        bool // record a textual step trace
	DaemonStacks bool // also capture the stacks of blocked daemon tasks at the end
}

// Blocked describes a task that had not finished when the execution ended.
type Blocked struct {
	Task  string
	ID    int
	Class Class
	Op    string
	Obj   string
	Where string
	Holds []string
}

// PanicInfo records a panic inside a controlled task.
type PanicInfo struct {
	Task  string
	Value string
	Stack string
	Where string
}

// Race is a pair of conflicting accesses not ordered by happens-before.
type Race struct {
	Loc    string
	A, B   string
	AWrite bool
	BWrite bool
}

// Result of one execution.
type Result struct {
	Points     []Point
	Choices    []int
	Blocked    []Blocked // tasks not finished at the end
	Panics     []PanicInfo
	Races      []Race
	Steps      int
	Diverged   string // non-empty: replay met an impossible choice (nondeterminism not owned)
	HorizonHit bool
	RootDone   bool
	Trace      []string
	Fatal      []string // runtime fatal errors (unlock of unlocked mutex, ...)
}

// Exec is the state of the running execution.
type Exec struct {
	opt        Options
	tasks      []*task
	cur        *task
	gen        uint64
	chans      map[uintptr]*chanState
	points     []Point
	choices    []int
	steps      int
	spawnClass Class
	aborting   bool
	quiet      bool
	finished   bool
	doneCh     chan struct{}
	wg         sync.WaitGroup
	res        *Result
	raceSeen   map[string]bool
	accesses   map[uintptr]*accessRec
	tickers    []*Ticker
	now        int64
	envs       map[string]any
	mapPolicy  func(label string, keys []string) int
}

var (
	active *Exec
	genCtr uint64
)

// Active reports whether a controlled execution is running.
func Active() bool { return active != nil && !active.aborting }

// Controlled reports whether shim operations must go through the scheduler.
func cur() *Exec {
	e := active
	if e == nil || e.aborting {
		return nil
	}
	return e
}

// Gen returns the generation number of the running execution (shim objects
// whose stored generation differs treat their state as zero).
func Gen() uint64 {
	if active == nil {
		return 0
	}
	return active.gen
}

// Aborting is true while an execution is being torn down: shim operations are no-ops.
func Aborting() bool { return active != nil && active.aborting }

// Run executes body as the root task of a fresh controlled execution.
func Run(opt Options, body func()) *Result {
	if active != nil {
		panic("vsched: nested Run")
	}
	if opt.MaxSteps == 0 {
		opt.MaxSteps = 2_000_000
	}
	genCtr++
	e := &Exec{opt: opt, gen: genCtr, chans: map[uintptr]*chanState{}, doneCh: make(chan struct{}),
		res: &Result{}, raceSeen: map[string]bool{}, accesses: map[uintptr]*accessRec{}, envs: map[string]any{}}
	e.now = 1_700_000_000_000_000_000
	e.spawnClass = Child
	active = e
	root := e.newTask("root", Client, body)
	root.started = true
	e.cur = root
	root.wake <- struct{}{}
	<-e.doneCh
	// tear down: wake every unfinished task with the abort flag set
	e.res.RootDone = root.done && root.panicV == nil
	e.aborting = true
	for _, t := range e.tasks {
		if !t.done {
			b := Blocked{Task: t.name, ID: t.id, Class: t.class, Where: t.where, Holds: append([]string(nil), t.held...)}
			if t.op != nil {
				b.Op, b.Obj = t.op.name, t.op.obj
			}
			e.res.Blocked = append(e.res.Blocked, b)
		}
	}
	for _, t := range e.tasks {
		if !t.done {
			select {
			case t.wake <- struct{}{}:
			default:
			}
			<-t.exited // one at a time: deferred user code of aborted tasks never runs concurrently
		}
	}
	e.wg.Wait()
	for i := range e.res.Blocked {
		e.res.Blocked[i].Where = e.tasks[e.res.Blocked[i].ID].where
	}
	active = nil
	e.res.Points = e.points
	e.res.Choices = e.choices
	e.res.Steps = e.steps
	return e.res
}

func (e *Exec) newTask(name string, class Class, f func()) *task {
	t := &task{id: len(e.tasks), name: name, class: class, wake: make(chan struct{}, 1), exited: make(chan struct{})}
	if e.cur != nil && e.opt.TrackHB {
		e.cur.vc = e.cur.vc.tick(e.cur.id)
		t.vc = e.cur.vc.clone()
	}
	t.op = &pendingOp{kind: opStart, name: "start", ready: func() bool { return true }}
	e.tasks = append(e.tasks, t)
	e.wg.Add(1)
	go func() {
		defer e.wg.Done()
		defer close(t.exited)
		<-t.wake
		if e.aborting {
			return
		}
		t.op = nil
		defer func() {
			r := recover()
			if _, ab := r.(abortSentinel); ab || e.aborting {
				if t.class != Daemon || e.opt.DaemonStacks {
					t.where = Frames(string(debug.Stack()), 8)
				}
				return
			}
			if r != nil {
				t.panicV = r
				t.panicS = string(debug.Stack())
				e.res.Panics = append(e.res.Panics, PanicInfo{Task: t.name, Value: fmt.Sprint(r), Stack: trimStack(t.panicS), Where: Frames(t.panicS, 8)})
			}
			t.done = true
			t.op = nil
			e.next(nil)
		}()
		f()
	}()
	return t
}

// Frames extracts up to n user function names (innermost first) from a debug.Stack dump,
// skipping runtime and vsched frames.
func Frames(stack string, n int) string {
	var out []string
	for _, l := range strings.Split(stack, "\n") {
		if l == "" || l[0] == '\t' || strings.HasPrefix(l, "goroutine ") {
			continue
		}
		if i := strings.LastIndex(l, "("); i > 0 {
			l = l[:i]
		}
		if strings.HasPrefix(l, "runtime") || strings.HasPrefix(l, "verif.local/vsched") || strings.HasPrefix(l, "panic") || strings.HasPrefix(l, "created by") {
			continue
		}
		if i := strings.LastIndex(l, "/"); i >= 0 {
			l = l[i+1:]
		}
		out = append(out, l)
		if len(out) == n {
			break
		}
	}
	return strings.Join(out, " < ")
}

func trimStack(s string) string {
	lines := strings.Split(s, "\n")
	var out []string
	for _, l := range lines {
		if strings.Contains(l, "runtime/debug") || strings.Contains(l, "runtime/panic") {
			continue
		}
		out = append(out, l)
		if len(out) > 40 {
			break
		}
	}
	return strings.Join(out, "\n")
}

// enabledTasks returns the tasks that can take a step, in canonical order:
// the running task first (if enabled), then descending ids (most recently created first).
func (e *Exec) enabledTasks(self *task) []*task {
	var out []*task
	if self != nil && !self.done && self.op != nil && e.opReady(self.op) {
		out = append(out, self)
	}
	// most recently created first: the helpers an operation has spawned (walkers, producers) run before
	// older, unrelated tasks, so that by default an operation and its helpers proceed together
	for i := len(e.tasks) - 1; i >= 0; i-- {
		t := e.tasks[i]
		if t == self || t.done || t.op == nil {
			continue
		}
		if e.opReady(t.op) {
			out = append(out, t)
		}
	}
	return out
}

func (e *Exec) opReady(op *pendingOp) bool {
	if op.completed {
		return true
	}
	switch op.kind {
	case opSend:
		return op.ch != nil && op.ch.sendReady(e, op)
	case opRecv:
		return op.ch != nil && op.ch.recvReady(e, op)
	case opSelect:
		if op.hasDefault {
			return true
		}
		for i := range op.cases {
			if e.caseReady(op, i) {
				return true
			}
		}
		return false
	default:
		return op.ready == nil || op.ready()
	}
}

// next picks the next task to run. self is the task calling (nil when it has finished).
// It returns only when self has been chosen (self != nil).
func (e *Exec) next(self *task) {
	e.steps++
	if e.steps > e.opt.MaxSteps {
		e.res.HorizonHit = true
		e.end(self)
		return
	}
	en := e.enabledTasks(self)
	if len(en) == 0 {
		e.end(self)
		return
	}
	idx := 0
	if len(en) > 1 && e.opt.BranchSched && !e.quiet {
		pre := self != nil && en[0] == self
		idx = e.choose(Point{Kind: PSched, N: len(en), Preempt: pre, Label: schedLabel(en)})
	}
	n := en[idx]
	if n == self {
		return
	}
	e.cur = n
	n.wake <- struct{}{}
	if self != nil {
		e.park(self)
	}
}

func schedLabel(en []*task) string {
	var b strings.Builder
	for i, t := range en {
		if i > 0 {
			b.WriteByte(',')
		}
		b.WriteString(t.name)
	}
	return b.String()
}

func (e *Exec) park(self *task) {
	<-self.wake
	if e.aborting {
		panic(abortSentinel{})
	}
}

// end finishes the execution (nothing enabled or horizon).
func (e *Exec) end(self *task) {
	if !e.finished {
		e.finished = true
		close(e.doneCh)
	}
	if self != nil {
		e.park(self) // will be woken with aborting set
	}
}

// choose records a choice point and returns the alternative taken.
func (e *Exec) choose(p Point) int {
	i := len(e.points)
	c := 0
	if i < len(e.opt.Choices) {
		c = e.opt.Choices[i]
		if c < 0 || c >= p.N {
			if e.res.Diverged == "" {
				e.res.Diverged = fmt.Sprintf("choice %d: replayed alternative %d out of range (n=%d, %s)", i, c, p.N, p.Label)
			}
			c = 0
		}
	}
	p.Chosen = c
	e.points = append(e.points, p)
	e.choices = append(e.choices, c)
	return c
}

// yield publishes op for the running task and returns when it is scheduled with op ready.
func (e *Exec) yield(op *pendingOp) {
	t := e.cur
	t.op = op
	t.nops++
	if e.opt.Trace {
		e.res.Trace = append(e.res.Trace, fmt.Sprintf("%s %s %s", t.name, op.name, op.obj))
	}
	for {
		e.next(t)
		// we hold the token
		if e.opReady(op) {
			break
		}
		// spurious (should not happen): loop
	}
	t.op = nil
}

// ---- public hooks used by shims and instrumented code ----

// Op is a scheduling point for the running task; it blocks until ready() holds
// at the moment the task is scheduled.  ready == nil means always enabled.
func Op(name, obj string, ready func() bool) {
	e := cur()
	if e == nil {
		return
	}
	e.yield(&pendingOp{kind: opGeneric, name: name, obj: obj, ready: ready})
}

// Point is a scheduling point without a blocking condition (library calls).
func PointAt(name string, obj any) {
	e := cur()
	if e == nil {
		return
	}
	e.yield(&pendingOp{kind: opGeneric, name: name, obj: ObjID("obj", obj)})
}

// ReleasePoint is a scheduling point only when Options.YieldRelease is set.
func ReleasePoint(name, obj string) {
	e := cur()
	if e == nil || !e.opt.YieldRelease {
		return
	}
	e.yield(&pendingOp{kind: opGeneric, name: name, obj: obj})
}

// Go starts f as a controlled task (or a plain goroutine in pass-through mode).
func Go(f func()) { GoNamed("", f) }

// GoNamed is Go with a diagnostic name.
func GoNamed(name string, f func()) {
	e := cur()
	if e == nil {
		if Aborting() {
			return
		}
		go f()
		return
	}
	if name == "" {
		name = fmt.Sprintf("g%d", len(e.tasks))
	}
	e.newTask(name, e.spawnClass, f)
}

// GoClient starts a harness client task.
func GoClient(name string, f func()) *Handle {
	e := cur()
	if e == nil {
		panic("vsched.GoClient outside an execution")
	}
	t := e.newTask(name, Client, f)
	return &Handle{t: t}
}

// Handle refers to a spawned client task.
type Handle struct{ t *task }

// Done reports whether the task has finished.
func (h *Handle) Done() bool { return h.t.done }

// Panicked returns the panic value of the task, if any.
func (h *Handle) Panicked() any { return h.t.panicV }

// Join blocks the caller until all handles are done.
func Join(hs ...*Handle) {
	Op("join", "", func() bool {
		for _, h := range hs {
			if !h.t.done {
				return false
			}
		}
		return true
	})
}

// SpawnClass sets the class given to tasks started with Go by code under test.
func SpawnClass(c Class) Class {
	e := cur()
	if e == nil {
		return Child
	}
	old := e.spawnClass
	e.spawnClass = c
	return old
}

// Settle lets every other task run until none of them is enabled.  The caller
// has the lowest priority: it continues only when nothing else can move.
func Settle() {
	e := cur()
	if e == nil {
		return
	}
	self := e.cur
	Op("settle", "", func() bool {
		for _, t := range e.tasks {
			if t == self || t.done || t.op == nil {
				continue
			}
			if e.opReady(t.op) {
				return false
			}
		}
		return true
	})
}

// OthersBlocked returns a description of all unfinished non-daemon tasks other than the caller.
func OthersBlocked() []Blocked {
	e := cur()
	if e == nil {
		return nil
	}
	var out []Blocked
	for _, t := range e.tasks {
		if t == e.cur || t.done {
			continue
		}
		b := Blocked{Task: t.name, ID: t.id, Class: t.class, Where: t.where, Holds: append([]string(nil), t.held...)}
		if t.op != nil {
			b.Op, b.Obj = t.op.name, t.op.obj
		}
		out = append(out, b)
	}
	return out
}

// Quiet switches choice-point recording off (true) or on (false): while quiet the
// schedule is the deterministic non-pre-emptive default and data choices take alternative 0.
// Harnesses use it for scenario set-up phases.
func Quiet(q bool) bool {
	e := cur()
	if e == nil {
		return false
	}
	old := e.quiet
	e.quiet = q
	return old
}

// EnvChoice is a free, harness-declared choice among n alternatives.
func EnvChoice(label string, n int) int {
	e := cur()
	if e == nil || n <= 1 {
		return 0
	}
	return e.choose(Point{Kind: PEnv, N: n, Label: label})
}

// DataChoice is a data deviation choice (cost 1 for alternatives > 0).
func DataChoice(label string, n int) int {
	e := cur()
	if e == nil || n <= 1 || !e.opt.BranchData || e.quiet {
		return 0
	}
	return e.choose(Point{Kind: PData, N: n, Label: label})
}

// Fatal records a runtime fatal error (e.g. unlock of unlocked mutex).
func Fatal(msg string) {
	e := cur()
	if e == nil {
		panic(msg)
	}
	e.res.Fatal = append(e.res.Fatal, e.cur.name+": "+msg)
	panic("fatal error: " + msg)
}

// Hold / Unhold maintain the diagnostic list of locks held by the running task.
func Hold(name string) {
	if e := cur(); e != nil {
		e.cur.held = append(e.cur.held, name)
	}
}

// HoldFor records a lock as held by a specific task (queued readers admitted by a writer).
func Unhold(name string) {
	if e := cur(); e != nil {
		h := e.cur.held
		for i := len(h) - 1; i >= 0; i-- {
			if h[i] == name {
				e.cur.held = append(h[:i:i], h[i+1:]...)
				return
			}
		}
	}
}

// ObjID returns a per-execution sequential name for an object address (stable across replays).
func ObjID(kind string, p any) string {
	e := cur()
	if e == nil {
		return kind
	}
	m, _ := e.envs["objid"].(map[uintptr]string)
	if m == nil {
		m = map[uintptr]string{}
		e.envs["objid"] = m
	}
	k := ptrOf(p)
	if s, ok := m[k]; ok {
		return s
	}
	s := fmt.Sprintf("%s#%d", kind, len(m))
	m[k] = s
	return s
}

// CurID returns the id of the running task (-1 in pass-through mode).
func CurID() int {
	e := cur()
	if e == nil {
		return -1
	}
	return e.cur.id
}

// CurName returns the running task's name.
func CurName() string {
	e := cur()
	if e == nil {
		return ""
	}
	return e.cur.name
}

// SetWhere sets a diagnostic location for the running task.
func SetWhere(w string) {
	if e := cur(); e != nil {
		e.cur.where = w
	}
}

// Observe mixes a value into the running task's observation hash.
func Observe(v uint64) {
	if e := cur(); e != nil {
		e.cur.obs = e.cur.obs*1099511628211 ^ v
	}
}

// sortedKeys returns indices of keys in canonical order.
func sortStrings(keys []string) []int {
	idx := make([]int, len(keys))
	for i := range idx {
		idx[i] = i
	}
	sort.SliceStable(idx, func(a, b int) bool { return keys[idx[a]] < keys[idx[b]] })
	return idx
}

// Lib is a scheduling point in front of a library call on x (badger, bigcache); it returns x.
func Lib[T any](x T, name string) T {
	LibCall(name, any(x))
	return x
}

// Backuper is the part of *badger.DB used by StubBackup.
type Backuper interface {
	Backup(w io.Writer, since uint64) (uint64, error)
}

// StubBackup skips the (side-output only, 50 ms) store backup in controlled mode and delegates otherwise.
func StubBackup(db Backuper, w io.Writer, since uint64) (uint64, error) {
	if cur() == nil {
		return db.Backup(w, since)
	}
	LibCall("badger.Backup(stub)", db)
	return since, nil
}
