package vsched

import (
	"fmt"
	"time"
)

// Ticker is a harness-fired timer channel.
type Ticker struct {
	C       chan time.Time
	D       time.Duration
	OneShot bool
	Stopped bool
	Owner   string // task that created it
	Fired   int
	F       func() // AfterFunc: run as a new task when the harness fires the timer
	id      int
}

// NewTicker registers a managed timer channel (cap 1, like time.Ticker).
func NewTicker(d time.Duration, oneShot bool) *Ticker {
	e := cur()
	t := &Ticker{C: MakeChan[time.Time](1), D: d, OneShot: oneShot}
	if e != nil {
		t.id = len(e.tickers)
		t.Owner = e.cur.name
		NameChan(t.C, fmt.Sprintf("timer#%d(%s,%s)", t.id, d, t.Owner))
		e.tickers = append(e.tickers, t)
	}
	return t
}

// Stop marks the ticker stopped.
func (t *Ticker) Stop() { t.Stopped = true }

// Tickers lists the timers created in this execution.
func Tickers() []*Ticker {
	e := cur()
	if e == nil {
		return nil
	}
	return e.tickers
}

// Fire delivers one tick (non-blocking, like the runtime: a full channel drops the tick).
func (t *Ticker) Fire() bool {
	e := cur()
	if e == nil || t.Stopped || (t.OneShot && t.Fired > 0) {
		return false
	}
	if t.F != nil {
		e.now += int64(t.D)
		t.Fired++
		GoNamed(fmt.Sprintf("afterfunc#%d", t.id), t.F)
		return true
	}
	cs := e.chans[chanKey(t.C)]
	if cs == nil {
		return false
	}
	e.now += int64(t.D)
	op := &pendingOp{kind: opSend, ch: cs}
	if !cs.sendReady(e, op) {
		return false
	}
	t.Fired++
	e.doSend(cs, op, any(time.Unix(0, e.now)))
	return true
}

// LogicalNow returns the logical clock and advances it by one microsecond.
func LogicalNow() time.Time {
	e := cur()
	if e == nil {
		return time.Now()
	}
	e.now += 1000
	return time.Unix(0, e.now)
}

// PeekNow returns the logical clock without advancing it.
func PeekNow() time.Time {
	e := cur()
	if e == nil {
		return time.Now()
	}
	return time.Unix(0, e.now)
}

// AdvanceClock moves the logical clock forward.
func AdvanceClock(d time.Duration) {
	if e := cur(); e != nil {
		e.now += int64(d)
	}
}
