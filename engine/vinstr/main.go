// vinstr rewrites Go packages so that every concurrency primitive, clock call,
// map iteration and selected library call goes through verif.local/vsched.
// It fails loudly (exit 2) on constructs it does not understand.
package main

import (
	"bytes"
	"flag"
	"fmt"
	"go/ast"
	"go/format"
	"go/token"
	"go/types"
	"os"
	"path/filepath"
	"sort"
	"strconv"
	"strings"

	"golang.org/x/tools/go/ast/astutil"
	"golang.org/x/tools/go/packages"
)

type strList []string

func (s *strList) String() string     { return strings.Join(*s, ",") }
func (s *strList) Set(v string) error { *s = append(*s, v); return nil }

var (
	dir     = flag.String("dir", "", "module directory to load packages from (the scratch copy of src)")
	tags    = flag.String("tags", "verif", "build tags")
	stubBackup = flag.Bool("stub-backup", false, "replace (*badger.DB).Backup by a no-op in controlled mode")
	access  = flag.Bool("access", false, "instrument struct-field accesses (C18 build)")
	consts  strList
	chancap strList
	pkgs    strList
	choices strList
)

func die(format string, a ...any) {
	fmt.Fprintf(os.Stderr, "vinstr: instrumentation unsupported: "+format+"\n", a...)
	os.Exit(2)
}

func main() {
	flag.Var(&consts, "const", "pkgname.constName=value (repeatable)")
	flag.Var(&chancap, "chancap", "pkgname.FuncName=N: capacity of channels made in that function (repeatable; declared scaling)")
	flag.Var(&pkgs, "pkg", "package pattern to instrument (repeatable)")
	flag.Var(&choices, "choice", "pkgname.FuncName: map ranges in this function are data choice points (repeatable)")
	flag.Parse()
	cfg := &packages.Config{
		Mode:       packages.NeedName | packages.NeedFiles | packages.NeedSyntax | packages.NeedTypes | packages.NeedTypesInfo | packages.NeedCompiledGoFiles | packages.NeedImports,
		Dir:        *dir,
		BuildFlags: []string{"-tags=" + *tags, "-mod=mod"},
		Env:        append(os.Environ(), "GOFLAGS=-mod=mod", "GOPROXY=off", "GOSUMDB=off", "GOTOOLCHAIN=local"),
	}
	ps, err := packages.Load(cfg, pkgs...)
	if err != nil {
		fmt.Fprintln(os.Stderr, "vinstr: load:", err)
		os.Exit(2)
	}
	bad := false
	for _, p := range ps {
		for _, e := range p.Errors {
			fmt.Fprintln(os.Stderr, "vinstr: package error:", e)
			bad = true
		}
	}
	if bad {
		os.Exit(2)
	}
	for _, p := range ps {
		instrumentedPkgs[p.PkgPath] = true
	}
	constMap := map[string]string{}
	for _, c := range consts {
		kv := strings.SplitN(c, "=", 2)
		if len(kv) != 2 {
			die("bad -const %q", c)
		}
		constMap[kv[0]] = kv[1]
	}
	choiceSet := map[string]bool{}
	for _, c := range choices {
		choiceSet[c] = true
	}
	stats := map[string]int{}
	usedConst := map[string]bool{}
	for _, p := range ps {
		for i, f := range p.Syntax {
			path := p.CompiledGoFiles[i]
			if strings.HasSuffix(path, "_test.go") {
				continue
			}
			r := &rewriter{pkg: p, file: f, fset: p.Fset, info: p.TypesInfo, stats: stats, consts: constMap, usedConst: usedConst, choice: choiceSet}
			r.run()
			if !r.changed {
				continue
			}
			var buf bytes.Buffer
			if err := format.Node(&buf, p.Fset, f); err != nil {
				die("format %s: %v", path, err)
			}
			if err := os.WriteFile(path, buf.Bytes(), 0o644); err != nil {
				die("write %s: %v", path, err)
			}
		}
	}
	for k := range constMap {
		if !usedConst[k] {
			die("constant %s not found", k)
		}
	}
	keys := make([]string, 0, len(stats))
	for k := range stats {
		keys = append(keys, k)
	}
	sort.Strings(keys)
	var parts []string
	for _, k := range keys {
		parts = append(parts, fmt.Sprintf("%s=%d", k, stats[k]))
	}
	fmt.Println("vinstr:", strings.Join(parts, " "))
}

type rewriter struct {
	pkg       *packages.Package
	file      *ast.File
	fset      *token.FileSet
	info      *types.Info
	stats     map[string]int
	consts    map[string]string
	usedConst map[string]bool
	choice    map[string]bool
	changed   bool
	needV     bool
	needT     bool
	needU     bool
	ctr       int
	funcStack []string
	shared    map[*types.Var]bool // locals captured by a function literal that is started as a goroutine
}

// mutatedGlobals caches, per package, the package-level variables that are assigned, incremented or have
// their address taken somewhere in a function body (the others are initialised once and read-only).
var mutatedGlobals = map[*packages.Package]map[*types.Var]bool{}

func globalsOf(pkg *packages.Package) map[*types.Var]bool {
	if m, ok := mutatedGlobals[pkg]; ok {
		return m
	}
	if pkg.TypesInfo == nil {
		mutatedGlobals[pkg] = map[*types.Var]bool{}
		return mutatedGlobals[pkg]
	}
	m := map[*types.Var]bool{}
	mark := func(e ast.Expr) {
		for {
			switch x := e.(type) {
			case *ast.ParenExpr:
				e = x.X
				continue
			case *ast.IndexExpr:
				e = x.X
				continue
			case *ast.SelectorExpr:
				if _, isField := pkg.TypesInfo.Selections[x]; isField {
					e = x.X
					continue
				}
				e = x.Sel
				continue
			case *ast.Ident:
				if v, ok := pkg.TypesInfo.Uses[x].(*types.Var); ok && !v.IsField() && v.Pkg() != nil && v.Parent() == v.Pkg().Scope() {
					m[v] = true
				}
			}
			return
		}
	}
	for _, f := range pkg.Syntax {
		ast.Inspect(f, func(n ast.Node) bool {
			switch x := n.(type) {
			case *ast.AssignStmt:
				for _, l := range x.Lhs {
					mark(l)
				}
			case *ast.IncDecStmt:
				mark(x.X)
			case *ast.UnaryExpr:
				if x.Op == token.AND {
					mark(x.X)
				}
			case *ast.CallExpr:
				if id, ok := x.Fun.(*ast.Ident); ok && (id.Name == "delete" || id.Name == "clear") && len(x.Args) > 0 {
					mark(x.Args[0])
				}
			}
			return true
		})
	}
	mutatedGlobals[pkg] = m
	return m
}

// findShared records the local variables of body that a goroutine literal captures.
func (r *rewriter) findShared(body *ast.BlockStmt) {
	r.shared = map[*types.Var]bool{}
	markLit := func(lit *ast.FuncLit) {
		ast.Inspect(lit.Body, func(n ast.Node) bool {
			id, ok := n.(*ast.Ident)
			if !ok {
				return true
			}
			v, ok := r.info.Uses[id].(*types.Var)
			if !ok || v.IsField() || v.Pkg() == nil || v.Parent() == v.Pkg().Scope() {
				return true
			}
			if v.Pos() >= lit.Pos() && v.Pos() <= lit.End() {
				return true // declared inside the literal
			}
			if syncType(v.Type()) {
				return true
			}
			r.shared[v] = true
			return true
		})
	}
	ast.Inspect(body, func(n ast.Node) bool {
		switch x := n.(type) {
		case *ast.GoStmt:
			if lit, ok := x.Call.Fun.(*ast.FuncLit); ok {
				markLit(lit)
			}
		case *ast.CallExpr:
			if se, ok := x.Fun.(*ast.SelectorExpr); ok && se.Sel.Name == "Go" {
				for _, a := range x.Args {
					if lit, ok := a.(*ast.FuncLit); ok {
						markLit(lit)
					}
				}
			}
		}
		return true
	})
}

func syncType(t types.Type) bool {
	ts := t.String()
	return strings.Contains(ts, "sync.") || strings.Contains(ts, "atomic.") || strings.HasPrefix(ts, "chan ") || strings.HasPrefix(ts, "<-chan ") || strings.HasPrefix(ts, "chan<- ")
}

func (r *rewriter) tmp(prefix string) *ast.Ident {
	r.ctr++
	return ast.NewIdent(fmt.Sprintf("__%s%d", prefix, r.ctr))
}

func sel(pkg, name string) *ast.SelectorExpr {
	return &ast.SelectorExpr{X: ast.NewIdent(pkg), Sel: ast.NewIdent(name)}
}

func call(fun ast.Expr, args ...ast.Expr) *ast.CallExpr {
	return &ast.CallExpr{Fun: fun, Args: args}
}

func (r *rewriter) vs(name string) *ast.SelectorExpr { r.needV = true; return sel("vsched", name) }

func (r *rewriter) pos(n ast.Node) string { return r.fset.Position(n.Pos()).String() }

func (r *rewriter) typeOf(e ast.Expr) types.Type {
	if tv, ok := r.info.Types[e]; ok {
		return tv.Type
	}
	return nil
}

func (r *rewriter) isChan(e ast.Expr) bool {
	t := r.typeOf(e)
	if t == nil {
		return false
	}
	_, ok := t.Underlying().(*types.Chan)
	return ok
}

func (r *rewriter) isMap(e ast.Expr) bool {
	t := r.typeOf(e)
	if t == nil {
		return false
	}
	_, ok := t.Underlying().(*types.Map)
	return ok
}

func (r *rewriter) isBuiltin(id *ast.Ident, name string) bool {
	if id.Name != name {
		return false
	}
	_, ok := r.info.Uses[id].(*types.Builtin)
	return ok
}

func (r *rewriter) isPkgSel(e ast.Expr, pkgPath string) (string, bool) {
	s, ok := e.(*ast.SelectorExpr)
	if !ok {
		return "", false
	}
	id, ok := s.X.(*ast.Ident)
	if !ok {
		return "", false
	}
	pn, ok := r.info.Uses[id].(*types.PkgName)
	if !ok || pn.Imported().Path() != pkgPath {
		return "", false
	}
	return s.Sel.Name, true
}

func (r *rewriter) curFunc() string {
	if len(r.funcStack) == 0 {
		return ""
	}
	return r.funcStack[0]
}

func (r *rewriter) run() {
	// imports
	for _, imp := range r.file.Imports {
		p, _ := strconv.Unquote(imp.Path.Value)
		switch p {
		case "sync":
			if imp.Name != nil && imp.Name.Name != "sync" {
				die("%s: renamed sync import", r.pos(imp))
			}
			imp.Path.Value = strconv.Quote("verif.local/vsched/sync")
			imp.Name = ast.NewIdent("sync")
			r.changed = true
			r.stats["import.sync"]++
		case "sync/atomic":
			imp.Path.Value = strconv.Quote("verif.local/vsched/atomic")
			if imp.Name == nil {
				imp.Name = ast.NewIdent("atomic")
			}
			r.changed = true
			r.stats["import.atomic"]++
		}
	}
	// constants
	for _, d := range r.file.Decls {
		gd, ok := d.(*ast.GenDecl)
		if !ok || gd.Tok != token.CONST {
			continue
		}
		for _, s := range gd.Specs {
			vs := s.(*ast.ValueSpec)
			for i, n := range vs.Names {
				key := r.pkg.Name + "." + n.Name
				if v, ok := r.consts[key]; ok {
					if i >= len(vs.Values) {
						die("%s: constant %s has no explicit value", r.pos(n), key)
					}
					vs.Values[i] = &ast.BasicLit{Kind: token.INT, Value: v}
					r.usedConst[key] = true
					r.changed = true
					r.stats["const"]++
				}
			}
		}
	}
	for _, d := range r.file.Decls {
		fd, ok := d.(*ast.FuncDecl)
		if !ok || fd.Body == nil {
			continue
		}
		name := fd.Name.Name
		r.funcStack = []string{name}
		if *access && !strings.HasPrefix(name, "Verif") {
			r.findShared(fd.Body)
			r.instrumentAccesses(fd.Body)
		}
		r.rewriteBlock(fd.Body)
	}
	// package-level var initialisers are not rewritten; verify they contain nothing of interest
	for _, d := range r.file.Decls {
		if gd, ok := d.(*ast.GenDecl); ok && gd.Tok == token.VAR {
			ast.Inspect(gd, func(n ast.Node) bool {
				switch x := n.(type) {
				case *ast.GoStmt, *ast.SelectStmt, *ast.SendStmt:
					die("%s: concurrency construct in package-level initialiser", r.pos(x))
				}
				return true
			})
		}
	}
	if r.needV {
		astutil.AddImport(r.fset, r.file, "verif.local/vsched")
		r.changed = true
	}
	if r.needT {
		astutil.AddImport(r.fset, r.file, "verif.local/vsched/vtime")
		r.changed = true
	}
	if r.needU {
		astutil.AddImport(r.fset, r.file, "unsafe")
		r.changed = true
	}
	if r.needT || r.changed {
		// drop the time import if it became unused
		if !astutil.UsesImport(r.file, "time") {
			astutil.DeleteImport(r.fset, r.file, "time")
		}
	}
}

func (r *rewriter) rewriteBlock(root ast.Node) {
	astutil.Apply(root, r.pre, r.post)
}

func (r *rewriter) pre(c *astutil.Cursor) bool {
	switch n := c.Node().(type) {
	case *ast.SelectStmt:
		c.Replace(r.rewriteSelect(n))
		r.changed = true
		r.stats["select"]++
		return false // children already processed by rewriteSelect
	case *ast.RangeStmt:
		if r.isChan(n.X) {
			c.Replace(r.rewriteRangeChan(n))
			r.changed = true
			r.stats["range.chan"]++
			return false
		}
		if r.isMap(n.X) {
			c.Replace(r.rewriteRangeMap(n))
			r.changed = true
			r.stats["range.map"]++
			return false
		}
	case *ast.GoStmt:
		c.Replace(r.rewriteGo(n))
		r.changed = true
		r.stats["go"]++
		return false
	case *ast.DeferStmt:
		if name, recv := r.libCall(n.Call); name != "" {
			c.Replace(r.rewriteDeferLib(n, name, recv))
			r.changed = true
			r.stats["lib.defer"]++
			return false
		}
	case *ast.AssignStmt:
		// v, ok := <-ch
		if len(n.Lhs) == 2 && len(n.Rhs) == 1 {
			if u, ok := n.Rhs[0].(*ast.UnaryExpr); ok && u.Op == token.ARROW {
				r.rewriteBlock(u.X)
				n.Rhs[0] = call(r.vs("Recv2"), u.X)
				for i := range n.Lhs {
					n.Lhs[i] = r.rewriteExpr(n.Lhs[i])
				}
				r.changed = true
				r.stats["recv2"]++
				return false
			}
		}
	case *ast.FuncLit:
		r.funcStack = append([]string{r.curFunc()}, r.funcStack...)
	}
	return true
}

func (r *rewriter) post(c *astutil.Cursor) bool {
	switch n := c.Node().(type) {
	case *ast.FuncLit:
		r.funcStack = r.funcStack[1:]
	case *ast.SendStmt:
		c.Replace(&ast.ExprStmt{X: call(r.vs("Send"), n.Chan, n.Value)})
		r.changed = true
		r.stats["send"]++
	case *ast.UnaryExpr:
		if n.Op == token.ARROW {
			c.Replace(call(r.vs("Recv"), n.X))
			r.changed = true
			r.stats["recv"]++
		}
	case *ast.CallExpr:
		if repl := r.rewriteCall(n); repl != nil {
			c.Replace(repl)
			r.changed = true
		}
	case *ast.SelectorExpr:
		// time.Ticker in type position
		if name, ok := r.isPkgSel(n, "time"); ok && (name == "Ticker" || name == "Timer") {
			r.needT = true
			c.Replace(sel("vtime", name))
			r.changed = true
			r.stats["time.type"]++
		}
	}
	return true
}

// rewriteExpr rewrites an expression subtree and returns the (possibly replaced) expression.
func (r *rewriter) rewriteExpr(e ast.Expr) ast.Expr {
	if e == nil {
		return nil
	}
	holder := &ast.ParenExpr{X: e}
	r.rewriteBlock(holder)
	return holder.X
}

func (r *rewriter) rewriteStmts(list []ast.Stmt) []ast.Stmt {
	b := &ast.BlockStmt{List: list}
	r.rewriteBlock(b)
	return b.List
}

var timeFuncs = map[string]bool{"Now": true, "Since": true, "Sleep": true, "After": true, "NewTicker": true, "Until": true, "NewTimer": true, "AfterFunc": true}
var timeBad = map[string]bool{"Tick": true}
// packages whose whole business is files: only there the file-system calls become scheduling points (elsewhere they
// are set-up or side output)
var osFilePkgs = map[string]bool{"fileoperations": true, "walletmiddleware": true}
var osFileFuncs = map[string]bool{"WriteFile": true, "ReadFile": true, "Rename": true, "Remove": true, "RemoveAll": true, "OpenFile": true, "Create": true, "Open": true, "Stat": true, "Mkdir": true, "MkdirAll": true, "Truncate": true}

func (r *rewriter) rewriteCall(n *ast.CallExpr) ast.Node {
	switch f := n.Fun.(type) {
	case *ast.Ident:
		if r.isBuiltin(f, "close") && len(n.Args) == 1 {
			r.stats["close"]++
			return call(r.vs("Close"), n.Args[0])
		}
		if r.isBuiltin(f, "make") && len(n.Args) >= 1 {
			if ct, ok := n.Args[0].(*ast.ChanType); ok {
				if ct.Dir != ast.SEND|ast.RECV {
					die("%s: make of directional channel", r.pos(n))
				}
				var size ast.Expr = &ast.BasicLit{Kind: token.INT, Value: "0"}
				if len(n.Args) == 2 {
					size = n.Args[1]
				}
				for _, cc := range chancap {
					kv := strings.SplitN(cc, "=", 2)
					if len(kv) == 2 && kv[0] == r.pkg.Name+"."+r.curFunc() {
						size = &ast.BasicLit{Kind: token.INT, Value: kv[1]}
						r.stats["make.chan.scaled"]++
					}
				}
				r.stats["make.chan"]++
				return call(&ast.IndexExpr{X: r.vs("MakeChan"), Index: ct.Value}, size)
			}
			if t := r.typeOf(n.Args[0]); t != nil {
				if _, ok := t.Underlying().(*types.Chan); ok {
					die("%s: make of a named channel type", r.pos(n))
				}
			}
		}
		if (r.isBuiltin(f, "len") || r.isBuiltin(f, "cap")) && len(n.Args) == 1 {
			// note: after child rewriting the arg may be new; look at original type if recorded
			if r.isChan(n.Args[0]) {
				r.stats["len.chan"]++
				if f.Name == "cap" {
					return call(r.vs("Cap"), n.Args[0])
				}
				return call(r.vs("Len"), n.Args[0])
			}
		}
	case *ast.SelectorExpr:
		if name, ok := r.isPkgSel(f, "time"); ok {
			if timeBad[name] {
				die("%s: time.%s is not supported", r.pos(n), name)
			}
			if timeFuncs[name] {
				r.needT = true
				r.stats["time."+name]++
				return call(sel("vtime", name), n.Args...)
			}
		}
		if name, ok := r.isPkgSel(f, "os"); ok && osFileFuncs[name] && osFilePkgs[r.pkg.Name] {
			// file-system calls are visible steps (two tasks saving / reading files interleave at call granularity)
			r.needV = true
			r.stats["os."+name]++
			n.Fun = call(r.vs("OSFn"), f, &ast.BasicLit{Kind: token.STRING, Value: strconv.Quote("os." + name)})
			for i, a := range n.Args {
				n.Args[i] = r.rewriteExpr(a)
			}
			return n
		}
		if name, recv := r.libCall(n); name == "badger.Backup" && *stubBackup {
			// declared abstraction: the side-output backup of the vertices store is skipped in explored builds
			r.stats["lib.backup-stub"]++
			return call(r.vs("StubBackup"), append([]ast.Expr{recv}, n.Args...)...)
		}
		if name, recv := r.libCall(n); name != "" {
			r.stats["lib"]++
			f.X = call(r.vs("Lib"), recv, &ast.BasicLit{Kind: token.STRING, Value: strconv.Quote(name)})
			return n
		}
	}
	return nil
}

// libCall recognises method calls on *badger.DB and *bigcache.BigCache.
func (r *rewriter) libCall(n *ast.CallExpr) (string, ast.Expr) {
	f, ok := n.Fun.(*ast.SelectorExpr)
	if !ok {
		return "", nil
	}
	s, ok := r.info.Selections[f]
	if !ok || s.Kind() != types.MethodVal {
		return "", nil
	}
	rt := s.Recv().String()
	switch {
	case strings.HasSuffix(rt, "badger/v4.DB"):
		return "badger." + f.Sel.Name, f.X
	case strings.HasSuffix(rt, "bigcache.BigCache"):
		return "bigcache." + f.Sel.Name, f.X
	}
	return "", nil
}

func (r *rewriter) rewriteDeferLib(n *ast.DeferStmt, name string, recv ast.Expr) ast.Stmt {
	// { a0 := arg0; ...; defer func() { vsched.Lib(recv, name).M(a0, ...) }() }
	f := n.Call.Fun.(*ast.SelectorExpr)
	var pre []ast.Stmt
	var args []ast.Expr
	rv := r.tmp("r")
	pre = append(pre, &ast.AssignStmt{Lhs: []ast.Expr{rv}, Tok: token.DEFINE, Rhs: []ast.Expr{r.rewriteExpr(recv)}})
	for _, a := range n.Call.Args {
		orig := a
		a = r.rewriteExpr(a)
		if tv, ok := r.info.Types[orig]; ok && (tv.Value != nil || tv.IsNil()) {
			args = append(args, a)
			continue
		}
		t := r.tmp("a")
		pre = append(pre, &ast.AssignStmt{Lhs: []ast.Expr{t}, Tok: token.DEFINE, Rhs: []ast.Expr{a}})
		args = append(args, t)
	}
	inner := &ast.CallExpr{Fun: &ast.SelectorExpr{X: call(r.vs("Lib"), rv, &ast.BasicLit{Kind: token.STRING, Value: strconv.Quote(name)}), Sel: f.Sel}, Args: args, Ellipsis: n.Call.Ellipsis}
	fl := &ast.FuncLit{Type: &ast.FuncType{Params: &ast.FieldList{}}, Body: &ast.BlockStmt{List: []ast.Stmt{&ast.ExprStmt{X: inner}}}}
	pre = append(pre, &ast.DeferStmt{Call: call(fl)})
	return &ast.BlockStmt{List: pre}
}

func (r *rewriter) rewriteGo(n *ast.GoStmt) ast.Stmt {
	var pre []ast.Stmt
	var fun ast.Expr
	switch f := n.Call.Fun.(type) {
	case *ast.FuncLit:
		r.funcStack = append([]string{r.curFunc()}, r.funcStack...)
		r.rewriteBlock(f.Body)
		r.funcStack = r.funcStack[1:]
		fun = f
	default:
		t := r.tmp("f")
		pre = append(pre, &ast.AssignStmt{Lhs: []ast.Expr{t}, Tok: token.DEFINE, Rhs: []ast.Expr{r.rewriteExpr(n.Call.Fun)}})
		fun = t
	}
	var args []ast.Expr
	for _, a := range n.Call.Args {
		orig := a
		a = r.rewriteExpr(a)
		if tv, ok := r.info.Types[orig]; ok && (tv.Value != nil || tv.IsNil()) {
			args = append(args, a)
			continue
		}
		t := r.tmp("a")
		pre = append(pre, &ast.AssignStmt{Lhs: []ast.Expr{t}, Tok: token.DEFINE, Rhs: []ast.Expr{a}})
		args = append(args, t)
	}
	inner := &ast.CallExpr{Fun: fun, Args: args, Ellipsis: n.Call.Ellipsis}
	fl := &ast.FuncLit{Type: &ast.FuncType{Params: &ast.FieldList{}}, Body: &ast.BlockStmt{List: []ast.Stmt{&ast.ExprStmt{X: inner}}}}
	label := r.pkg.Name + "." + r.curFunc()
	pre = append(pre, &ast.ExprStmt{X: call(r.vs("GoNamed"), &ast.BasicLit{Kind: token.STRING, Value: strconv.Quote(label)}, fl)})
	return &ast.BlockStmt{List: pre}
}

func (r *rewriter) rewriteRangeChan(n *ast.RangeStmt) ast.Stmt {
	chv := r.tmp("ch")
	ok := r.tmp("ok")
	x := r.rewriteExpr(n.X)
	var key ast.Expr = ast.NewIdent("_")
	if n.Key != nil {
		key = n.Key
	}
	var stmts []ast.Stmt
	tok := n.Tok
	if n.Key == nil || tok == token.ILLEGAL {
		tok = token.DEFINE
	}
	if tok == token.ASSIGN {
		stmts = append(stmts, &ast.DeclStmt{Decl: &ast.GenDecl{Tok: token.VAR, Specs: []ast.Spec{&ast.ValueSpec{Names: []*ast.Ident{ok}, Type: ast.NewIdent("bool")}}}})
	}
	stmts = append(stmts, &ast.AssignStmt{Lhs: []ast.Expr{key, ok}, Tok: tok, Rhs: []ast.Expr{call(r.vs("Recv2"), chv)}})
	stmts = append(stmts, &ast.IfStmt{Cond: &ast.UnaryExpr{Op: token.NOT, X: ok}, Body: &ast.BlockStmt{List: []ast.Stmt{&ast.BranchStmt{Tok: token.BREAK}}}})
	body := r.rewriteStmts(n.Body.List)
	stmts = append(stmts, body...)
	return &ast.ForStmt{
		Init: &ast.AssignStmt{Lhs: []ast.Expr{chv}, Tok: token.DEFINE, Rhs: []ast.Expr{x}},
		Body: &ast.BlockStmt{List: stmts},
	}
}

func isBlank(e ast.Expr) bool {
	if e == nil {
		return true
	}
	id, ok := e.(*ast.Ident)
	return ok && id.Name == "_"
}

func (r *rewriter) rewriteRangeMap(n *ast.RangeStmt) ast.Stmt {
	it := r.tmp("it")
	x := r.rewriteExpr(n.X)
	var lhs, rhs []ast.Expr
	if !isBlank(n.Key) {
		lhs = append(lhs, n.Key)
		rhs = append(rhs, &ast.SelectorExpr{X: it, Sel: ast.NewIdent("K")})
	}
	if !isBlank(n.Value) {
		lhs = append(lhs, n.Value)
		rhs = append(rhs, &ast.SelectorExpr{X: it, Sel: ast.NewIdent("V")})
	}
	var stmts []ast.Stmt
	if len(lhs) > 0 {
		stmts = append(stmts, &ast.AssignStmt{Lhs: lhs, Tok: n.Tok, Rhs: rhs})
	}
	stmts = append(stmts, r.rewriteStmts(n.Body.List)...)
	fn := r.pkg.Name + "." + r.curFunc()
	var mk ast.Expr
	if r.choice[fn] {
		r.stats["range.map.choice"]++
		mk = call(r.vs("MapIterChoice"), x, &ast.BasicLit{Kind: token.STRING, Value: strconv.Quote(fn)})
	} else {
		mk = call(r.vs("MapIter"), x)
	}
	return &ast.ForStmt{
		Init: &ast.AssignStmt{Lhs: []ast.Expr{it}, Tok: token.DEFINE, Rhs: []ast.Expr{mk}},
		Cond: call(&ast.SelectorExpr{X: it, Sel: ast.NewIdent("Next")}),
		Body: &ast.BlockStmt{List: stmts},
	}
}

func (r *rewriter) rewriteSelect(n *ast.SelectStmt) ast.Stmt {
	var initL, initR []ast.Expr
	var clauses []ast.Stmt
	hasDefault := false
	idx := 0
	var args []ast.Expr
	for _, cl := range n.Body.List {
		cc := cl.(*ast.CommClause)
		body := r.rewriteStmts(cc.Body)
		if cc.Comm == nil {
			hasDefault = true
			clauses = append(clauses, &ast.CaseClause{List: nil, Body: body})
			continue
		}
		cv := r.tmp("c")
		var pre []ast.Stmt
		switch s := cc.Comm.(type) {
		case *ast.SendStmt:
			initR = append(initR, call(r.vs("S"), r.rewriteExpr(s.Chan), r.rewriteExpr(s.Value)))
		case *ast.ExprStmt:
			u, ok := s.X.(*ast.UnaryExpr)
			if !ok || u.Op != token.ARROW {
				die("%s: unsupported select case", r.pos(s))
			}
			initR = append(initR, call(r.vs("R"), r.rewriteExpr(u.X)))
		case *ast.AssignStmt:
			u, ok := s.Rhs[0].(*ast.UnaryExpr)
			if !ok || u.Op != token.ARROW {
				die("%s: unsupported select case", r.pos(s))
			}
			initR = append(initR, call(r.vs("R"), r.rewriteExpr(u.X)))
			rhs := []ast.Expr{call(&ast.SelectorExpr{X: cv, Sel: ast.NewIdent("Val")})}
			if len(s.Lhs) == 2 {
				rhs = append(rhs, call(&ast.SelectorExpr{X: cv, Sel: ast.NewIdent("Ok")}))
			}
			pre = append(pre, &ast.AssignStmt{Lhs: s.Lhs, Tok: s.Tok, Rhs: rhs})
		default:
			die("%s: unsupported select case", r.pos(cc))
		}
		initL = append(initL, cv)
		args = append(args, cv)
		clauses = append(clauses, &ast.CaseClause{
			List: []ast.Expr{&ast.BasicLit{Kind: token.INT, Value: strconv.Itoa(idx)}},
			Body: append(pre, body...),
		})
		idx++
	}
	hd := "false"
	if hasDefault {
		hd = "true"
	}
	sw := &ast.SwitchStmt{
		Tag:  call(r.vs("Select"), append([]ast.Expr{ast.NewIdent(hd)}, args...)...),
		Body: &ast.BlockStmt{List: clauses},
	}
	if len(initL) > 0 {
		sw.Init = &ast.AssignStmt{Lhs: initL, Tok: token.DEFINE, Rhs: initR}
	}
	return sw
}

var _ = filepath.Join


// ---- C18: struct-field access instrumentation ----

type fieldAccess struct {
	expr  ast.Expr // addressable expression x.f
	write bool
	loc   string
	kind  int // 0: address of expr; 1: element (address computed under recover); 2: append target; 3: first element of a slice
}

// hasCall reports whether evaluating e could have side effects (calls, receives, function literals).
func hasCall(e ast.Expr) bool {
	found := false
	ast.Inspect(e, func(n ast.Node) bool {
		switch x := n.(type) {
		case *ast.CallExpr, *ast.FuncLit:
			found = true
		case *ast.UnaryExpr:
			if x.Op == token.ARROW {
				found = true
			}
		}
		return !found
	})
	return found
}

func (r *rewriter) exprText(e ast.Expr) string {
	var buf bytes.Buffer
	format.Node(&buf, r.fset, e)
	t := buf.String()
	if len(t) > 40 {
		t = t[:40]
	}
	return t
}

// sliceOrArray reports whether t is a slice, an array or a pointer to an array.
func sliceOrArray(t types.Type) (isSlice, ok bool) {
	if t == nil {
		return false, false
	}
	switch u := t.Underlying().(type) {
	case *types.Slice:
		return true, true
	case *types.Array:
		return false, true
	case *types.Pointer:
		if _, isArr := u.Elem().Underlying().(*types.Array); isArr {
			return false, true
		}
	}
	return false, false
}

func (r *rewriter) ownPkg(p *types.Package) bool {
	if p == nil {
		return false
	}
	path := p.Path()
	return strings.HasPrefix(path, "github.com/bartossh/Computantis/src/") || path == "github.com/heimdalr/dag"
}

// addressable reports whether &e is a legal expression.
func (r *rewriter) addressable(e ast.Expr) bool {
	switch x := e.(type) {
	case *ast.Ident:
		_, isVar := r.info.Uses[x].(*types.Var)
		return isVar
	case *ast.ParenExpr:
		return r.addressable(x.X)
	case *ast.StarExpr:
		return true
	case *ast.SelectorExpr:
		sel, ok := r.info.Selections[x]
		if !ok || sel.Kind() != types.FieldVal {
			return false
		}
		if _, isPtr := r.typeOf(x.X).Underlying().(*types.Pointer); isPtr {
			return true
		}
		return r.addressable(x.X)
	case *ast.IndexExpr:
		t := r.typeOf(x.X)
		if t == nil {
			return false
		}
		switch t.Underlying().(type) {
		case *types.Slice:
			return true
		case *types.Array:
			return r.addressable(x.X)
		case *types.Pointer:
			return true
		}
		return false
	}
	return false
}

// localOnly reports whether the selector chain stays inside a local (non-pointer) variable, i.e. memory
// that no other goroutine can name.
func (r *rewriter) localOnly(e ast.Expr) bool {
	for {
		switch x := e.(type) {
		case *ast.SelectorExpr:
			if _, isPtr := r.typeOf(x.X).Underlying().(*types.Pointer); isPtr {
				return false
			}
			e = x.X
		case *ast.ParenExpr:
			e = x.X
		case *ast.Ident:
			v, ok := r.info.Uses[x].(*types.Var)
			if !ok {
				return false
			}
			// package-level variables are shared; locals and parameters are not, unless a goroutine literal captures them
			if r.shared[v] {
				return false
			}
			return v.Parent() != nil && v.Parent() != v.Pkg().Scope()
		default:
			return false
		}
	}
}

// fieldSel returns the location name if e selects a field of a struct declared in an instrumented package.
func (r *rewriter) fieldSel(e *ast.SelectorExpr) (string, bool) {
	sel, ok := r.info.Selections[e]
	if !ok || sel.Kind() != types.FieldVal {
		return "", false
	}
	v, ok := sel.Obj().(*types.Var)
	if !ok || !v.IsField() || !r.ownPkg(v.Pkg()) {
		return "", false
	}
	// skip shim-managed fields (locks, atomics, channels are synchronisation objects themselves)
	ft := v.Type().String()
	if strings.Contains(ft, "sync.") || strings.Contains(ft, "atomic.") {
		return "", false
	}
	recv := sel.Recv().String()
	if i := strings.LastIndex(recv, "/"); i >= 0 {
		recv = strings.TrimPrefix(recv[i+1:], "*")
	}
	return strings.TrimPrefix(recv, "*") + "." + v.Name(), true
}

// varLoc names the location of a shared variable: a goroutine-captured local, or a package-level variable of an
// instrumented package that some function mutates.
func (r *rewriter) varLoc(id *ast.Ident) (string, bool) {
	v, ok := r.info.Uses[id].(*types.Var)
	if !ok || v.IsField() || v.Pkg() == nil || syncType(v.Type()) {
		return "", false
	}
	if r.shared[v] {
		return "local " + r.pkg.Name + "." + r.curFunc() + "." + v.Name(), true
	}
	if v.Parent() == v.Pkg().Scope() && r.ownPkg(v.Pkg()) {
		owner := r.pkg
		if v.Pkg() != r.pkg.Types {
			owner = r.pkg.Imports[v.Pkg().Path()]
		}
		if owner != nil && globalsOf(owner)[v] {
			return "var " + v.Pkg().Name() + "." + v.Name(), true
		}
	}
	return "", false
}

// calleeInstrumented reports whether the called function belongs to an instrumented package (its body records its
// own accesses), or is a builtin / conversion.
func (r *rewriter) calleeInstrumented(c *ast.CallExpr) bool {
	if tv, ok := r.info.Types[c.Fun]; ok && (tv.IsType() || tv.IsBuiltin()) {
		return true
	}
	var obj types.Object
	switch f := c.Fun.(type) {
	case *ast.Ident:
		obj = r.info.Uses[f]
	case *ast.SelectorExpr:
		if sel, ok := r.info.Selections[f]; ok {
			obj = sel.Obj()
			if _, isIface := sel.Recv().Underlying().(*types.Interface); isIface {
				return false // dynamic callee: may be anything
			}
		} else {
			obj = r.info.Uses[f.Sel]
		}
	}
	if fn, ok := obj.(*types.Func); ok {
		return instrumentedPkgs[pkgPathOf(fn)]
	}
	return true // function values, closures: bodies in this package are instrumented
}

func pkgPathOf(fn *types.Func) string {
	if fn.Pkg() == nil {
		return ""
	}
	return fn.Pkg().Path()
}

// synthetic marks the function literals inserted by the access pass (never instrumented themselves).
var synthetic = map[*ast.FuncLit]bool{}

// instrumentedPkgs is the set of package paths being rewritten in this run.
var instrumentedPkgs = map[string]bool{}

func (r *rewriter) collect(n ast.Node, write bool, out *[]fieldAccess) {
	if n == nil {
		return
	}
	switch x := n.(type) {
	case *ast.FuncLit:
		return // its body is instrumented on its own
	case *ast.Ident:
		if loc, ok := r.varLoc(x); ok {
			*out = append(*out, fieldAccess{expr: x, write: write, loc: loc})
		}
		return
	case *ast.SelectorExpr:
		if _, isSel := r.info.Selections[x]; !isSel {
			// qualified identifier pkg.Var
			if loc, ok := r.varLoc(x.Sel); ok {
				*out = append(*out, fieldAccess{expr: x, write: write, loc: loc})
			}
			return
		}
		if loc, ok := r.fieldSel(x); ok && r.addressable(x) && !r.localOnly(x) {
			*out = append(*out, fieldAccess{expr: x, write: write, loc: loc})
		}
		inner := x.X
		if pe, ok := inner.(*ast.ParenExpr); ok {
			inner = pe.X
		}
		if se, ok := inner.(*ast.StarExpr); ok {
			r.collect(se.X, false, out) // (*p).f reads the field only, not the whole struct
			return
		}
		r.collect(x.X, false, out)
		return
	case *ast.IndexExpr:
		// m[k] = v or s[i] = v writes the object held by the field (one pseudo-location per object)
		if t := r.typeOf(x.X); t != nil {
			if _, isMap := t.Underlying().(*types.Map); isMap {
				r.collect(x.X, write, out)
				r.collect(x.Index, false, out)
				return
			}
		}
		if isSlice, ok := sliceOrArray(r.typeOf(x.X)); ok && !hasCall(x) && (isSlice || r.addressable(x.X) && !r.localOnly(x.X)) {
			// an element of a slice or of a shared array: its own location (the address is computed a second time, under recover)
			if tv, isType := r.info.Types[x.X]; !isType || !tv.IsType() {
				*out = append(*out, fieldAccess{expr: x, write: write, loc: "elem " + r.exprText(x.X) + "[]", kind: 1})
			}
		}
		r.collect(x.X, false, out)
		r.collect(x.Index, false, out)
		return
	case *ast.CallExpr:
		if id, ok := x.Fun.(*ast.Ident); ok && r.isBuiltin(id, "append") && len(x.Args) >= 1 && !hasCall(x.Args[0]) {
			if _, isSl := r.typeOf(x.Args[0]).Underlying().(*types.Slice); isSl {
				*out = append(*out, fieldAccess{expr: x.Args[0], write: true, loc: "append " + r.exprText(x.Args[0]), kind: 2})
			}
		}
		if id, ok := x.Fun.(*ast.Ident); ok && r.isBuiltin(id, "copy") && len(x.Args) == 2 {
			for i, a := range x.Args {
				if t := r.typeOf(a); t != nil && !hasCall(a) {
					if _, isSl := t.Underlying().(*types.Slice); isSl {
						*out = append(*out, fieldAccess{expr: a, write: i == 0, loc: "copy " + r.exprText(a), kind: 3})
					}
				}
			}
		}
		// byte slices handed to code that is not instrumented (hashing, signing, encoding): a read of their content
		if !r.calleeInstrumented(x) {
			for _, a := range x.Args {
				if t := r.typeOf(a); t != nil && !hasCall(a) {
					if sl, isSl := t.Underlying().(*types.Slice); isSl {
						if b, isB := sl.Elem().Underlying().(*types.Basic); isB && b.Kind() == types.Byte {
							if _, isLit := a.(*ast.CompositeLit); !isLit {
								*out = append(*out, fieldAccess{expr: a, write: false, loc: "bytes " + r.exprText(a), kind: 3})
							}
						}
					}
				}
			}
		}
		// a pointer to one of the module's structs handed to code that is not instrumented (an RPC stub, an encoder,
		// a dynamic callee): that code may read every field of the pointee; the addresses are computed under recover (nil)
		if !r.calleeInstrumented(x) {
			for _, a := range x.Args {
				t := r.typeOf(a)
				if t == nil || hasCall(a) {
					continue
				}
				pt, isPtr := t.Underlying().(*types.Pointer)
				if !isPtr {
					continue
				}
				named, isNamed := pt.Elem().(*types.Named)
				if !isNamed || !r.ownPkg(named.Obj().Pkg()) {
					continue
				}
				st, isStruct := named.Underlying().(*types.Struct)
				if !isStruct {
					continue
				}
				if _, isAddr := a.(*ast.UnaryExpr); isAddr {
					continue // &x of a local or a composite literal: the fields are judged where they are accessed
				}
				tn := named.Obj().Pkg().Name() + "." + named.Obj().Name()
				for i := 0; i < st.NumFields(); i++ {
					f := st.Field(i)
					if syncType(f.Type()) {
						continue
					}
					if !f.Exported() && f.Pkg() != r.pkg.Types {
						continue
					}
					*out = append(*out, fieldAccess{expr: &ast.SelectorExpr{X: a, Sel: ast.NewIdent(f.Name())}, write: false, loc: tn + "." + f.Name() + "(handed to uninstrumented code)", kind: 1})
				}
			}
		}
		// value-receiver method called through a pointer / addressable struct copies the whole struct
		if se, ok := x.Fun.(*ast.SelectorExpr); ok {
			if sel, ok := r.info.Selections[se]; ok && sel.Kind() == types.MethodVal {
				if fn, ok := sel.Obj().(*types.Func); ok && r.ownPkg(fn.Pkg()) {
					sig := fn.Type().(*types.Signature)
					if _, ptrRecv := sig.Recv().Type().(*types.Pointer); !ptrRecv {
						if st, ok := sig.Recv().Type().Underlying().(*types.Struct); ok {
							base := se.X
							if _, isPtr := r.typeOf(base).Underlying().(*types.Pointer); isPtr || r.addressable(base) {
								tn := sig.Recv().Type().String()
								if i := strings.LastIndex(tn, "/"); i >= 0 {
									tn = tn[i+1:]
								}
								for i := 0; i < st.NumFields(); i++ {
									f := st.Field(i)
									ft := f.Type().String()
									if strings.Contains(ft, "sync.") || strings.Contains(ft, "atomic.") {
										continue
									}
									*out = append(*out, fieldAccess{expr: &ast.SelectorExpr{X: base, Sel: ast.NewIdent(f.Name())}, write: false, loc: tn + "." + f.Name() + "(struct copy)"})
								}
							}
						}
					}
				}
			}
			// delete(m, k) / append handled below through generic traversal
		}
		if id, ok := x.Fun.(*ast.Ident); ok && r.isBuiltin(id, "delete") && len(x.Args) == 2 {
			r.collect(x.Args[0], true, out)
			r.collect(x.Args[1], false, out)
			return
		}
		r.collect(x.Fun, false, out)
		for _, a := range x.Args {
			r.collect(a, false, out)
		}
		return
	case *ast.UnaryExpr:
		if x.Op == token.AND {
			// taking an address is neither a read nor a write of the field itself
			if se, ok := x.X.(*ast.SelectorExpr); ok {
				r.collect(se.X, false, out)
				return
			}
		}
		r.collect(x.X, false, out)
		return
	case *ast.BinaryExpr:
		r.collect(x.X, false, out)
		r.collect(x.Y, false, out)
		return
	case *ast.ParenExpr:
		r.collect(x.X, write, out)
		return
	case *ast.StarExpr:
		// *p used as a value (returned, assigned, passed) copies the whole struct: a read of every field
		if !write {
			if t := r.typeOf(x); t != nil {
				if st, ok := t.Underlying().(*types.Struct); ok {
					if named, isNamed := t.(*types.Named); isNamed && r.ownPkg(named.Obj().Pkg()) && !hasCall(x.X) {
						tn := named.Obj().Pkg().Name() + "." + named.Obj().Name()
						for i := 0; i < st.NumFields(); i++ {
							f := st.Field(i)
							if syncType(f.Type()) {
								continue
							}
							if !f.Exported() && f.Pkg() != r.pkg.Types {
								continue
							}
							*out = append(*out, fieldAccess{expr: &ast.SelectorExpr{X: x.X, Sel: ast.NewIdent(f.Name())}, write: false, loc: tn + "." + f.Name() + "(struct copy)"})
						}
					}
				}
			}
		}
		r.collect(x.X, false, out)
		return
	case *ast.SliceExpr:
		r.collect(x.X, false, out)
		r.collect(x.Low, false, out)
		r.collect(x.High, false, out)
		r.collect(x.Max, false, out)
		return
	case *ast.TypeAssertExpr:
		r.collect(x.X, false, out)
		return
	case *ast.CompositeLit:
		for _, e := range x.Elts {
			r.collect(e, false, out)
		}
		return
	case *ast.KeyValueExpr:
		r.collect(x.Value, false, out)
		return
	}
}

func (r *rewriter) stmtAccesses(s ast.Stmt) []fieldAccess {
	var out []fieldAccess
	switch x := s.(type) {
	case *ast.ExprStmt:
		r.collect(x.X, false, &out)
	case *ast.AssignStmt:
		for _, e := range x.Rhs {
			r.collect(e, false, &out)
		}
		for _, e := range x.Lhs {
			r.collect(e, true, &out)
			if x.Tok != token.ASSIGN && x.Tok != token.DEFINE {
				r.collect(e, false, &out)
			}
		}
	case *ast.IncDecStmt:
		r.collect(x.X, true, &out)
	case *ast.ReturnStmt:
		for _, e := range x.Results {
			r.collect(e, false, &out)
		}
	case *ast.SendStmt:
		r.collect(x.Chan, false, &out)
		r.collect(x.Value, false, &out)
	case *ast.IfStmt:
		if x.Init != nil {
			out = append(out, r.stmtAccesses(x.Init)...)
		}
		r.collect(x.Cond, false, &out)
	case *ast.ForStmt:
		if x.Init != nil {
			out = append(out, r.stmtAccesses(x.Init)...)
		}
		r.collect(x.Cond, false, &out)
	case *ast.RangeStmt:
		r.collect(x.X, false, &out)
	case *ast.SwitchStmt:
		if x.Init != nil {
			out = append(out, r.stmtAccesses(x.Init)...)
		}
		r.collect(x.Tag, false, &out)
	case *ast.SelectStmt:
		for _, cl := range x.Body.List {
			if cc, ok := cl.(*ast.CommClause); ok && cc.Comm != nil {
				switch c := cc.Comm.(type) {
				case *ast.ExprStmt:
					r.collect(c.X, false, &out)
				case *ast.AssignStmt:
					for _, e := range c.Rhs {
						r.collect(e, false, &out)
					}
				case *ast.SendStmt:
					r.collect(c.Chan, false, &out)
					r.collect(c.Value, false, &out)
				}
			}
		}
	case *ast.GoStmt:
		for _, a := range x.Call.Args {
			r.collect(a, false, &out)
		}
		r.collect(x.Call.Fun, false, &out)
	case *ast.DeferStmt:
		for _, a := range x.Call.Args {
			r.collect(a, false, &out)
		}
	}
	return out
}

// instrumentAccesses inserts vsched.Access calls in front of every statement of every block.
func (r *rewriter) instrumentAccesses(root ast.Node) {
	ast.Inspect(root, func(n ast.Node) bool {
		if fl, ok := n.(*ast.FuncLit); ok && synthetic[fl] {
			return false // a closure this pass has inserted
		}
		var list *[]ast.Stmt
		switch x := n.(type) {
		case *ast.BlockStmt:
			list = &x.List
		case *ast.CaseClause:
			list = &x.Body
		case *ast.CommClause:
			list = &x.Body
		}
		if list == nil {
			return true
		}
		var out []ast.Stmt
		for _, s := range *list {
			seen := map[string]bool{}
			for _, a := range r.stmtAccesses(s) {
				var buf bytes.Buffer
				format.Node(&buf, r.fset, a.expr)
				k := fmt.Sprintf("%s/%v/%d", buf.String(), a.write, a.kind)
				if seen[k] {
					continue
				}
				seen[k] = true
				w := "false"
				if a.write {
					w = "true"
				}
				if a.kind == 0 || a.kind == 1 {
					r.needU = true
				}
				r.needV = true
				r.stats["access"]++
				locLit := &ast.BasicLit{Kind: token.STRING, Value: strconv.Quote(a.loc)}
				siteLit := &ast.BasicLit{Kind: token.STRING, Value: strconv.Quote(r.pkg.Name + "." + r.curFunc())}
				ptr := call(sel("unsafe", "Pointer"), &ast.UnaryExpr{Op: token.AND, X: a.expr})
				var c *ast.CallExpr
				switch a.kind {
				case 1:
					fn := &ast.FuncLit{Type: &ast.FuncType{Params: &ast.FieldList{}, Results: &ast.FieldList{List: []*ast.Field{{Type: sel("unsafe", "Pointer")}}}},
						Body: &ast.BlockStmt{List: []ast.Stmt{&ast.ReturnStmt{Results: []ast.Expr{ptr}}}}}
					synthetic[fn] = true
					c = call(r.vs("AccessElem"), fn, ast.NewIdent(w), locLit, siteLit)
				case 2:
					c = call(r.vs("AccessAppend"), a.expr, locLit, siteLit)
				case 3:
					c = call(r.vs("AccessSlice"), a.expr, ast.NewIdent(w), locLit, siteLit)
				default:
					c = call(r.vs("Access"), ptr, ast.NewIdent(w), locLit, siteLit)
				}
				out = append(out, &ast.ExprStmt{X: c})
			}
			out = append(out, s)
		}
		*list = out
		return true
	})
}
